(* Common core of C15 / C16 / C33: MarkupSafe's escape, a five-entity unescape, tagged
   strings (str vs Markup) and the escaping methods of markupsafe.Markup that jinja relies on.
   Executable definitions only; proofs live in Proofs/EscMarkupProofs.v.

   characters = code points N, strings = list N. *)
From Coq Require Import List NArith Bool.
Import ListNotations.
Open Scope N_scope.

Definition str := list N.

Definition AMP : N := 38.   (* & *)
Definition LT  : N := 60.   (* < *)
Definition GT  : N := 62.   (* > *)
Definition DQ  : N := 34.   (* double quote *)
Definition SQ  : N := 39.   (* ' *)

(* the text after '&' of the five entities MarkupSafe emits *)
Definition t_amp : str := [97; 109; 112; 59].   (* amp; *)
Definition t_lt  : str := [108; 116; 59].       (* lt;  *)
Definition t_gt  : str := [103; 116; 59].       (* gt;  *)
Definition t_dq  : str := [35; 51; 52; 59].     (* #34; *)
Definition t_sq  : str := [35; 51; 57; 59].     (* #39; *)

(* str.replace(<one character>, r) *)
Fixpoint replace1 (c : N) (r : str) (s : str) : str :=
  match s with
  | [] => []
  | x :: t => (if x =? c then r else [x]) ++ replace1 c r t
  end.

(* markupsafe._native._escape_inner:
     s.replace("&", "&amp;").replace(">", "&gt;").replace("<", "&lt;")
      .replace(SQ, "&#39;").replace(DQ, "&#34;")                                   *)
Definition escape (s : str) : str :=
  replace1 DQ (AMP :: t_dq)
    (replace1 SQ (AMP :: t_sq)
      (replace1 LT (AMP :: t_lt)
        (replace1 GT (AMP :: t_gt)
          (replace1 AMP (AMP :: t_amp) s)))).

(* the same function written per character (proved equal in EscMarkupProofs.escape_flat) *)
Definition escape_char (c : N) : str :=
  if c =? AMP then AMP :: t_amp
  else if c =? LT then AMP :: t_lt
  else if c =? GT then AMP :: t_gt
  else if c =? DQ then AMP :: t_dq
  else if c =? SQ then AMP :: t_sq
  else [c].

Definition escape_spec (s : str) : str := flat_map escape_char s.

(* strip_prefix p s = Some r  iff  s = p ++ r *)
Fixpoint strip_prefix (p s : str) : option str :=
  match p with
  | [] => Some s
  | a :: p' => match s with
               | [] => None
               | b :: s' => if a =? b then strip_prefix p' s' else None
               end
  end.

(* does u start with the tail of one of the five entities?  returns the decoded character *)
Definition ent_tail (u : str) : option (N * str) :=
  match strip_prefix t_amp u with Some r => Some (AMP, r) | None =>
  match strip_prefix t_lt u with Some r => Some (LT, r) | None =>
  match strip_prefix t_gt u with Some r => Some (GT, r) | None =>
  match strip_prefix t_dq u with Some r => Some (DQ, r) | None =>
  match strip_prefix t_sq u with Some r => Some (SQ, r) | None => None
  end end end end end.

(* unescape5: decode exactly &amp; &lt; &gt; &#34; &#39; reading left to right, every other
   '&' stays.  Written right-to-left (structural): the tails of the entities contain no '&',
   so "the rest, already decoded" starts with an entity tail iff the rest does
   (EscMarkupProofs.unescape5_ent / unescape5_other give the left-to-right reading). *)
Fixpoint unescape5 (s : str) : str :=
  match s with
  | [] => []
  | c :: r =>
      let u := unescape5 r in
      if c =? AMP then
        match ent_tail u with
        | Some (ch, u') => ch :: u'
        | None => AMP :: u
        end
      else c :: u
  end.

(* S of C15: none of LT GT DQ SQ occurs *)
Definition metachar (c : N) : bool := (c =? LT) || (c =? GT) || (c =? DQ) || (c =? SQ).
Definition clean (s : str) : bool := forallb (fun c => negb (metachar c)) s.
Definition Clean (s : str) : Prop := clean s = true.

Definition amp_free (s : str) : bool := forallb (fun c => negb (c =? AMP)) s.

(* ---------------------------------------------------------------- tagged strings *)
Inductive tstr := Plain (s : str) | Mk (s : str).

Definition raw (v : tstr) : str := match v with Plain s => s | Mk s => s end.      (* str(v) *)
Definition is_mk (v : tstr) : bool := match v with Mk _ => true | Plain _ => false end.
(* markupsafe.escape(v): Markup is returned unchanged (__html__), plain text is escaped *)
Definition esc (v : tstr) : tstr := match v with Plain s => Mk (escape s) | Mk s => Mk s end.
Definition esc_str (v : tstr) : str := raw (esc v).
(* markupsafe.soft_str keeps a Markup a Markup *)
Definition soft_str (v : tstr) : tstr := v.
Definition truthy (v : tstr) : bool := match raw v with [] => false | _ => true end.

Fixpoint concat (ps : list str) : str :=
  match ps with [] => [] | p :: r => p ++ concat r end.

(* Markup.__add__ / __radd__: if either side is Markup the other side is escaped *)
Definition mk_add (a b : tstr) : tstr :=
  match a, b with
  | Plain x, Plain y => Plain (x ++ y)
  | _, _ => Mk (esc_str a ++ esc_str b)
  end.

(* sep.join(items): Markup.join escapes every item; str.join returns plain str *)
Fixpoint join_str (sep : str) (items : list str) : str :=
  match items with
  | [] => []
  | [x] => x
  | x :: r => x ++ sep ++ join_str sep r
  end.
Definition mk_join (sep : tstr) (items : list tstr) : tstr :=
  match sep with
  | Mk s => Mk (join_str s (map esc_str items))
  | Plain s => Plain (join_str s (map raw items))
  end.

(* runtime.markup_join / str_join (what `~` compiles to) *)
Definition markup_join (seq : list tstr) : tstr :=
  if existsb is_mk seq then Mk (concat (map esc_str seq)) else Plain (concat (map raw seq)).
Definition str_join (seq : list tstr) : tstr := Plain (concat (map raw seq)).

(* str.replace(old, new) (count = -1).  [skip] characters of a match still to be dropped. *)
Fixpoint is_prefix (p s : str) : bool :=
  match p with
  | [] => true
  | a :: p' => match s with [] => false | b :: s' => (a =? b) && is_prefix p' s' end
  end.
Fixpoint replace_go (old new : str) (skip : nat) (s : str) : str :=
  match s with
  | [] => []
  | c :: r =>
      match skip with
      | S k => replace_go old new k r
      | O => if is_prefix old s then new ++ replace_go old new (pred (length old)) r
             else c :: replace_go old new O r
      end
  end.
(* "abc".replace("", "-") = "-a-b-c-" *)
Fixpoint intersperse_all (new : str) (s : str) : str :=
  match s with [] => new | c :: r => new ++ c :: intersperse_all new r end.
Definition str_replace (s old new : str) : str :=
  match old with [] => intersperse_all new s | _ => replace_go old new O s end.

(* Markup.replace(old, new) = Markup(str.replace(self, old, escape(new))): only [new] is
   escaped (MarkupSafe 3.0); str.replace on a plain receiver ignores tags *)
Definition mk_replace (s old new : tstr) : tstr :=
  match s with
  | Mk x => Mk (str_replace x (raw old) (esc_str new))
  | Plain x => Plain (str_replace x (raw old) (raw new))
  end.

(* Markup % args : every argument is wrapped in _MarkupEscapeHelper, i.e. escaped;
   the formatting function itself (restricted to %(name)s / %s / %%) is a parameter. *)
Definition mk_mod (pyfmt : str -> list str -> str) (fmt : tstr) (args : list tstr) : tstr :=
  match fmt with
  | Mk f => Mk (pyfmt f (map esc_str args))
  | Plain f => Plain (pyfmt f (map raw args))
  end.

(* slicing / methods that keep the class (upper, lower, strip, [:n], ...) *)
Definition mk_map (f : str -> str) (v : tstr) : tstr :=
  match v with Plain s => Plain (f s) | Mk s => Mk (f s) end.

(* ASCII case mapping (the ties generate ASCII text only) *)
Definition lower_c (c : N) : N := if (65 <=? c) && (c <=? 90) then c + 32 else c.
Definition upper_c (c : N) : N := if (97 <=? c) && (c <=? 122) then c - 32 else c.
Definition lower (s : str) : str := map lower_c s.
Definition upper (s : str) : str := map upper_c s.
