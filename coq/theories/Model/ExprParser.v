(* M — jinja2.parser.Parser for expressions: precedence climbing over the token stream exactly
   as parse_condexpr / parse_or / parse_and / parse_not / parse_compare / parse_math1 /
   parse_concat / parse_math2 / parse_pow / parse_unary / parse_primary / parse_postfix /
   parse_filter_expr / parse_subscript / parse_subscribed / parse_call_args / parse_filter /
   parse_test / parse_tuple / parse_list / parse_dict.  Fuelled; definitions only. *)
From Coq Require Import List NArith ZArith Bool.
Import ListNotations.
From JV Require Import Model.ExprAst.

Inductive optok :=
| OAdd | OSub | OMul | ODiv | OFloorDiv | OMod | OPow | OTilde
| OEq | ONe | OLt | OLe | OGt | OGe
| OLParen | ORParen | OLBracket | ORBracket | OLBrace | ORBrace
| ODot | OComma | OColon | OPipe | OAssign | OSemicolon.

Inductive tok :=
| KName (s : str)
| KInt (z : Z)
| KStr (s : str)
| KFloat
| KOp (o : optok).

Inductive pres (A : Type) :=
| ROk (a : A) (rest : list tok)
| RErr (at_ : list tok)   (* TemplateSyntaxError; the suffix whose first token is blamed (its line is the error line) *)
| RUnsup               (* syntax outside the modelled AST (floats, *args, filter kwargs, slice tuples) *)
| RFuel.
Arguments ROk {A} _ _. Arguments RErr {A} _. Arguments RUnsup {A}. Arguments RFuel {A}.

Definition k_if : str := [105; 102]%N.
Definition k_else : str := [101; 108; 115; 101]%N.
Definition k_or : str := [111; 114]%N.
Definition k_and : str := [97; 110; 100]%N.
Definition k_not : str := [110; 111; 116]%N.
Definition k_in : str := [105; 110]%N.
Definition k_is : str := [105; 115]%N.
Definition k_true : str := [116; 114; 117; 101]%N.
Definition k_false : str := [102; 97; 108; 115; 101]%N.
Definition k_True : str := [84; 114; 117; 101]%N.
Definition k_False : str := [70; 97; 108; 115; 101]%N.
Definition k_none : str := [110; 111; 110; 101]%N.
Definition k_None : str := [78; 111; 110; 101]%N.

Definition is_kw (k : str) (t : list tok) : bool :=
  match t with KName s :: _ => str_eqb s k | _ => false end.
Definition is_op (o : optok) (t : list tok) : bool :=
  match t with
  | KOp o' :: _ =>
      match o, o' with
      | OAdd, OAdd | OSub, OSub | OMul, OMul | ODiv, ODiv | OFloorDiv, OFloorDiv | OMod, OMod | OPow, OPow
      | OTilde, OTilde | OEq, OEq | ONe, ONe | OLt, OLt | OLe, OLe | OGt, OGt | OGe, OGe
      | OLParen, OLParen | ORParen, ORParen | OLBracket, OLBracket | ORBracket, ORBracket
      | OLBrace, OLBrace | ORBrace, ORBrace | ODot, ODot | OComma, OComma | OColon, OColon
      | OPipe, OPipe | OAssign, OAssign | OSemicolon, OSemicolon => true
      | _, _ => false
      end
  | _ => false
  end.

Definition cmp_of_tok (o : optok) : option cmpop :=
  match o with
  | OEq => Some CEq | ONe => Some CNe | OLt => Some CLt | OLe => Some CLe | OGt => Some CGt | OGe => Some CGe
  | _ => None
  end.
Definition math1_of_tok (o : optok) : option binop :=
  match o with OAdd => Some Add | OSub => Some Sub | _ => None end.
Definition math2_of_tok (o : optok) : option binop :=
  match o with OMul => Some Mul | ODiv => Some Div | OFloorDiv => Some FloorDiv | OMod => Some Mod | _ => None end.

(* a parsed subscript element *)
Inductive sub := SubE (e : expr) | SubSlice (lo hi st : option expr).

Definition bindp {A B} (r : pres A) (f : A -> list tok -> pres B) : pres B :=
  match r with ROk a rest => f a rest | RErr a => RErr a | RUnsup => RUnsup | RFuel => RFuel end.
Notation "'let*' ( x , r ) := m 'in' f" := (bindp m (fun x r => f)) (at level 200, x name, r name).

Definition expect (o : optok) (ts : list tok) : pres unit :=
  if is_op o ts then ROk tt (tl ts) else RErr ts.

(* is_tuple_end: the variable end (no token left) or a closing parenthesis *)
Definition tuple_end (ts : list tok) : bool :=
  match ts with [] => true | _ => is_op ORParen ts end.

Record kit := {
  p_cond : (list tok) -> pres expr;
  p_cond_loop : (expr) -> (list tok) -> pres expr;
  p_or : (list tok) -> pres expr;
  p_or_loop : (expr) -> (list tok) -> pres expr;
  p_and : (list tok) -> pres expr;
  p_and_loop : (expr) -> (list tok) -> pres expr;
  p_not : (list tok) -> pres expr;
  p_compare : (list tok) -> pres expr;
  p_compare_loop : (list (cmpop * expr)) -> (list tok) -> pres (list (cmpop * expr));
  p_math1 : (list tok) -> pres expr;
  p_math1_loop : (expr) -> (list tok) -> pres expr;
  p_concat : (list tok) -> pres expr;
  p_concat_loop : (list expr) -> (list tok) -> pres (list expr);
  p_math2 : (list tok) -> pres expr;
  p_math2_loop : (expr) -> (list tok) -> pres expr;
  p_pow : (list tok) -> pres expr;
  p_pow_loop : (expr) -> (list tok) -> pres expr;
  p_unary : (bool) -> (list tok) -> pres expr;
  p_primary : (list tok) -> pres expr;
  p_strings : (str) -> (list tok) -> pres expr;
  p_tuple : (list tok) -> pres expr;
  p_tuple_rest : (list expr) -> (bool) -> (list tok) -> pres expr;
  p_items : (optok) -> (list expr) -> (list tok) -> pres (list expr);
  p_pairs : (list (expr * expr)) -> (list tok) -> pres (list (expr * expr));
  p_postfix : (expr) -> (list tok) -> pres expr;
  p_filter_expr : (expr) -> (list tok) -> pres expr;
  p_subscript : (expr) -> (list tok) -> pres expr;
  p_subs : (list sub) -> (list tok) -> pres (list sub);
  p_subscribed : (list tok) -> pres sub;
  p_call : (expr) -> (list tok) -> pres expr;
  p_call_args : (list tok) -> pres (list expr * list (str * expr));
  p_args_loop : (list tok) -> (list expr) -> (list (str * expr)) -> (bool) -> (list tok) -> pres (list expr * list (str * expr));
  p_dotted : (str) -> (list tok) -> pres str;
  p_filter : (expr) -> (list tok) -> pres expr;
  p_test : (expr) -> (list tok) -> pres expr;
}.

Definition kit0 : kit := {|
  p_cond := fun _ => RFuel;
  p_cond_loop := fun _ _ => RFuel;
  p_or := fun _ => RFuel;
  p_or_loop := fun _ _ => RFuel;
  p_and := fun _ => RFuel;
  p_and_loop := fun _ _ => RFuel;
  p_not := fun _ => RFuel;
  p_compare := fun _ => RFuel;
  p_compare_loop := fun _ _ => RFuel;
  p_math1 := fun _ => RFuel;
  p_math1_loop := fun _ _ => RFuel;
  p_concat := fun _ => RFuel;
  p_concat_loop := fun _ _ => RFuel;
  p_math2 := fun _ => RFuel;
  p_math2_loop := fun _ _ => RFuel;
  p_pow := fun _ => RFuel;
  p_pow_loop := fun _ _ => RFuel;
  p_unary := fun _ _ => RFuel;
  p_primary := fun _ => RFuel;
  p_strings := fun _ _ => RFuel;
  p_tuple := fun _ => RFuel;
  p_tuple_rest := fun _ _ _ => RFuel;
  p_items := fun _ _ _ => RFuel;
  p_pairs := fun _ _ => RFuel;
  p_postfix := fun _ _ => RFuel;
  p_filter_expr := fun _ _ => RFuel;
  p_subscript := fun _ _ => RFuel;
  p_subs := fun _ _ => RFuel;
  p_subscribed := fun _ => RFuel;
  p_call := fun _ _ => RFuel;
  p_call_args := fun _ => RFuel;
  p_args_loop := fun _ _ _ _ _ => RFuel;
  p_dotted := fun _ _ => RFuel;
  p_filter := fun _ _ => RFuel;
  p_test := fun _ _ => RFuel;
|}.

(* one unfolding of every parser function over the functions with one unit of fuel less *)
Definition kit_step (KK : kit) : kit := {|
  p_cond := fun ts =>
    let* (e1, r) := p_or KK ts in p_cond_loop KK e1 r;
  p_cond_loop := fun e1 ts =>
    if is_kw k_if ts then
      let* (e2, r2) := p_or KK (tl ts) in
      if is_kw k_else r2 then
        let* (e3, r3) := p_cond KK (tl r2) in p_cond_loop KK (ECond e2 e1 (Some e3)) r3
      else p_cond_loop KK (ECond e2 e1 None) r2
    else ROk e1 ts;
  p_or := fun ts =>
    let* (l, r) := p_and KK ts in p_or_loop KK l r;
  p_or_loop := fun l ts =>
    if is_kw k_or ts then let* (x, r) := p_and KK (tl ts) in p_or_loop KK (EOr l x) r
    else ROk l ts;
  p_and := fun ts =>
    let* (l, r) := p_not KK ts in p_and_loop KK l r;
  p_and_loop := fun l ts =>
    if is_kw k_and ts then let* (x, r) := p_not KK (tl ts) in p_and_loop KK (EAnd l x) r
    else ROk l ts;
  p_not := fun ts =>
    if is_kw k_not ts then let* (x, r) := p_not KK (tl ts) in ROk (ENot x) r
    else p_compare KK ts;
  p_compare := fun ts =>
    let* (e, r) := p_math1 KK ts in
    let* (ops, r2) := p_compare_loop KK [] r in
    match ops with [] => ROk e r2 | _ => ROk (ECompare e ops) r2 end;
  p_compare_loop := fun acc ts =>
    match ts with
    | KOp o :: r =>
        match cmp_of_tok o with
        | Some c => let* (x, r2) := p_math1 KK r in p_compare_loop KK (acc ++ [(c, x)]) r2
        | None => ROk acc ts
        end
    | KName s :: r =>
        if str_eqb s k_in then let* (x, r2) := p_math1 KK r in p_compare_loop KK (acc ++ [(CIn, x)]) r2
        else if str_eqb s k_not && is_kw k_in r then
          let* (x, r2) := p_math1 KK (tl r) in p_compare_loop KK (acc ++ [(CNotIn, x)]) r2
        else ROk acc ts
    | _ => ROk acc ts
    end;
  p_math1 := fun ts =>
    let* (l, r) := p_concat KK ts in p_math1_loop KK l r;
  p_math1_loop := fun l ts =>
    match ts with
    | KOp o :: r =>
        match math1_of_tok o with
        | Some b => let* (x, r2) := p_concat KK r in p_math1_loop KK (EBin b l x) r2
        | None => ROk l ts
        end
    | _ => ROk l ts
    end;
  p_concat := fun ts =>
    let* (a, r) := p_math2 KK ts in
    let* (args, r2) := p_concat_loop KK [a] r in
    match args with [x] => ROk x r2 | _ => ROk (EConcat args) r2 end;
  p_concat_loop := fun acc ts =>
    if is_op OTilde ts then let* (x, r) := p_math2 KK (tl ts) in p_concat_loop KK (acc ++ [x]) r
    else ROk acc ts;
  p_math2 := fun ts =>
    let* (l, r) := p_pow KK ts in p_math2_loop KK l r;
  p_math2_loop := fun l ts =>
    match ts with
    | KOp o :: r =>
        match math2_of_tok o with
        | Some b => let* (x, r2) := p_pow KK r in p_math2_loop KK (EBin b l x) r2
        | None => ROk l ts
        end
    | _ => ROk l ts
    end;
  p_pow := fun ts =>
    let* (l, r) := p_unary KK true ts in p_pow_loop KK l r;
  p_pow_loop := fun l ts =>
    if is_op OPow ts then let* (x, r) := p_unary KK true (tl ts) in p_pow_loop KK (EBin Pow l x) r
    else ROk l ts;
  p_unary := fun with_filter ts =>
    let* (node, r) :=
      (if is_op OSub ts then let* (x, r) := p_unary KK false (tl ts) in ROk (EUn Neg x) r
       else if is_op OAdd ts then let* (x, r) := p_unary KK false (tl ts) in ROk (EUn Pos x) r
       else p_primary KK ts) in
    let* (node2, r2) := p_postfix KK node r in
    if with_filter then p_filter_expr KK node2 r2 else ROk node2 r2;
  p_primary := fun ts =>
    match ts with
    | KName s :: r =>
        if str_eqb s k_true || str_eqb s k_True then ROk (EConst (VBool true)) r
        else if str_eqb s k_false || str_eqb s k_False then ROk (EConst (VBool false)) r
        else if str_eqb s k_none || str_eqb s k_None then ROk (EConst VNone) r
        else ROk (EName s) r
    | KStr s :: r => p_strings KK s r
    | KInt z :: r => ROk (EConst (VInt z)) r
    | KFloat :: _ => RUnsup
    | KOp OLParen :: r =>
        let* (e, r2) := p_tuple KK r in
        let* (_u, r3) := expect ORParen r2 in ROk e r3
    | KOp OLBracket :: r => let* (es, r2) := p_items KK ORBracket [] r in ROk (EList es) r2
    | KOp OLBrace :: r => let* (kvs, r2) := p_pairs KK [] r in ROk (EDict kvs) r2
    | _ => RErr ts
    end;
  p_strings := fun acc ts =>
    match ts with
    | KStr s :: r => p_strings KK (acc ++ s) r
    | _ => ROk (EConst (VStr acc)) ts
    end;
  p_tuple := fun ts =>
    if tuple_end ts then ROk (ETuple []) ts
    else let* (e, r) := p_cond KK ts in p_tuple_rest KK [e] false r;
  p_tuple_rest := fun acc is_tuple ts =>
    if is_op OComma ts then
      let r := tl ts in
      if tuple_end r then ROk (ETuple acc) r
      else let* (e, r2) := p_cond KK r in p_tuple_rest KK (acc ++ [e]) true r2
    else if is_tuple then ROk (ETuple acc) ts
    else match acc with [e] => ROk e ts | _ => ROk (ETuple acc) ts end;
  p_items := fun close acc ts =>
    if is_op close ts then ROk acc (tl ts)
    else
      let* (_u, r) := (match acc with [] => ROk tt ts | _ => expect OComma ts end) in
      if is_op close r then ROk acc (tl r)
      else let* (e, r2) := p_cond KK r in p_items KK close (acc ++ [e]) r2;
  p_pairs := fun acc ts =>
    if is_op ORBrace ts then ROk acc (tl ts)
    else
      let* (_u, r) := (match acc with [] => ROk tt ts | _ => expect OComma ts end) in
      if is_op ORBrace r then ROk acc (tl r)
      else
        let* (k, r2) := p_cond KK r in
        let* (_u2, r3) := expect OColon r2 in
        let* (v, r4) := p_cond KK r3 in p_pairs KK (acc ++ [(k, v)]) r4;
  p_postfix := fun node ts =>
    if is_op ODot ts || is_op OLBracket ts then
      let* (x, r) := p_subscript KK node ts in p_postfix KK x r
    else if is_op OLParen ts then
      let* (x, r) := p_call KK node ts in p_postfix KK x r
    else ROk node ts;
  p_filter_expr := fun node ts =>
    if is_op OPipe ts then let* (x, r) := p_filter KK node ts in p_filter_expr KK x r
    else if is_kw k_is ts then let* (x, r) := p_test KK node (tl ts) in p_filter_expr KK x r
    else if is_op OLParen ts then let* (x, r) := p_call KK node ts in p_filter_expr KK x r
    else ROk node ts;
  p_subscript := fun node ts =>
    match ts with
    | KOp ODot :: KName s :: r => ROk (EGetattr node s) r
    | KOp ODot :: KInt z :: r => ROk (EGetitem node (EConst (VInt z))) r
    | KOp ODot :: _ => RErr (tl ts)
    | KOp OLBracket :: r =>
        let* (args, r2) := p_subs KK [] r in
        match args with
        | [SubE e] => ROk (EGetitem node e) r2
        | [SubSlice lo hi st] => ROk (ESlice node lo hi st) r2
        | _ =>
            match (fix all (l : list sub) : option (list expr) :=
                     match l with
                     | [] => Some []
                     | SubE e :: l' => match all l' with Some es => Some (e :: es) | None => None end
                     | SubSlice _ _ _ :: _ => None
                     end) args with
            | Some es => ROk (EGetitem node (ETuple es)) r2
            | None => RUnsup
            end
        end
    | _ => RErr ts
    end;
  p_subs := fun acc ts =>
    if is_op ORBracket ts then ROk acc (tl ts)
    else
      let* (_u, r) := (match acc with [] => ROk tt ts | _ => expect OComma ts end) in
      let* (s, r2) := p_subscribed KK r in p_subs KK (acc ++ [s]) r2;
  p_subscribed := fun ts =>
    let after_first := fun (lo : option expr) (r : list tok) =>
      (* r: just after the first colon *)
      let* (hi, r2) :=
        (if is_op OColon r then ROk None r
         else if is_op ORBracket r || is_op OComma r then ROk None r
         else let* (e, r') := p_cond KK r in ROk (Some e) r') in
      if is_op OColon r2 then
        let r3 := tl r2 in
        if is_op ORBracket r3 || is_op OComma r3 then ROk (SubSlice lo hi None) r3
        else let* (e, r4) := p_cond KK r3 in ROk (SubSlice lo hi (Some e)) r4
      else ROk (SubSlice lo hi None) r2 in
    if is_op OColon ts then after_first None (tl ts)
    else
      let* (e, r) := p_cond KK ts in
      if is_op OColon r then after_first (Some e) (tl r) else ROk (SubE e) r;
  p_call := fun node ts =>
    let* (ak, r) := p_call_args KK ts in ROk (ECall node (fst ak) (snd ak)) r;
  p_call_args := fun ts =>
    let* (_u, r) := expect OLParen ts in p_args_loop KK ts [] [] false r;
  p_args_loop := fun lp args kw require_comma ts =>
    if is_op ORParen ts then ROk (args, kw) (tl ts)
    else
      let* (_u, r) := (if require_comma then expect OComma ts else ROk tt ts) in
      if require_comma && is_op ORParen r then ROk (args, kw) (tl r)
      else if is_op OMul r || is_op OPow r then RUnsup
      else
        match r with
        | KName key :: KOp OAssign :: r2 =>
            let* (v, r3) := p_cond KK r2 in p_args_loop KK lp args (kw ++ [(key, v)]) true r3
        | _ =>
            match kw with
            | [] => let* (v, r3) := p_cond KK r in p_args_loop KK lp (args ++ [v]) kw true r3
            | _ => RErr lp
            end
        end;
  p_dotted := fun name ts =>
    match ts with
    | KOp ODot :: KName s :: r => p_dotted KK (name ++ [46%N] ++ s) r
    | KOp ODot :: _ => RErr (tl ts)
    | _ => ROk name ts
    end;
  p_filter := fun node ts =>
    match ts with
    | KOp OPipe :: KName s :: r =>
        let* (name, r2) := p_dotted KK s r in
        if is_op OLParen r2 then
          let* (ak, r3) := p_call_args KK r2 in
          match snd ak with [] => ROk (EFilter node name (fst ak)) r3 | _ => RUnsup end
        else ROk (EFilter node name []) r2
    | _ => RErr (tl ts)
    end;
  p_test := fun node ts =>
    let negated := is_kw k_not ts in
    let ts1 := if negated then tl ts else ts in
    match ts1 with
    | KName s :: r =>
        let* (name, r2) := p_dotted KK s r in
        let* (args, r3) :=
          (if is_op OLParen r2 then
             let* (ak, r3) := p_call_args KK r2 in
             match snd ak with [] => ROk (fst ak) r3 | _ => RUnsup end
           else
             let starts_arg :=
               match r2 with
               | KName s2 :: _ => negb (str_eqb s2 k_else || str_eqb s2 k_or || str_eqb s2 k_and || str_eqb s2 k_if)
               | KStr _ :: _ | KInt _ :: _ | KFloat :: _ => true
               | KOp OLBracket :: _ | KOp OLBrace :: _ => true
               | _ => false
               end in
             if starts_arg then
               if is_kw k_is r2 then RErr r2
               else
                 let* (a, r3) := p_primary KK r2 in
                 let* (a2, r4) := p_postfix KK a r3 in ROk [a2] r4
             else ROk [] r2) in
        let t := ETest node name args in
        ROk (if negated then ENot t else t) r3
    | _ => RErr ts1
    end;
|}.

Fixpoint kit_of (n : nat) : kit := match n with O => kit0 | S n => kit_step (kit_of n) end.

(* Parser.parse_expression over a complete token list (compile_expression) *)
Definition parse_expr (ts : list tok) : pres expr :=
  let n := (40 * (length ts + 2))%nat in
  match p_cond (kit_of n) ts with
  | ROk e [] => ROk e []
  | ROk _ rest => RErr rest
  | x => x
  end.

(* the `{{ ... }}` form: parse_tuple(with_condexpr=True) without explicit parentheses *)
Definition parse_print (ts : list tok) : pres expr :=
  let n := (40 * (length ts + 2))%nat in
  match ts with
  | [] => RErr []
  | _ =>
      match p_cond (kit_of n) ts with
      | ROk e r =>
          match p_tuple_rest (kit_of n) [e] false r with
          | ROk e' [] => ROk e' []
          | ROk _ rest => RErr rest
          | x => x
          end
      | x => x
      end
  end.
