(* M — what jinja DOES with an expression: the Python expression the code generator emits
   (compiler.py visit_* for expressions) and the meaning of that Python over the runtime
   primitives (environment.getattr/getitem/call, context.call, markup_join/str_join, the
   sandbox's call_binop/call_unop, filters/tests by table).  Definitions only. *)
From Coq Require Import List NArith ZArith Bool.
Import ListNotations.
From JV Require Import Model.ExprAst Model.ExprPrim Spec.ExprSpec.

Inductive joinkind := JStr | JMarkup | JVolatile.

(* the target language: one constructor per shape of emitted Python.  [aw] = wrapped in
   (await auto_await(...)) (async environments) *)
Inductive target :=
| TConst (v : value)                                   (* repr(value) *)
| TNameLoad (x : str)                                  (* (undefined(name='x') if l_0_x is missing else l_0_x) *)
| TBin (op : binop) (a b : target)                     (* (a op b) *)
| TCallBinop (op : binop) (a b : target)               (* environment.call_binop(context, 'op', a, b) *)
| TUn (op : unop) (a : target)                         (* (op a) *)
| TCallUnop (op : unop) (a : target)                   (* environment.call_unop(context, 'op', a) *)
| TNot (a : target)                                    (* (not a) *)
| TAnd (a b : target) | TOr (a b : target)             (* (a and b) (a or b) *)
| TJoin (k : joinkind) (ts : list target)              (* str_join((..)) / markup_join((..)) / (markup_join if context.eval_ctx.autoescape else str_join)((..)) *)
| TCompare (a : target) (ops : list (cmpop * target))  (* (a op b op c) *)
| TIfExp (a test : target) (b : option target)         (* (a if test else b) ; None = cond_expr_undefined(...) *)
| TEnvGetattr (aw : bool) (a : target) (name : str)    (* environment.getattr(a, 'name') *)
| TEnvGetitem (aw : bool) (a k : target)               (* environment.getitem(a, k) *)
| TSubSlice (a : target) (lo hi st : option target)    (* a[lo:hi:st] *)
| TList (ts : list target) | TTuple (ts : list target)
| TDict (kvs : list (target * target))
| TCall (aw sb : bool) (f : target) (args : list target) (kw : list (str * target))
                                                       (* context.call(f, ..) / environment.call(context, f, ..) *)
| TFilter (aw : bool) (name : str) (a : target) (args : list target)   (* t_N([ctx,] a, args..) *)
| TTest (aw : bool) (name : str) (a : target) (args : list target).

(* ---- code generation (without the optimizer; see ExprFold.gen_opt) ---- *)
Fixpoint gen (c : cfg) (e : expr) : target :=
  let go := option_map (gen c) in
  match e with
  | EConst v => TConst v
  | EName x => TNameLoad x
  | EBin op a b =>
      if sandboxed c && ibin c op then TCallBinop op (gen c a) (gen c b) else TBin op (gen c a) (gen c b)
  | EUn op a => if sandboxed c && iun c op then TCallUnop op (gen c a) else TUn op (gen c a)
  | ENot a => TNot (gen c a)
  | EAnd a b => TAnd (gen c a) (gen c b)
  | EOr a b => TOr (gen c a) (gen c b)
  | EConcat es => TJoin (if volatile c then JVolatile else if autoescape c then JMarkup else JStr) (map (gen c) es)
  | ECompare a ops => TCompare (gen c a) (map (fun p : cmpop * expr => (fst p, gen c (snd p))) ops)
  | ECond t a b => TIfExp (gen c a) (gen c t) (go b)
  | EGetattr a name => TEnvGetattr (is_async c) (gen c a) name
  | EGetitem a k => TEnvGetitem (is_async c) (gen c a) (gen c k)
  | ESlice a lo hi st => TSubSlice (gen c a) (go lo) (go hi) (go st)
  | EList es => TList (map (gen c) es)
  | ETuple es => TTuple (map (gen c) es)
  | EDict kvs => TDict (map (fun p : expr * expr => (gen c (fst p), gen c (snd p))) kvs)
  | ECall f args kw =>
      TCall (is_async c) (sandboxed c) (gen c f) (map (gen c) args) (map (fun p : str * expr => (fst p, gen c (snd p))) kw)
  | EFilter a name args => TFilter (is_async c) name (gen c a) (map (gen c) args)
  | ETest a name args => TTest (is_async c) name (gen c a) (map (gen c) args)
  end.

(* ---- runtime: Environment.getattr / getitem and their sandboxed overrides ---- *)
Definition safe_or_undef (c : cfg) (name : str) (x : value) : value :=
  if sandboxed c && starts_underscore name then VUndef (USec name) else x.

(* try: getattr(obj, attr)  except AttributeError: try: obj[attr] except (TypeError, LookupError, AttributeError): undefined *)
Definition env_getattr (c : cfg) (O : oracles) (v : value) (name : str) : res value :=
  match py_getattr O v name with
  | POk x => Ok (safe_or_undef c name x)
  | PRaise XAttr =>
      match py_getitem v (VStr name) with
      | POk x => Ok x
      | PRaise XUndef => Err EUndef
      | PRaise XAttr => if sandboxed c then Err EOpaque else Ok (VUndef (UAttr name))
      | PRaise _ => Ok (VUndef (UAttr name))
      end
  | PRaise XUndef => Err EUndef
  | PRaise _ => Err EOpaque
  end.

(* try: obj[arg] except (AttributeError, TypeError, LookupError): if isinstance(arg, str): try getattr ... ; undefined *)
Definition env_getitem (c : cfg) (O : oracles) (v k : value) : res value :=
  match py_getitem v k with
  | POk x => Ok x
  | PRaise XUndef => Err EUndef
  | PRaise x =>
      match x, sandboxed c with
      | XAttr, true => Err EOpaque
      | _, _ =>
          match strlike k with
          | Some s =>
              match py_getattr O v s with
              | POk y => Ok (safe_or_undef c s y)
              | PRaise XAttr => Ok (VUndef (UAttr s))
              | PRaise XUndef => Err EUndef
              | PRaise _ => Err EOpaque
              end
          | None => Ok (VUndef UItem)
          end
      end
  end.

(* ---- meaning of the emitted Python ---- *)
Definition run_join (c : cfg) (k : joinkind) (vs : list value) : res value :=
  match k with
  | JStr => str_join vs
  | JMarkup => markup_join vs
  | JVolatile => if rt_autoescape c then markup_join vs else str_join vs
  end.

Fixpoint py_eval (O : oracles) (c : cfg) (n : nat) (t : target) (rho : env) : M value :=
  match n with
  | O => fail EFuel
  | S n =>
    let ev := fun t => py_eval O c n t rho in
    match t with
    | TConst v => ret v
    | TNameLoad x => ret (match assoc_s x rho with Some v => v | None => VUndef (UName x) end)
    | TBin op a b => va <- ev a ;; vb <- ev b ;; lift (prim_bin op va vb)
    | TCallBinop op a b => va <- ev a ;; vb <- ev b ;; _ <- emit (EvBin op va vb) ;; lift (hook_bin c op va vb)
    | TUn op a => va <- ev a ;; lift (prim_un op va)
    | TCallUnop op a => va <- ev a ;; _ <- emit (EvUn op va) ;; lift (hook_un c op va)
    | TNot a => va <- ev a ;; ret (VBool (negb (truth va)))
    | TAnd a b => va <- ev a ;; if truth va then ev b else ret va
    | TOr a b => va <- ev a ;; if truth va then ret va else ev b
    | TJoin k ts => vs <- mapM ev ts ;; lift (run_join c k vs)
    | TCompare a ops => va <- ev a ;; cmp_chain ev va ops
    | TIfExp a test b =>
        vt <- ev test ;;
        if truth vt then ev a else match b with Some b => ev b | None => ret (VUndef UCond) end
    | TEnvGetattr _ a name => va <- ev a ;; lift (env_getattr c O va name)
    | TEnvGetitem _ a k => va <- ev a ;; vk <- ev k ;; lift (env_getitem c O va vk)
    | TSubSlice a lo hi st =>
        va <- ev a ;; vlo <- optM ev lo ;; vhi <- optM ev hi ;; vst <- optM ev st ;;
        lift (py_slice va vlo vhi vst)
    | TList ts => vs <- mapM ev ts ;; ret (VList vs)
    | TTuple ts => vs <- mapM ev ts ;; ret (VTuple vs)
    | TDict kvs =>
        ps <- mapM (fun kv : target * target => vk <- ev (fst kv) ;; vx <- ev (snd kv) ;; ret (vk, vx)) kvs ;;
        d <- lift (mk_dict [] ps) ;; ret (VDict d)
    | TCall _ _ f args kw =>
        vf <- ev f ;; vargs <- mapM ev args ;;
        vkw <- mapM (fun kv : str * target => vx <- ev (snd kv) ;; ret (fst kv, vx)) kw ;;
        do_call O vf vargs vkw
    | TFilter _ name a args =>
        va <- ev a ;; vargs <- mapM ev args ;; lift (apply_filter (rt_autoescape c) name va vargs)
    | TTest _ name a args =>
        va <- ev a ;; vargs <- mapM ev args ;; lift (apply_test name va vargs)
    end
  end.

(* a configuration is coherent when the run-time autoescape flag is the compile-time one
   unless the frame is volatile *)
Definition coherent (c : cfg) : Prop := volatile c = false -> rt_autoescape c = autoescape c.
