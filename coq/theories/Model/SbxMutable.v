(* Model of sandbox._mutable_spec / modifies_known_mutable /
   ImmutableSandboxedEnvironment.is_safe_attribute (C19).  Executable definitions only. *)
From Coq Require Import List Bool String.
Import ListNotations.
From JV Require Import Model.SbxAttr.
Open Scope string_scope.

(* the four exact builtin container types of the property *)
Inductive btype := TList | TDict | TSet | TDeque.

Definition btype_eqb (a b : btype) : bool :=
  match a, b with
  | TList, TList | TDict, TDict | TSet, TSet | TDeque, TDeque => true
  | _, _ => false
  end.

Definition all_btypes : list btype := [TList; TDict; TSet; TDeque].

Definition mem_b (T : btype) (l : list btype) : bool := existsb (btype_eqb T) l.

(* One row of the ORDERED tuple sandbox._mutable_spec.  The row's type (an ABC or deque) is
   represented by what the lookup uses of it: for which of the four exact builtin types
   [isinstance(T(), rowtype)] holds (dumped from the running interpreter), plus its display
   name.  [row_attrs] is the frozenset of method names of the row. *)
Record row := mkRow { row_type : string; row_inst : list btype; row_attrs : list string }.

(* def modifies_known_mutable(obj, attr):
       for typespec, unsafe in _mutable_spec:
           if isinstance(obj, typespec):
               return attr in unsafe          # first matching row decides
       return False *)
Fixpoint modifies_known_mutable (spec : list row) (T : btype) (attr : string) : bool :=
  match spec with
  | [] => false
  | r :: rest =>
      if mem_b T (row_inst r) then mem_s attr (row_attrs r)
      else modifies_known_mutable rest T attr
  end.

(* ImmutableSandboxedEnvironment.is_safe_attribute(obj, attr, value) for obj an instance of
   one of the four exact builtin types (these fall in the last branch of
   is_internal_attribute's isinstance chain: KOther). *)
Definition immutable_is_safe_attribute (tb : tables) (spec : list row) (T : btype) (attr : string) : bool :=
  if negb (is_safe_attribute tb KOther attr) then false
  else negb (modifies_known_mutable spec T attr).

(* What the sandbox hands out for [obj.attr] when the attribute exists on the object:
   the value, or the SecurityError-raising undefined (SandboxedEnvironment.getattr /
   getitem's attribute branch; the format wrapper does not apply to container methods). *)
Inductive handout := HValue | HUnsafeUndefined.
Definition immutable_handout (tb : tables) (spec : list row) (T : btype) (attr : string) : handout :=
  if immutable_is_safe_attribute tb spec T attr then HValue else HUnsafeUndefined.

(* ImmutableSandboxedEnvironment.is_safe_callable(obj) for obj a BOUND METHOD [T().m] of one of the four exact
   builtin types (markers: none on builtin methods, so super().is_safe_callable is true):
       if isinstance(obj, (types.MethodType, types.BuiltinMethodType)):
           return not modifies_known_mutable(obj.__self__, obj.__name__)
   — the gate for stored references that did not come through attribute access (render(f=lst.append)). *)
Definition immutable_is_safe_callable (spec : list row) (T : btype) (m : string) : bool :=
  negb (modifies_known_mutable spec T m).

(* Stored references to container methods, in the forms a host can hand them to a template:
   the bound method l.append, the unbound method list.append (a method descriptor; the container is an argument),
   functools.partial of either (nested partials too), anything else.
   ImmutableSandboxedEnvironment.is_safe_callable:
       if isinstance(obj, partial): return self.is_safe_callable(obj.func)
       if isinstance(obj, (MethodType, BuiltinMethodType)): return not modifies_known_mutable(obj.__self__, obj.__name__)
       if isinstance(obj, MethodDescriptorType): return not modifies_known_mutable(obj.__objclass__, obj.__name__)
       return True
   modifies_known_mutable answers for the type as for its instances (isinstance or issubclass): one [btype]. *)
Inductive stored_ref :=
  | RBound (T : btype) (m : string)
  | RUnbound (T : btype) (m : string)
  | RPartial (r : stored_ref)
  | ROther.

Fixpoint immutable_safe_ref (spec : list row) (r : stored_ref) : bool :=
  match r with
  | RBound T m | RUnbound T m => negb (modifies_known_mutable spec T m)
  | RPartial r => immutable_safe_ref spec r
  | ROther => true
  end.

(* the method a reference ends up calling *)
Fixpoint ref_target (r : stored_ref) : option (btype * string) :=
  match r with
  | RBound T m | RUnbound T m => Some (T, m)
  | RPartial r => ref_target r
  | ROther => None
  end.
