(* Token-level model of what compiler.visit_Getattr / visit_Getitem / visit_Call write, per
   (sandboxed, async, slice) condition, and its link to the routing constructors of Model/SbxGen.gen.
   The regenerated decision table (gen/sbx_route.py) is compared with these definitions on every run.
   Tokens:  W:<text written>   V:<node field visited>   S (the call signature). *)
From Coq Require Import List Bool String.
Import ListNotations.
From JV Require Import Model.SbxGen.
Open Scope string_scope.
Open Scope list_scope.

Definition aww (m : mode) (l : list string) : list string :=
  if is_async m then "W:(await auto_await(" :: l ++ ["W:))"] else l.

Definition route_getattr (m : mode) : list string :=
  aww m ["W:environment.getattr("; "V:node"; "W:, {node.attr!r})"].

Definition route_getitem (m : mode) (slice : bool) : list string :=
  if slice then ["V:node"; "W:["; "V:arg"; "W:]"]
  else aww m ["W:environment.getitem("; "V:node"; "W:, "; "V:arg"; "W:)"].

Definition route_call (m : mode) : list string :=
  aww m ((if sandboxed m then "W:environment.call(context, " else "W:context.call(") :: ["V:node"; "S"; "W:)"]).

Fixpoint list_eqb (a b : list string) : bool :=
  match a, b with
  | [], [] => true
  | x :: r, y :: s => String.eqb x y && list_eqb r s
  | _, _ => false
  end.

(* every row of a regenerated table agrees with the model; all eight conditions are present *)
Definition table_ok (tab : list ((bool * bool * bool) * list string)) (model : mode -> bool -> list string) : bool :=
  forallb (fun row => match row with ((sb, asy, sl), toks) => list_eqb toks (model (mkMode sb asy) sl) end) tab
  && forallb (fun c => match c with (sb, asy, sl) =>
        existsb (fun row => match fst row with (sb', asy', sl') => Bool.eqb sb sb' && Bool.eqb asy asy' && Bool.eqb sl sl' end) tab end)
       [(false, false, false); (false, false, true); (false, true, false); (false, true, true);
        (true, false, false); (true, false, true); (true, true, false); (true, true, true)].

(* the token a target's outermost routing node starts with *)
Fixpoint strip_await (t : texpr) : texpr := match t with TAwait e => strip_await e | _ => t end.
Definition first_write (t : texpr) : string :=
  match strip_await t with
  | TEnvGetattr _ _ => "W:environment.getattr("
  | TEnvGetitem _ _ => "W:environment.getitem("
  | TSlice _ _ _ _ => "W:["
  | TEnvCall _ _ _ _ _ => "W:environment.call(context, "
  | TCtxCall _ _ _ _ _ => "W:context.call("
  | _ => ""
  end.
