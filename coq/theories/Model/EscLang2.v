(* Extension of Model/EscLang.v (C15 / C16, second round): template SETS.
   Added to the language T: set block with a filter, {% include %}, {% from .. import .. %},
   block tags with inheritance and super().  What is mirrored in addition (compiler.py /
   runtime.py / environment.py):
   - every template has its own static autoescape setting [ae tid] (environment.autoescape may be a
     selector on the template name); code compiled in template tid outside any {% autoescape %}
     block has the lexical mode [CTop tid];
   - visit_AssignBlock with a filter: the buffer is wrapped by the compile-time mode
     (visit_Filter), the filter's result goes through (escape if ctx.autoescape else identity);
   - include: the included template's root render function runs with a NEW context, whose eval
     context is that template's own setting (not the includer's current runtime flag); its
     pieces are written to the includer's output / buffer as they are;
   - import: the macros of the library template are compiled in the library's mode and run with
     the LIBRARY module's context (runtime flag = the library's setting), while Macro._invoke
     wraps the result by the CALLER's eval context (context.call passes it);
   - block tags: context.blocks[name] is the stack of block functions from the most derived
     template to the base; a block function is compiled with the mode of ITS template —
     volatile when that template contains an eval context modifier (fix 60bd736), else
     [CTop tid]; it runs with the shared render context (current runtime flag); super() calls
     the next function of the stack and wraps the result in Markup by the runtime flag
     (BlockReference.__call__).
   Scoping as in EscLang.v (dynamic environments, naming discipline of the generator); in
   addition: included templates contain no block tags, child templates consist of block tags
   only, library templates of macros only and without autoescape blocks (the library module's context
   flag is then its static setting also for re-entrant calls through caller()), super() occurs
   directly in block bodies. *)
From Coq Require Import List NArith Bool.
From JV Require Import Model.EscMarkup.
Import ListNotations.
Open Scope N_scope.

Inductive filt :=
| FString | FLower | FUpper | FSafe | FEscape | FForceescape | FDefault | FReplace.

Inductive expr :=
| EVar (x : N)
| ELit (s : str)
| ECat (a b : expr)
| EFilt (f : filt) (a : expr) (args : list expr)
| ECond (c a b : expr)
| ECall (m : N) (args : list expr)
| ECaller
| ESuper                                   (* super() *)
| EJoin (sep : expr) (items : list expr).   (* ([items])|join(sep) *)

Inductive aexp := AConst (b : bool) | AFlag.

Inductive stmt :=
| SText (s : str)
| SOut (e : expr)
| SIf (c : expr) (t f : list stmt)
| SFor (x : N) (l : N) (body : list stmt)
| SSet (x : N) (e : expr)
| SSetBlock (x : N) (body : list stmt)
| SSetBlockF (x : N) (f : filt) (args : list expr) (body : list stmt)   (* {% set x | f(args) %} *)
| SMacro (m : N) (params : list N) (body : list stmt)
| SCallBlock (m : N) (args : list expr) (body : list stmt)
| SFilterBlock (f : filt) (args : list expr) (body : list stmt)
| SAutoescape (a : aexp) (body : list stmt)
| SInclude (tid : N)                        (* {% include tid %} (with context) *)
| SImport (tid : N)                         (* {% from tid import <all its macros> with context %} *)
| SBlock (name : N) (body : list stmt).     (* {% block name %} *)

(* compile-time eval context of a frame: CTop tid = the static setting of template tid *)
Inductive cexp := CTop (tid : N) | CConst (b : bool) | CVol.

(* caller closure: body and compile-time mode of the call block; frt = Some rt0 when the called
   macro was imported: the body then runs with the flag rt0 of the CALL SITE's context (the macro
   runs with the library module's context, a different object) *)
Inductive callerclo := CC (body : list stmt) (ce : cexp) (frt : option bool).

Definition env := list (N * tstr).
(* macro: parameters, body, compile-time mode, home = Some tid when imported from library tid *)
Definition menv := list (N * (list N * list stmt * cexp * option N)).
Definition bstack := list (list stmt * cexp).      (* block functions, most derived first *)

Fixpoint lookup (r : env) (x : N) : tstr :=
  match r with [] => Plain [] | (y, v) :: r' => if x =? y then v else lookup r' x end.
Fixpoint lookup_mac (m : menv) (x : N) : option (list N * list stmt * cexp * option N) :=
  match m with [] => None | (y, c) :: m' => if x =? y then Some c else lookup_mac m' x end.
Fixpoint lookup_list (dl : list (N * list str)) (x : N) : list str :=
  match dl with [] => [] | (y, v) :: r => if x =? y then v else lookup_list r x end.
Fixpoint lookup_tpl (tt : list (N * list stmt)) (x : N) : option (list stmt) :=
  match tt with [] => None | (y, v) :: r => if x =? y then Some v else lookup_tpl r x end.
Fixpoint lookup_blk (bt : list (N * bstack)) (x : N) : option bstack :=
  match bt with [] => None | (y, v) :: r => if x =? y then Some v else lookup_blk r x end.

Fixpoint bind (ps : list N) (vs : list tstr) : option env :=
  match ps, vs with
  | [], [] => Some []
  | [], _ :: _ => None
  | p :: ps', [] => match bind ps' [] with Some r => Some ((p, Plain []) :: r) | None => None end
  | p :: ps', v :: vs' => match bind ps' vs' with Some r => Some ((p, v) :: r) | None => None end
  end.

Definition apply_filter (rt : bool) (f : filt) (v : tstr) (args : list tstr) : option tstr :=
  match f, args with
  | FString, [] => Some (soft_str v)
  | FLower, [] => Some (mk_map lower (soft_str v))
  | FUpper, [] => Some (mk_map upper (soft_str v))
  | FSafe, [] => Some (Mk (raw v))
  | FEscape, [] => Some (esc v)
  | FForceescape, [] => Some (Mk (escape (raw v)))
  | FDefault, [d] => Some (if truthy v then v else d)
  | FReplace, [old; new] =>
      if rt then
        let s := if is_mk old || (is_mk new && negb (is_mk v)) then esc v else soft_str v in
        Some (mk_replace s (soft_str old) (soft_str new))
      else Some (Plain (str_replace (raw v) (raw old) (raw new)))
  | _, _ => None
  end.

(* sync_do_join(eval_ctx, [items], sep): without autoescape str.join of the str()s; with it, if the
   separator or ANY item is Markup the result is Markup(escape(sep)).join(items) (every plain item
   escaped), else a plain str.join *)
Definition join_val (rt : bool) (sep : tstr) (items : list tstr) : tstr :=
  if rt && (is_mk sep || existsb is_mk items)
  then Mk (join_str (esc_str sep) (map esc_str items))
  else Plain (join_str (raw sep) (map raw items)).

Definition out_piece (on : bool) (v : tstr) : str := if on then esc_str v else raw v.
Definition wrap (on : bool) (o : str) : tstr := if on then Mk o else Plain o.

Definition ce_enter (ce : cexp) (a : aexp) : cexp :=
  match a with
  | AFlag => CVol
  | AConst b => match ce with CVol => CVol | _ => CConst b end
  end.

(* the macros a library template exports: its top-level macro definitions *)
Fixpoint exports (tid : N) (ss : list stmt) : menv :=
  match ss with
  | [] => []
  | SMacro m ps body :: r => exports tid r ++ [(m, (ps, body, CTop tid, Some tid))]
  | _ :: r => exports tid r
  end.

Section Eval.
  Variable ae : N -> bool.                  (* static autoescape setting per template *)
  Variable flag : bool.
  Variable dl : list (N * list str).
  Variable tt : list (N * list stmt).       (* templates that can be included / imported *)
  Variable bt : list (N * bstack).          (* context.blocks of this render *)

  Definition on_now (ce : cexp) (rt : bool) : bool :=
    match ce with CTop tid => ae tid | CConst b => b | CVol => rt end.
  Definition rt_enter (a : aexp) : bool := match a with AConst b => b | AFlag => flag end.

  Definition ores := option (str * env * menv).

  Fixpoint eval_e (n : nat) (ce : cexp) (rt : bool) (mu : menv) (k : option callerclo) (sup : option bstack)
           (r : env) (e : expr) {struct n} : option tstr :=
    match n with O => None | S n' =>
      match e with
      | EVar x => Some (lookup r x)
      | ELit s => Some (Plain s)
      | ECat a b =>
          match eval_e n' ce rt mu k sup r a with None => None | Some va =>
          match eval_e n' ce rt mu k sup r b with None => None | Some vb =>
            Some (if on_now ce rt then markup_join [va; vb] else str_join [va; vb])
          end end
      | EFilt f a args =>
          match eval_e n' ce rt mu k sup r a with None => None | Some va =>
          match eval_es n' ce rt mu k sup r args with None => None | Some vs =>
            apply_filter rt f va vs
          end end
      | ECond c a b =>
          match eval_e n' ce rt mu k sup r c with None => None | Some vc =>
            if truthy vc then eval_e n' ce rt mu k sup r a else eval_e n' ce rt mu k sup r b
          end
      | ECall m args =>
          match eval_es n' ce rt mu k sup r args with None => None | Some vs =>
          match lookup_mac mu m with None => None | Some (ps, body, ce', home) =>
          match bind ps vs with None => None | Some pr =>
          let rtb := match home with Some tid => ae tid | None => rt end in
          match eval_ss n' ce' rtb mu None None (pr ++ r) body with None => None | Some (o, _, _) =>
            Some (wrap rt o)
          end end end end
      | ECaller =>
          match k with None => None | Some (CC body ce' frt) =>
          let rtb := match frt with Some b => b | None => rt end in
          match eval_ss n' ce' rtb mu None None r body with None => None | Some (o, _, _) =>
            Some (wrap rt o)
          end end
      | ESuper =>
          match sup with
          | Some ((body, ce') :: rest) =>
              match eval_ss n' ce' rt mu None (Some rest) r body with None => None | Some (o, _, _) =>
                Some (wrap rt o)
              end
          | _ => None
          end
      | EJoin sep items =>
          match eval_es n' ce rt mu k sup r items with None => None | Some vs =>
          match eval_e n' ce rt mu k sup r sep with None => None | Some vsep =>
            Some (join_val rt vsep vs)
          end end
      end
    end
  with eval_es (n : nat) (ce : cexp) (rt : bool) (mu : menv) (k : option callerclo) (sup : option bstack)
           (r : env) (es : list expr) {struct n} : option (list tstr) :=
    match n with O => None | S n' =>
      match es with
      | [] => Some []
      | e :: es' =>
          match eval_e n' ce rt mu k sup r e with None => None | Some v =>
          match eval_es n' ce rt mu k sup r es' with None => None | Some vs => Some (v :: vs)
          end end
      end
    end
  with eval_ss (n : nat) (ce : cexp) (rt : bool) (mu : menv) (k : option callerclo) (sup : option bstack)
           (r : env) (ss : list stmt) {struct n} : ores :=
    match n with O => None | S n' =>
      match ss with
      | [] => Some ([], r, mu)
      | s :: ss' =>
          match eval_s n' ce rt mu k sup r s with None => None | Some (o1, r1, mu1) =>
          match eval_ss n' ce rt mu1 k sup r1 ss' with None => None | Some (o2, r2, mu2) =>
            Some (o1 ++ o2, r2, mu2)
          end end
      end
    end
  with eval_s (n : nat) (ce : cexp) (rt : bool) (mu : menv) (k : option callerclo) (sup : option bstack)
           (r : env) (s : stmt) {struct n} : ores :=
    match n with O => None | S n' =>
      match s with
      | SText t => Some (t, r, mu)
      | SOut e =>
          match eval_e n' ce rt mu k sup r e with None => None | Some v =>
            Some (out_piece (on_now ce rt) v, r, mu)
          end
      | SIf c t f =>
          match eval_e n' ce rt mu k sup r c with None => None | Some vc =>
            if truthy vc then eval_ss n' ce rt mu k sup r t else eval_ss n' ce rt mu k sup r f
          end
      | SFor x l body =>
          match eval_for n' ce rt mu k sup r x (lookup_list dl l) body with None => None | Some o =>
            Some (o, r, mu)
          end
      | SSet x e =>
          match eval_e n' ce rt mu k sup r e with None => None | Some v => Some ([], (x, v) :: r, mu) end
      | SSetBlock x body =>
          match eval_ss n' ce rt mu k sup r body with None => None | Some (o, _, _) =>
            Some ([], (x, wrap rt o) :: r, mu)
          end
      | SSetBlockF x f args body =>
          match eval_ss n' ce rt mu k sup r body with None => None | Some (o, _, _) =>
          match eval_es n' ce rt mu k sup r args with None => None | Some vs =>
          match apply_filter rt f (wrap (on_now ce rt) o) vs with None => None | Some v =>
            Some ([], (x, if rt then esc v else v) :: r, mu)
          end end end
      | SMacro m ps body => Some ([], r, (m, (ps, body, ce, None)) :: mu)
      | SCallBlock m args body =>
          match eval_es n' ce rt mu k sup r args with None => None | Some vs =>
          match lookup_mac mu m with None => None | Some (ps, mbody, ce', home) =>
          match bind ps vs with None => None | Some pr =>
          let rtb := match home with Some tid => ae tid | None => rt end in
          let frt := match home with Some _ => Some rt | None => None end in
          match eval_ss n' ce' rtb mu (Some (CC body ce frt)) None (pr ++ r) mbody with None => None
          | Some (o, _, _) => Some (out_piece (on_now ce rt) (wrap rt o), r, mu)
          end end end end
      | SFilterBlock f args body =>
          match eval_ss n' ce rt mu k sup r body with None => None | Some (o, _, _) =>
          match eval_es n' ce rt mu k sup r args with None => None | Some vs =>
          match apply_filter rt f (wrap (on_now ce rt) o) vs with None => None | Some v =>
            Some (out_piece (on_now ce rt) v, r, mu)
          end end end
      | SAutoescape a body =>
          match eval_ss n' (ce_enter ce a) (rt_enter a) mu k sup r body with None => None
          | Some (o, _, _) => Some (o, r, mu)
          end
      | SInclude tid =>
          match lookup_tpl tt tid with None => None | Some body =>
          match eval_ss n' (CTop tid) (ae tid) [] None None r body with None => None
          | Some (o, _, _) => Some (o, r, mu)
          end end
      | SImport tid =>
          match lookup_tpl tt tid with None => None | Some body => Some ([], r, exports tid body ++ mu) end
      | SBlock name body =>
          match lookup_blk bt name with
          | Some ((b0, ce') :: rest) =>
              match eval_ss n' ce' rt mu None (Some rest) r b0 with None => None
              | Some (o, _, _) => Some (o, r, mu)
              end
          | _ => None
          end
      end
    end
  with eval_for (n : nat) (ce : cexp) (rt : bool) (mu : menv) (k : option callerclo) (sup : option bstack)
           (r : env) (x : N) (items : list str) (body : list stmt) {struct n} : option str :=
    match n with O => None | S n' =>
      match items with
      | [] => Some []
      | it :: items' =>
          match eval_ss n' ce rt mu k sup ((x, Plain it) :: r) body with None => None | Some (o1, _, _) =>
          match eval_for n' ce rt mu k sup r x items' body with None => None | Some o2 => Some (o1 ++ o2)
          end end
      end
    end.

  Definition init_env (d : list (N * str)) : env := map (fun p => (fst p, Plain (snd p))) d.

  (* Template.render of template [main] whose inheritance chain ends in template [base] with body
     [root] (a template without extends is its own base): the base's root render function runs with
     the render context of [main] (runtime flag = main's setting); blocks are taken from bt *)
  Definition render (n : nat) (main base : N) (root : list stmt) (d : list (N * str)) : option str :=
    match eval_ss n (CTop base) (ae main) [] None None (init_env d) root with
    | Some (o, _, _) => Some o
    | None => None
    end.
End Eval.

(* ---------------------------------------------------------------- compile-time facts *)
(* node.find(EvalContextModifier): does the template contain an autoescape block anywhere? *)
Fixpoint has_mod_s (s : stmt) : bool :=
  let fix any (l : list stmt) : bool := match l with [] => false | x :: r => has_mod_s x || any r end in
  match s with
  | SAutoescape _ _ => true
  | SIf _ t f => any t || any f
  | SFor _ _ b | SSetBlock _ b | SSetBlockF _ _ _ b | SMacro _ _ b | SCallBlock _ _ b
  | SFilterBlock _ _ b | SBlock _ b => any b
  | _ => false
  end.
Definition has_mod (t : list stmt) : bool := existsb has_mod_s t.
(* the mode a block function of template tid is compiled with *)
Definition block_ce (tid : N) (t : list stmt) : cexp := if has_mod t then CVol else CTop tid.

(* all block tags of a template body (Node.find_all(Block)), in document order *)
Fixpoint blocks_s (ce : cexp) (s : stmt) : list (N * (list stmt * cexp)) :=
  let fix all (l : list stmt) : list (N * (list stmt * cexp)) :=
    match l with [] => [] | x :: r => blocks_s ce x ++ all r end in
  match s with
  | SBlock nm b => (nm, (b, ce)) :: all b
  | SIf _ t f => all t ++ all f
  | SFor _ _ b | SSetBlock _ b | SSetBlockF _ _ _ b | SMacro _ _ b | SCallBlock _ _ b
  | SFilterBlock _ _ b | SAutoescape _ b => all b
  | _ => []
  end.
Definition blocks_of (tid : N) (whole : list stmt) : list (N * (list stmt * cexp)) :=
  flat_map (blocks_s (block_ce tid whole)) whole.

(* context.blocks for a chain [most derived; ...; base]: per name the stack in chain order *)
Fixpoint stack_of (nm : N) (chain : list (N * list stmt)) : bstack :=
  match chain with
  | [] => []
  | (tid, body) :: r =>
      (fix pick (l : list (N * (list stmt * cexp))) : bstack :=
         match l with [] => [] | (n', b) :: l' => if n' =? nm then [b] else pick l' end)
        (blocks_of tid body) ++ stack_of nm r
  end.
Definition block_table (names : list N) (chain : list (N * list stmt)) : list (N * bstack) :=
  map (fun nm => (nm, stack_of nm chain)) names.

(* ---------------------------------------------------------------- syntactic predicates *)
Definition neutral_filter (f : filt) : bool :=
  match f with FString | FLower | FDefault => true | _ => false end.

Section Preds.
  Variable pf : filt -> bool.
  Variable pt : str -> bool.
  Variable pl : str -> bool.
  Variable pa : aexp -> bool.
  Variable pi : N -> bool.           (* templates that may be included / imported *)

  Fixpoint ok_e (e : expr) : bool :=
    match e with
    | EVar _ => true
    | ELit s => pl s
    | ECat a b => ok_e a && ok_e b
    | EFilt f a args => pf f && ok_e a && forallb ok_e args
    | ECond c a b => ok_e c && ok_e a && ok_e b
    | ECall _ args => forallb ok_e args
    | ECaller => true
    | ESuper => true
    | EJoin sep items => ok_e sep && forallb ok_e items
    end.

  Fixpoint ok_s (s : stmt) : bool :=
    match s with
    | SText t => pt t
    | SOut e => ok_e e
    | SIf c t f => ok_e c && forallb ok_s t && forallb ok_s f
    | SFor _ _ body => forallb ok_s body
    | SSet _ e => ok_e e
    | SSetBlock _ body => forallb ok_s body
    | SSetBlockF _ f args body => pf f && forallb ok_e args && forallb ok_s body
    | SMacro _ _ body => forallb ok_s body
    | SCallBlock _ args body => forallb ok_e args && forallb ok_s body
    | SFilterBlock f args body => pf f && forallb ok_e args && forallb ok_s body
    | SAutoescape a body => pa a && forallb ok_s body
    | SInclude tid => pi tid
    | SImport tid => pi tid
    | SBlock _ body => forallb ok_s body
    end.
  Definition ok_ss (ss : list stmt) : bool := forallb ok_s ss.
End Preds.

Definition pa16 (a : aexp) : bool := match a with AFlag => true | AConst _ => false end.
Definition c16_ok (t : list stmt) : bool :=
  ok_ss neutral_filter amp_free (fun _ => true) pa16 (fun _ => true) t.

Definition pf15 (f : filt) : bool := match f with FSafe => false | _ => true end.
Definition pa15 (a : aexp) : bool := match a with AConst false => false | _ => true end.
(* C15: in addition every included / imported template is itself autoescaped *)
Definition c15_ok (ae : N -> bool) (t : list stmt) : bool :=
  ok_ss pf15 clean (fun _ => true) pa15 ae t.

Definition top_ok (b0 : bool) (t : list stmt) : bool :=
  b0 || forallb (fun s => match s with SText _ => true | SAutoescape _ _ => true | _ => false end) t.
