(* Expression pipeline: primitive operations on the value universe (CPython / MarkupSafe /
   jinja2.runtime behaviour restricted to the modelled types).  Definitions only. *)
From Coq Require Import List NArith ZArith Bool.
Import ListNotations.
From JV Require Import Model.ExprAst.

(* ---- string constants (generated) ---- *)
Definition s_safe : str := [115; 97; 102; 101]%N.
Definition s_escape : str := [101; 115; 99; 97; 112; 101]%N.
Definition s_e : str := [101]%N.
Definition s_upper : str := [117; 112; 112; 101; 114]%N.
Definition s_lower : str := [108; 111; 119; 101; 114]%N.
Definition s_length : str := [108; 101; 110; 103; 116; 104]%N.
Definition s_count : str := [99; 111; 117; 110; 116]%N.
Definition s_default : str := [100; 101; 102; 97; 117; 108; 116]%N.
Definition s_d : str := [100]%N.
Definition s_abs : str := [97; 98; 115]%N.
Definition s_string : str := [115; 116; 114; 105; 110; 103]%N.
Definition s_list : str := [108; 105; 115; 116]%N.
Definition s_join : str := [106; 111; 105; 110]%N.
Definition s_map : str := [109; 97; 112]%N.
Definition s_defined : str := [100; 101; 102; 105; 110; 101; 100]%N.
Definition s_undefined : str := [117; 110; 100; 101; 102; 105; 110; 101; 100]%N.
Definition s_none : str := [110; 111; 110; 101]%N.
Definition s_odd : str := [111; 100; 100]%N.
Definition s_even : str := [101; 118; 101; 110]%N.
Definition s_divisibleby : str := [100; 105; 118; 105; 115; 105; 98; 108; 101; 98; 121]%N.
Definition s_number : str := [110; 117; 109; 98; 101; 114]%N.
Definition s_integer : str := [105; 110; 116; 101; 103; 101; 114]%N.
Definition s_boolean : str := [98; 111; 111; 108; 101; 97; 110]%N.
Definition s_mapping : str := [109; 97; 112; 112; 105; 110; 103]%N.
Definition s_sequence : str := [115; 101; 113; 117; 101; 110; 99; 101]%N.
Definition s_callable : str := [99; 97; 108; 108; 97; 98; 108; 101]%N.
Definition s_eq : str := [101; 113]%N.
Definition s_ne : str := [110; 101]%N.
Definition s_lt : str := [108; 116]%N.
Definition s_gt : str := [103; 116]%N.
Definition s_le : str := [108; 101]%N.
Definition s_ge : str := [103; 101]%N.
Definition s_in : str := [105; 110]%N.
Definition s_true : str := [116; 114; 117; 101]%N.
Definition s_false : str := [102; 97; 108; 115; 101]%N.
Definition s_True : str := [84; 114; 117; 101]%N.
Definition s_False : str := [70; 97; 108; 115; 101]%N.
Definition s_None : str := [78; 111; 110; 101]%N.
Definition s_Undefined : str := [85; 110; 100; 101; 102; 105; 110; 101; 100]%N.
Definition s_amp : str := [38; 97; 109; 112; 59]%N.
Definition s_ltE : str := [38; 108; 116; 59]%N.
Definition s_gtE : str := [38; 103; 116; 59]%N.
Definition s_apos : str := [38; 35; 51; 57; 59]%N.
Definition s_quot : str := [38; 35; 51; 52; 59]%N.
Definition s_MarkupOpen : str := [77; 97; 114; 107; 117; 112; 40]%N.   (* "Markup(" *)
Definition s_commasp : str := [44; 32]%N.
Definition s_colonsp : str := [58; 32]%N.

(* oracles: behaviour that is outside the model *)
Record oracles := {
  builtin_attr : value -> str -> option value;   (* attributes of non-probe values (methods ...) *)
  call_fun : N -> list value -> list (str * value) -> res value;   (* opaque callables *)
}.

(* ---- classification ---- *)
Definition num_of (v : value) : option Z :=
  match v with VInt z => Some z | VBool b => Some (if b then 1 else 0)%Z | _ => None end.
Definition is_undef (v : value) : bool := match v with VUndef _ => true | _ => false end.
Definition is_float (v : value) : bool := match v with VFloat _ _ => true | _ => false end.
Definition is_mk (v : value) : bool := match v with VMk _ => true | _ => false end.
Definition strlike (v : value) : option str := match v with VStr s | VMk s => Some s | _ => None end.

Definition truth (v : value) : bool :=
  match v with
  | VInt z => negb (Z.eqb z 0)
  | VBool b => b
  | VNone => false
  | VStr s | VMk s => match s with [] => false | _ => true end
  | VList l | VTuple l => match l with [] => false | _ => true end
  | VDict kv => match kv with [] => false | _ => true end
  | VObj _ _ _ => true
  | VFun _ => true
  | VUndef _ => false
  | VFloat n _ => negb (Z.eqb n 0)
  end.

(* ---- text ---- *)
Fixpoint digits_go (fuel : nat) (n : N) (acc : str) : str :=
  match fuel with
  | O => acc
  | S f =>
      let d := (48 + N.modulo n 10)%N in
      let q := N.div n 10 in
      if N.eqb q 0 then d :: acc else digits_go f q (d :: acc)
  end.
Definition digits (n : N) : str := digits_go (S (N.size_nat n)) n [].

(* CPython refuses int -> str beyond 4300 digits; stay well below *)
Definition int_str (z : Z) : option str :=
  if Z.leb 14000 (Z.log2 (Z.abs z)) then None else
  Some match z with
       | Z0 => [48%N]
       | Zpos p => digits (Npos p)
       | Zneg p => 45%N :: digits (Npos p)
       end.

Definition escape_char (c : N) : str :=
  if N.eqb c 38 then s_amp else if N.eqb c 60 then s_ltE else if N.eqb c 62 then s_gtE
  else if N.eqb c 39 then s_apos else if N.eqb c 34 then s_quot else [c].
Definition escape_str (s : str) : str := flat_map escape_char s.

Definition safe_char (c : N) : bool :=
  N.leb 32 c && N.leb c 126 && negb (N.eqb c 39) && negb (N.eqb c 92).
Definition repr_str (s : str) : option str :=
  if forallb safe_char s then Some (39%N :: s ++ [39%N]) else None.

Fixpoint join_str (sep : str) (xs : list str) : str :=
  match xs with
  | [] => []
  | x :: r => match r with [] => x | _ => x ++ sep ++ join_str sep r end
  end.

Fixpoint sequence_opt {A} (xs : list (option A)) : option (list A) :=
  match xs with
  | [] => Some []
  | Some x :: r => match sequence_opt r with Some ys => Some (x :: ys) | None => None end
  | None :: _ => None
  end.

Fixpoint repr (v : value) : option str :=
  match v with
  | VInt z => int_str z
  | VBool b => Some (if b then s_True else s_False)
  | VNone => Some s_None
  | VStr s => repr_str s
  | VMk s => match repr_str s with Some r => Some (s_MarkupOpen ++ r ++ [41%N]) | None => None end
  | VList l =>
      match sequence_opt ((fix go (l : list value) := match l with [] => [] | x :: r => repr x :: go r end) l) with
      | Some ss => Some (91%N :: join_str s_commasp ss ++ [93%N])
      | None => None
      end
  | VTuple l =>
      match sequence_opt ((fix go (l : list value) := match l with [] => [] | x :: r => repr x :: go r end) l) with
      | Some [s1] => Some (40%N :: s1 ++ [44%N; 41%N])
      | Some ss => Some (40%N :: join_str s_commasp ss ++ [41%N])
      | None => None
      end
  | VDict kv =>
      match sequence_opt ((fix go (l : list (value * value)) :=
                             match l with
                             | [] => []
                             | (k, x) :: r =>
                                 match repr k, repr x with
                                 | Some a, Some b => Some (a ++ s_colonsp ++ b)
                                 | _, _ => None
                                 end :: go r
                             end) kv) with
      | Some ss => Some (123%N :: join_str s_commasp ss ++ [125%N])
      | None => None
      end
  | VObj id _ _ => Some ([60%N; 111%N] ++ digits id ++ [62%N])      (* "<oN>": the probe class prints so *)
  | VFun id => Some ([60%N; 102%N] ++ digits id ++ [62%N])          (* "<fN>" *)
  | VUndef _ => Some s_Undefined
  | VFloat _ _ => None
  end.

(* str(v) *)
Definition to_str (v : value) : option str :=
  match v with
  | VStr s | VMk s => Some s
  | VUndef _ => Some []
  | _ => repr v
  end.

Definition opq {A} (o : option A) : res A := match o with Some a => Ok a | None => Err EOpaque end.

(* markupsafe.escape *)
Definition escape (v : value) : res value :=
  match v with
  | VMk s => Ok (VMk s)
  | _ => match to_str v with Some s => Ok (VMk (escape_str s)) | None => Err EOpaque end
  end.

(* markupsafe.soft_str *)
Definition soft_str (v : value) : res value :=
  match v with
  | VStr s => Ok (VStr s)
  | VMk s => Ok (VMk s)
  | _ => match to_str v with Some s => Ok (VStr s) | None => Err EOpaque end
  end.

Fixpoint map_res {A B} (f : A -> res B) (xs : list A) : res (list B) :=
  match xs with
  | [] => Ok []
  | x :: r => match f x with
              | Ok y => match map_res f r with Ok ys => Ok (y :: ys) | Err e => Err e end
              | Err e => Err e
              end
  end.

(* runtime.str_join: concat(map(str, seq)) *)
Definition str_join (vs : list value) : res value :=
  match map_res (fun v => opq (to_str v)) vs with
  | Ok ss => Ok (VStr (concat ss))
  | Err e => Err e
  end.

(* runtime.markup_join: plain concatenation of soft_str'd operands until one of them is
   Markup; then Markup("").join(all) which escapes every operand that is not Markup *)
Definition esc_part (v : value) : str :=
  match v with VMk s => s | VStr s => escape_str s | _ => [] end.
Definition plain_part (v : value) : str :=
  match v with VMk s | VStr s => s | _ => [] end.
Definition markup_join (vs : list value) : res value :=
  match map_res soft_str vs with
  | Ok ss => if existsb is_mk ss then Ok (VMk (concat (map esc_part ss)))
             else Ok (VStr (concat (map plain_part ss)))
  | Err e => Err e
  end.

(* ---- equality (Python ==) ---- *)
Fixpoint veq (a b : value) : bool :=
  match a with
  | VInt x =>
      match b with VInt y => Z.eqb x y | VBool c => Z.eqb x (if c then 1 else 0)
              | VFloat n d => Z.eqb n (x * d) | _ => false end
  | VBool c =>
      let x := (if c then 1 else 0)%Z in
      match b with VInt y => Z.eqb x y | VBool c' => Bool.eqb c c'
              | VFloat n d => Z.eqb n (x * d) | _ => false end
  | VNone => match b with VNone => true | _ => false end
  | VStr s | VMk s => match b with VStr t | VMk t => str_eqb s t | _ => false end
  | VList l =>
      match b with
      | VList m => (fix go (l m : list value) : bool :=
                      match l, m with
                      | [], [] => true
                      | x :: l', y :: m' => veq x y && go l' m'
                      | _, _ => false
                      end) l m
      | _ => false
      end
  | VTuple l =>
      match b with
      | VTuple m => (fix go (l m : list value) : bool :=
                       match l, m with
                       | [], [] => true
                       | x :: l', y :: m' => veq x y && go l' m'
                       | _, _ => false
                       end) l m
      | _ => false
      end
  | VDict kv =>
      match b with
      | VDict kv2 =>
          Nat.eqb (length kv) (length kv2) &&
          (fix all (l : list (value * value)) : bool :=
             match l with
             | [] => true
             | (k, x) :: r =>
                 (fix find (m : list (value * value)) : bool :=
                    match m with
                    | [] => false
                    | (k2, y) :: m' => (veq k k2 && veq x y) || find m'
                    end) kv2 && all r
             end) kv
      | _ => false
      end
  | VObj i _ _ => match b with VObj j _ _ => N.eqb i j | _ => false end
  | VFun i => match b with VFun j => N.eqb i j | _ => false end
  | VUndef _ => match b with VUndef _ => true | _ => false end
  | VFloat n d =>
      match b with
      | VFloat n2 d2 => Z.eqb (n * d2) (n2 * d)
      | VInt y => Z.eqb n (y * d)
      | VBool c => Z.eqb n ((if c then 1 else 0) * d)
      | _ => false
      end
  end.

Fixpoint hashable (v : value) : bool :=
  match v with
  | VList _ | VDict _ => false
  | VTuple l => (fix go (l : list value) := match l with [] => true | x :: r => hashable x && go r end) l
  | _ => true
  end.

Fixpoint assoc_v (k : value) (kv : list (value * value)) : option value :=
  match kv with
  | [] => None
  | (k2, x) :: r => if veq k2 k then Some x else assoc_v k r
  end.
Fixpoint assoc_s {A} (k : str) (kv : list (str * A)) : option A :=
  match kv with
  | [] => None
  | (k2, x) :: r => if str_eqb k2 k then Some x else assoc_s k r
  end.

(* dict(...) from pairs: a later equal key overwrites the value in place *)
Fixpoint dict_set (k x : value) (kv : list (value * value)) : list (value * value) :=
  match kv with
  | [] => [(k, x)]
  | (k2, y) :: r => if veq k2 k then (k2, x) :: r else (k2, y) :: dict_set k x r
  end.
Fixpoint mk_dict (acc : list (value * value)) (ps : list (value * value)) : res (list (value * value)) :=
  match ps with
  | [] => Ok acc
  | (k, x) :: r => if hashable k then mk_dict (dict_set k x acc) r else Err EType
  end.

(* ---- sequences ---- *)
Definition nth_z {A} (l : list A) (i : Z) : option A :=
  let n := Z.of_nat (length l) in
  let j := if Z.ltb i 0 then (i + n)%Z else i in
  if Z.ltb j 0 || Z.leb n j then None else nth_error l (Z.to_nat j).

Definition rep_limit : Z := 4096.
Definition seq_repeat {A} (l : list A) (n : Z) : option (list A) :=
  if Z.leb n 0 then Some []
  else if Z.ltb rep_limit (Z.of_nat (length l) * n) then None
  else Some (concat (repeat l (Z.to_nat n))).

(* slice.indices + extraction, CPython semantics *)
Definition slice_list {A} (l : list A) (lo hi : option Z) (step : Z) : list A :=
  let n := Z.of_nat (length l) in
  if Z.ltb 0 step then
    let clamp := fun i => let j := if Z.ltb i 0 then (i + n)%Z else i in
                          if Z.ltb j 0 then 0%Z else if Z.ltb n j then n else j in
    let start := match lo with None => 0%Z | Some i => clamp i end in
    let stop := match hi with None => n | Some i => clamp i end in
    let count := if Z.ltb start stop then ((stop - start + step - 1) / step)%Z else 0%Z in
    flat_map (fun k => match nth_error l (Z.to_nat (start + Z.of_nat k * step)) with Some x => [x] | None => [] end)
             (seq 0 (Z.to_nat count))
  else
    let clamp := fun i => let j := if Z.ltb i 0 then (i + n)%Z else i in
                          if Z.ltb j 0 then (-1)%Z else if Z.leb n j then (n - 1)%Z else j in
    let start := match lo with None => (n - 1)%Z | Some i => clamp i end in
    let stop := match hi with None => (-1)%Z | Some i => clamp i end in
    let count := if Z.ltb stop start then ((start - stop - step - 1) / (- step))%Z else 0%Z in
    flat_map (fun k => match nth_error l (Z.to_nat (start + Z.of_nat k * step)) with Some x => [x] | None => [] end)
             (seq 0 (Z.to_nat count)).

(* obj[lo:hi:step] (the generated code subscripts directly, bypassing environment.getitem) *)
Definition slice_index (o : option value) : res (option Z) :=
  match o with
  | None => Ok None
  | Some VNone => Ok None
  | Some v => match num_of v with
              | Some z => Ok (Some z)
              | None => if is_undef v || is_float v then Err EOpaque else Err EType
              end
  end.
Definition py_slice (v : value) (lo hi step : option value) : res value :=
  (* the slice object is built without looking at its parts; an undefined / mapping / probe
     object fails (or misses) before any index is interpreted *)
  match v with
  | VUndef _ => Err EUndef
  | VDict _ | VObj _ _ _ => Err EKey
  | _ =>
  match v with
  | VStr _ | VMk _ | VList _ | VTuple _ =>
      (* PySlice_Unpack: the step is converted and checked for zero first, then start, then stop *)
      match slice_index step with
      | Err e => Err e
      | Ok c =>
          let st := match c with None => 1%Z | Some z => z end in
          if Z.eqb st 0 then Err EValue else
          match slice_index lo with
          | Err e => Err e
          | Ok a =>
              match slice_index hi with
              | Err e => Err e
              | Ok b =>
                  match v with
                  | VStr s => Ok (VStr (slice_list s a b st))
                  | VMk s => Ok (VMk (slice_list s a b st))
                  | VList l => Ok (VList (slice_list l a b st))
                  | VTuple l => Ok (VTuple (slice_list l a b st))
                  | _ => Err EType
                  end
              end
          end
      end
  | VFloat _ _ => Err EOpaque
  | _ => Err EType          (* not subscriptable, whatever the bounds are *)
  end
  end.

(* ---- arithmetic ---- *)
Definition add_str (a b : value) : option value :=
  match a, b with
  | VStr s, VStr t => Some (VStr (s ++ t))
  | VMk s, VStr t => Some (VMk (s ++ escape_str t))
  | VStr s, VMk t => Some (VMk (escape_str s ++ t))
  | VMk s, VMk t => Some (VMk (s ++ t))
  | _, _ => None
  end.

Definition mul_seq (a : value) (n : Z) : res value :=
  match a with
  | VStr s => match seq_repeat s n with Some r => Ok (VStr r) | None => Err EOpaque end
  | VMk s => match seq_repeat s n with Some r => Ok (VMk r) | None => Err EOpaque end
  | VList l => match seq_repeat l n with Some r => Ok (VList r) | None => Err EOpaque end
  | VTuple l => match seq_repeat l n with Some r => Ok (VTuple r) | None => Err EOpaque end
  | _ => Err EType
  end.

Definition prim_bin (op : binop) (a b : value) : res value :=
  match op, strlike a with
  | Mod, Some _ => Err EOpaque           (* printf-style formatting *)
  | _, _ =>
  if is_float a || is_float b then Err EOpaque
  else if (match op, a with Mul, VMk _ => is_undef b | _, _ => false end) then Err EType
       (* Markup.__mul__ hands its argument straight to str.__mul__: an undefined count is
          "cannot be interpreted as an integer", not an UndefinedError *)
  else if is_undef a || is_undef b then Err EUndef
  else
    match num_of a, num_of b with
    | Some x, Some y =>
        match op with
        | Add => Ok (VInt (x + y))
        | Sub => Ok (VInt (x - y))
        | Mul => Ok (VInt (x * y))
        | Div => if Z.eqb y 0 then Err EZero else Ok (VFloat x y)
        | FloorDiv => if Z.eqb y 0 then Err EZero else Ok (VInt (x / y))
        | Mod => if Z.eqb y 0 then Err EZero else Ok (VInt (x mod y))
        | Pow => if Z.ltb y 0 then (if Z.eqb x 0 then Err EZero else Err EOpaque)
                 else if Z.ltb 64 y then Err EOpaque else Ok (VInt (x ^ y))
        end
    | None, Some y => match op with Mul => mul_seq a y | _ => Err EType end
    | Some x, None => match op with Mul => mul_seq b x | _ => Err EType end
    | None, None =>
        match op with
        | Add =>
            match add_str a b with
            | Some v => Ok v
            | None =>
                match a, b with
                | VList l, VList m => Ok (VList (l ++ m))
                | VTuple l, VTuple m => Ok (VTuple (l ++ m))
                | _, _ => Err EType
                end
            end
        | _ => Err EType
        end
    end
  end.

Definition prim_un (op : unop) (a : value) : res value :=
  match a with
  | VFloat n d => if Z.eqb n 0 then Err EOpaque   (* the sign of a float zero is not representable as n/d *)
                  else Ok (match op with Neg => VFloat (- n) d | Pos => VFloat n d end)
  | VUndef _ => Err EUndef
  | _ => match num_of a with
         | Some x => Ok (VInt (match op with Neg => (- x)%Z | Pos => x end))
         | None => Err EType
         end
  end.

(* ---- comparisons ---- *)
Fixpoint str_ltb (a b : str) : bool :=
  match a, b with
  | _, [] => false
  | [], _ :: _ => true
  | x :: a', y :: b' => N.ltb x y || (N.eqb x y && str_ltb a' b')
  end.

Fixpoint is_prefix (a b : str) : bool :=
  match a, b with
  | [], _ => true
  | x :: a', y :: b' => N.eqb x y && is_prefix a' b'
  | _ :: _, [] => false
  end.
Fixpoint substr (a b : str) : bool :=
  is_prefix a b || match b with [] => false | _ :: b' => substr a b' end.

Definition order (op : cmpop) (lt eq : bool) : bool :=
  match op with
  | CLt => lt | CLe => lt || eq | CGt => negb (lt || eq) | CGe => negb lt
  | _ => false
  end.

Definition prim_contains (a b : value) : res bool :=
  match b with
  | VList l | VTuple l => Ok (existsb (fun x => veq x a) l)
  | VStr t | VMk t => match strlike a with Some s => Ok (substr s t) | None => Err EType end
  | VDict kv => if hashable a then Ok (match assoc_v a kv with Some _ => true | None => false end) else Err EType
  | VUndef _ => Ok false
  | VObj _ _ _ => Err EOpaque
  | _ => Err EType
  end.

Definition prim_cmp (op : cmpop) (a b : value) : res value :=
  if is_float a || is_float b then Err EOpaque else
  match op with
  | CEq => Ok (VBool (veq a b))
  | CNe => Ok (VBool (negb (veq a b)))
  | CIn => match prim_contains a b with Ok r => Ok (VBool r) | Err e => Err e end
  | CNotIn => match prim_contains a b with Ok r => Ok (VBool (negb r)) | Err e => Err e end
  | _ =>
      if is_undef a || is_undef b then Err EUndef else
      match num_of a, num_of b with
      | Some x, Some y => Ok (VBool (order op (Z.ltb x y) (Z.eqb x y)))
      | _, _ =>
          match strlike a, strlike b with
          | Some s, Some t => Ok (VBool (order op (str_ltb s t) (str_eqb s t)))
          | _, _ =>
              match a, b with
              | VList _, VList _ | VTuple _, VTuple _ => Err EOpaque
              | _, _ => Err EType
              end
          end
      end
  end.

(* ---- attribute and item access at the Python level ---- *)
Inductive pyexn := XAttr | XType | XLookup | XUndef.
Inductive pyres := POk (v : value) | PRaise (x : pyexn).

(* getattr(obj, name) *)
Definition py_getattr (O : oracles) (v : value) (name : str) : pyres :=
  match v with
  | VObj _ attrs _ => match assoc_s name attrs with Some x => POk x | None => PRaise XAttr end
  | VUndef _ => PRaise XUndef
  | _ => match builtin_attr O v name with Some x => POk x | None => PRaise XAttr end
  end.

(* obj[key] *)
Definition py_getitem (v k : value) : pyres :=
  match v with
  | VList l =>
      match num_of k with
      | Some i => match nth_z l i with Some x => POk x | None => PRaise XLookup end
      | None => PRaise XType
      end
  | VTuple l =>
      match num_of k with
      | Some i => match nth_z l i with Some x => POk x | None => PRaise XLookup end
      | None => PRaise XType
      end
  | VStr s =>
      match num_of k with
      | Some i => match nth_z s i with Some c => POk (VStr [c]) | None => PRaise XLookup end
      | None => PRaise XType
      end
  | VMk s =>
      match num_of k with
      | Some i => match nth_z s i with Some c => POk (VMk [c]) | None => PRaise XLookup end
      | None => PRaise XType
      end
  | VDict kv =>
      if hashable k then match assoc_v k kv with Some x => POk x | None => PRaise XLookup end
      else PRaise XType
  | VObj _ _ items => match assoc_v k items with Some x => POk x | None => PRaise XLookup end
  | VUndef _ => PRaise XUndef
  | _ => PRaise XType
  end.

Definition starts_underscore (s : str) : bool :=
  match s with c :: _ => N.eqb c 95 | [] => false end.

(* ---- filters and tests (the modelled part of the tables) ---- *)
Definition ascii_upper (c : N) : N := if N.leb 97 c && N.leb c 122 then (c - 32)%N else c.
Definition ascii_lower (c : N) : N := if N.leb 65 c && N.leb c 90 then (c + 32)%N else c.
Definition all_ascii (s : str) : bool := forallb (fun c => N.ltb c 128) s.

Definition items_of (v : value) : res (list value) :=
  match v with
  | VList l | VTuple l => Ok l
  | VStr s | VMk s => Ok (map (fun c => VStr [c]) s)
  | VDict kv => Ok (map fst kv)
  | VUndef _ => Ok []
  | VFloat _ _ => Err EOpaque
  | VObj _ _ _ => Err EOpaque
  | _ => Err EType
  end.

Definition do_join (ae : bool) (v d : value) : res value :=
  match items_of v with
  | Err e => Err e
  | Ok items =>
      if negb ae then
        match to_str d, map_res (fun i => opq (to_str i)) items with
        | Some ds, Ok ss => Ok (VStr (join_str ds ss))
        | _, _ => Err EOpaque
        end
      else
        match d with
        | VMk ds =>
            match map_res soft_str items with
            | Ok ss => Ok (VMk (join_str ds (map esc_part ss)))
            | Err e => Err e
            end
        | _ =>
            if existsb is_mk items then
              match escape d, map_res (fun i => if is_mk i then Ok i else
                                                 match to_str i with Some s => Ok (VStr s) | None => Err EOpaque end) items with
              | Ok (VMk ds), Ok ss => Ok (VMk (join_str ds (map esc_part ss)))
              | _, _ => Err EOpaque
              end
            else
              match to_str d, map_res (fun i => opq (to_str i)) items with
              | Some ds, Ok ss => Ok (VStr (join_str ds ss))
              | _, _ => Err EOpaque
              end
        end
  end.

Definition apply_filter (ae : bool) (name : str) (v : value) (args : list value) : res value :=
  if str_eqb name s_safe then
    match args with [] => match to_str v with Some s => Ok (VMk s) | None => Err EOpaque end | _ => Err EType end
  else if str_eqb name s_escape || str_eqb name s_e then
    match args with [] => escape v | _ => Err EType end
  else if str_eqb name s_upper || str_eqb name s_lower then
    match args with
    | [] =>
        match soft_str v with
        | Ok (VMk s) => if all_ascii s then Ok (VMk (map (if str_eqb name s_upper then ascii_upper else ascii_lower) s)) else Err EOpaque
        | Ok (VStr s) => if all_ascii s then Ok (VStr (map (if str_eqb name s_upper then ascii_upper else ascii_lower) s)) else Err EOpaque
        | Ok _ => Err EOpaque
        | Err e => Err e
        end
    | _ => Err EType
    end
  else if str_eqb name s_length || str_eqb name s_count then
    match args with
    | [] =>
        match v with
        | VStr s | VMk s => Ok (VInt (Z.of_nat (length s)))
        | VList l | VTuple l => Ok (VInt (Z.of_nat (length l)))
        | VDict kv => Ok (VInt (Z.of_nat (length kv)))
        | VUndef _ => Ok (VInt 0)
        | _ => Err EType
        end
    | _ => Err EType
    end
  else if str_eqb name s_default || str_eqb name s_d then
    match args with
    | [] => Ok (if is_undef v then VStr [] else v)
    | [x] => Ok (if is_undef v then x else v)
    | [x; b] => Ok (if is_undef v || (truth b && negb (truth v)) then x else v)
    | _ => Err EType
    end
  else if str_eqb name s_abs then
    match args with
    | [] => match v with
            | VFloat _ _ => Err EOpaque
            | _ => match num_of v with Some z => Ok (VInt (Z.abs z)) | None => Err EType end
            end
    | _ => Err EType
    end
  else if str_eqb name s_string then
    match args with [] => soft_str v | _ => Err EType end
  else if str_eqb name s_list then
    match args with
    | [] => match items_of v with Ok l => Ok (VList l) | Err e => Err e end
    | _ => Err EType
    end
  else if str_eqb name s_join then
    match args with
    | [] => do_join ae v (VStr [])
    | [d] => do_join ae v d
    | _ => Err EOpaque
    end
  else if str_eqb name s_map then Err EOpaque
  else Err ENoFilter.

(* how a filter receives its environment (decides whether it can be folded) *)
Inductive fkind := FPlain | FEvalCtx | FContext.
Definition filter_kind (name : str) : option fkind :=
  if str_eqb name s_join || str_eqb name s_list then Some FEvalCtx   (* async_variant wrappers receive the eval context *)
  else if str_eqb name s_map then Some FContext
  else if str_eqb name s_safe || str_eqb name s_escape || str_eqb name s_e || str_eqb name s_upper
          || str_eqb name s_lower || str_eqb name s_length || str_eqb name s_count || str_eqb name s_default
          || str_eqb name s_d || str_eqb name s_abs || str_eqb name s_string
  then Some FPlain else None.
(* filters registered with @async_variant *)
Definition filter_async_variant (name : str) : bool :=
  str_eqb name s_join || str_eqb name s_list || str_eqb name s_map.

Definition noargs (args : list value) (r : res value) : res value :=
  match args with [] => r | _ => Err EType end.

Definition apply_test (name : str) (v : value) (args : list value) : res value :=
  if str_eqb name s_defined then noargs args (Ok (VBool (negb (is_undef v))))
  else if str_eqb name s_undefined then noargs args (Ok (VBool (is_undef v)))
  else if str_eqb name s_none then noargs args (Ok (VBool match v with VNone => true | _ => false end))
  else if str_eqb name s_boolean then noargs args (Ok (VBool match v with VBool _ => true | _ => false end))
  else if str_eqb name s_true then noargs args (Ok (VBool match v with VBool true => true | _ => false end))
  else if str_eqb name s_false then noargs args (Ok (VBool match v with VBool false => true | _ => false end))
  else if str_eqb name s_string then noargs args (Ok (VBool match v with VStr _ | VMk _ => true | _ => false end))
  else if str_eqb name s_number then
    noargs args (Ok (VBool match v with VInt _ | VBool _ | VFloat _ _ => true | _ => false end))
  else if str_eqb name s_integer then noargs args (Ok (VBool match v with VInt _ => true | _ => false end))
  else if str_eqb name s_mapping then noargs args (Ok (VBool match v with VDict _ => true | _ => false end))
  else if str_eqb name s_sequence then
    noargs args (Ok (VBool match v with VStr _ | VMk _ | VList _ | VTuple _ | VDict _ | VUndef _ => true | _ => false end))
  else if str_eqb name s_callable then
    noargs args (Ok (VBool match v with VFun _ | VUndef _ => true | _ => false end))
  else if str_eqb name s_odd || str_eqb name s_even then
    noargs args
      match v with
      | VUndef _ => Err EUndef
      | _ => match num_of v with
             | Some z => Ok (VBool (Z.eqb (z mod 2) (if str_eqb name s_odd then 1 else 0)))
             | None => match v with VStr _ | VMk _ | VFloat _ _ => Err EOpaque | _ => Err EType end
             end
      end
  else if str_eqb name s_divisibleby then
    match args with
    | [n] =>
        match num_of v, num_of n with
        | Some x, Some y => if Z.eqb y 0 then Err EZero else Ok (VBool (Z.eqb (x mod y) 0))
        | _, _ => Err EOpaque
        end
    | _ => Err EType
    end
  else if str_eqb name s_eq then match args with [x] => prim_cmp CEq v x | _ => Err EType end
  else if str_eqb name s_ne then match args with [x] => prim_cmp CNe v x | _ => Err EType end
  else if str_eqb name s_lt then match args with [x] => prim_cmp CLt v x | _ => Err EType end
  else if str_eqb name s_gt then match args with [x] => prim_cmp CGt v x | _ => Err EType end
  else if str_eqb name s_le then match args with [x] => prim_cmp CLe v x | _ => Err EType end
  else if str_eqb name s_ge then match args with [x] => prim_cmp CGe v x | _ => Err EType end
  else if str_eqb name s_in then match args with [x] => prim_cmp CIn v x | _ => Err EType end
  else Err ENoFilter.

Definition test_known (name : str) : bool :=
  match apply_test name VNone [] with Err ENoFilter => false | _ => true end.

(* values a Const node may carry after folding (compiler.has_safe_repr) *)
Fixpoint safe_repr (v : value) : bool :=
  match v with
  | VInt _ | VBool _ | VNone | VStr _ | VMk _ | VFloat _ _ => true
  | VList l | VTuple l => (fix go (l : list value) := match l with [] => true | x :: r => safe_repr x && go r end) l
  | VDict kv => (fix go (l : list (value * value)) :=
                   match l with [] => true | (k, x) :: r => safe_repr k && safe_repr x && go r end) kv
  | VObj _ _ _ | VFun _ | VUndef _ => false
  end.
