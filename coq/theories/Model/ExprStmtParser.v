(* M — jinja2.parser.Parser at STATEMENT level (C01): subparse / parse_statement /
   parse_statements with end tokens, and the tags for, if/elif/else, set (inline and block, with
   filter), with, autoescape, block (scoped / required), extends, include, import, from-import,
   macro (parse_signature), call block, filter block, print; parse_assign_target, parse_tuple in
   its statement uses, TokenStream.expect / skip_if / look with end-of-file behaviour.
   Expression positions reuse Model/ExprParser.v.  Definitions only.

   The token stream the lexer (+ wrap) hands to the parser is first cut into SEGMENTS (data,
   {{ ... }}, {% ... %}); [segments] fails exactly on streams that are not of that shape, which is
   where the real subparse hits `raise AssertionError("internal parsing error")`. *)
From Coq Require Import List NArith ZArith Bool Arith.
Import ListNotations.
From JV Require Import Model.ExprAst Model.ExprParser.

Definition ltok := (tok * nat)%type.                      (* token inside a tag, with its line *)

Inductive stok := SData (s : str) | SVarBegin | SVarEnd | SBlockBegin | SBlockEnd | STok (t : tok).
Definition lstok := (stok * nat)%type.

Inductive seg :=
| GData (s : str) (l : nat)
| GVar (ts : list ltok) (endl : option nat)               (* endl: line of }} ; None = end of file *)
| GBlock (ts : list ltok) (endl : option nat).

Definition close_seg (b : bool) (toks : list ltok) (endl : option nat) : seg :=
  if b then GBlock toks endl else GVar toks endl.

Fixpoint segs_go (ts : list lstok) (cur : option (bool * list ltok)) (acc : list seg) : option (list seg) :=
  match ts with
  | [] => match cur with
          | None => Some (rev acc)
          | Some (b, toks) => Some (rev (close_seg b (rev toks) None :: acc))
          end
  | (t, l) :: r =>
      match cur with
      | None =>
          match t with
          | SData s => segs_go r None (GData s l :: acc)
          | SVarBegin => segs_go r (Some (false, [])) acc
          | SBlockBegin => segs_go r (Some (true, [])) acc
          | _ => None
          end
      | Some (b, toks) =>
          match t with
          | STok k => segs_go r (Some (b, (k, l) :: toks)) acc
          | SVarEnd => if b then None else segs_go r None (GVar (rev toks) (Some l) :: acc)
          | SBlockEnd => if b then segs_go r None (GBlock (rev toks) (Some l) :: acc) else None
          | _ => None
          end
      end
  end.
Definition segments (ts : list lstok) : option (list seg) := segs_go ts None [].
(* the shape invariant of streams emitted by lexer + wrap *)
Definition wf_stream (ts : list lstok) : bool := match segments ts with Some _ => true | None => false end.
(* TokenStream: the eof token carries the line of the last token (1 for an empty stream) *)
Definition eof_line (ts : list lstok) : nat := last (map snd ts) 1.

(* ---- syntax ---- *)
Inductive target := TgName (x : str) | TgNS (x a : str) | TgTuple (ts : list target).
Inductive outitem := OData (s : str) | OExpr (e : expr).
Definition fchain := list (str * list expr).              (* Filter(Filter(None, f, ..), g, ..) *)

Inductive stmt :=
| SOutput (items : list outitem)
| SFor (tg : target) (iter : expr) (body else_ : list stmt) (test : option expr) (recursive : bool)
| SIf (test : expr) (body : list stmt) (elifs : list (expr * list stmt)) (else_ : list stmt)
| SAssign (tg : target) (e : expr)
| SAssignBlock (tg : target) (f : fchain) (body : list stmt)
| SWith (tgs : list target) (vals : list expr) (body : list stmt)
| SAutoescape (e : expr) (body : list stmt)
| SBlock (name : str) (scoped required : bool) (body : list stmt)
| SExtends (e : expr)
| SInclude (e : expr) (ignore_missing with_context : bool)
| SImport (e : expr) (tgt : str) (with_context : bool)
| SFromImport (e : expr) (names : list (str * option str)) (with_context : bool)
| SMacro (name : str) (args : list str) (defaults : list expr) (body : list stmt)
| SCallBlock (args : list str) (defaults : list expr) (call : expr) (body : list stmt)
| SFilterBlock (f : fchain) (body : list stmt).

Inductive sres (A : Type) :=
| SOk (a : A)
| SSyntaxErr (l : nat)       (* TemplateSyntaxError (TemplateAssertionError included) at line l *)
| SUnsup                     (* expression syntax outside the modelled AST *)
| SFuelStmt                  (* statement-level fuel (segments) exhausted *)
| SFuelTag                   (* the fuel of a loop inside one tag exhausted *)
| SFuelExpr                  (* the expression parser ran out of its default fuel *)
| SInternal (tag : nat).     (* AssertionError("internal parsing error") / any other exception *)
Arguments SOk {A} _. Arguments SSyntaxErr {A} _. Arguments SUnsup {A}. Arguments SFuelStmt {A}. Arguments SFuelTag {A}.
Arguments SFuelExpr {A}. Arguments SInternal {A} _.

Definition sbind {A B} (r : sres A) (f : A -> sres B) : sres B :=
  match r with
  | SOk a => f a | SSyntaxErr l => SSyntaxErr l | SUnsup => SUnsup | SFuelStmt => SFuelStmt | SFuelTag => SFuelTag
  | SFuelExpr => SFuelExpr | SInternal t => SInternal t
  end.
Notation "'do*' x <- m ; f" := (sbind m (fun x => f)) (at level 200, x name, m at level 100, f at level 200).
Notation "'do*' ' p <- m ; f" := (sbind m (fun p => f)) (at level 200, p pattern, m at level 100, f at level 200).

Definition k_in_ : str := k_in.
Definition w_for : str := [102;111;114]%N.
Definition w_endfor : str := [101;110;100;102;111;114]%N.
Definition w_if : str := k_if.
Definition w_elif : str := [101;108;105;102]%N.
Definition w_else : str := k_else.
Definition w_endif : str := [101;110;100;105;102]%N.
Definition w_recursive : str := [114;101;99;117;114;115;105;118;101]%N.
Definition w_set : str := [115;101;116]%N.
Definition w_endset : str := [101;110;100;115;101;116]%N.
Definition w_with : str := [119;105;116;104]%N.
Definition w_endwith : str := [101;110;100;119;105;116;104]%N.
Definition w_without : str := [119;105;116;104;111;117;116]%N.
Definition w_context : str := [99;111;110;116;101;120;116]%N.
Definition w_autoescape : str := [97;117;116;111;101;115;99;97;112;101]%N.
Definition w_endautoescape : str := [101;110;100;97;117;116;111;101;115;99;97;112;101]%N.
Definition w_block : str := [98;108;111;99;107]%N.
Definition w_endblock : str := [101;110;100;98;108;111;99;107]%N.
Definition w_scoped : str := [115;99;111;112;101;100]%N.
Definition w_required : str := [114;101;113;117;105;114;101;100]%N.
Definition w_extends : str := [101;120;116;101;110;100;115]%N.
Definition w_include : str := [105;110;99;108;117;100;101]%N.
Definition w_ignore : str := [105;103;110;111;114;101]%N.
Definition w_missing : str := [109;105;115;115;105;110;103]%N.
Definition w_import : str := [105;109;112;111;114;116]%N.
Definition w_from : str := [102;114;111;109]%N.
Definition w_as : str := [97;115]%N.
Definition w_macro : str := [109;97;99;114;111]%N.
Definition w_endmacro : str := [101;110;100;109;97;99;114;111]%N.
Definition w_call : str := [99;97;108;108]%N.
Definition w_endcall : str := [101;110;100;99;97;108;108]%N.
Definition w_filter : str := [102;105;108;116;101;114]%N.
Definition w_endfilter : str := [101;110;100;102;105;108;116;101;114]%N.
Definition w_print : str := [112;114;105;110;116]%N.

(* ---- the position inside a tag ---- *)
Record tagctx := { endl : option nat; eofl : nat }.
(* line of the current token: a tag token, the closing token, or the eof token *)
Definition cline (c : tagctx) (ts : list ltok) : nat :=
  match ts with (_, l) :: _ => l | [] => match endl c with Some l => l | None => eofl c end end.

Definition hd_name (k : str) (ts : list ltok) : bool :=
  match ts with (KName s, _) :: _ => str_eqb s k | _ => false end.
Definition hd_op (o : optok) (ts : list ltok) : bool := is_op o (map fst ts).
Definition at_block_end (c : tagctx) (ts : list ltok) : bool :=
  match ts, endl c with [], Some _ => true | _, _ => false end.

Definition expect_op (c : tagctx) (o : optok) (ts : list ltok) : sres (list ltok) :=
  if hd_op o ts then SOk (tl ts) else SSyntaxErr (cline c ts).
Definition expect_kw (c : tagctx) (k : str) (ts : list ltok) : sres (list ltok) :=
  if hd_name k ts then SOk (tl ts) else SSyntaxErr (cline c ts).
Definition expect_name (c : tagctx) (ts : list ltok) : sres (str * nat * list ltok) :=
  match ts with (KName s, l) :: r => SOk (s, l, r) | _ => SSyntaxErr (cline c ts) end.
Definition skip_kw (k : str) (ts : list ltok) : bool * list ltok :=
  if hd_name k ts then (true, tl ts) else (false, ts).

(* running a function of the expression parser on the rest of the tag *)
Definition run_e {A} (c : tagctx) (f : kit -> list tok -> pres A) (ts : list ltok) : sres (A * list ltok) :=
  let toks := map fst ts in
  match f (kit_of (40 * (length toks + 2))) toks with
  | ROk a rest => SOk (a, skipn (length ts - length rest) ts)
  | RErr at_ => SSyntaxErr (cline c (skipn (length ts - length at_) ts))
  | RUnsup => SUnsup
  | RFuel => SFuelExpr
  end.

(* ---- parse_tuple (non-parenthesised uses) ---- *)
Definition tuple_end_x (extra : list str) (ts : list ltok) : bool :=
  match ts with
  | [] => true
  | (KOp ORParen, _) :: _ => true
  | (KName s, _) :: _ =>
      (* Parser.is_tuple_end calls current.test_any(extra_end_rules) with the TUPLE as one argument, and
         Token.test of a tuple is always false: the extra end rules never match (faithfully modelled) *)
      existsb (str_eqb s) extra && false
  | _ => false
  end.

Section Tuple.
  Context {X : Type}.
  Variable c : tagctx.
  Variable elem : list ltok -> sres (X * nat * list ltok).     (* element, its line, rest *)
  Variable extra : list str.
  (* returns the elements, whether a comma was seen, the line the Tuple node gets, the rest *)
  Fixpoint tuple_loop (n : nat) (args : list (X * nat)) (is_tuple : bool) (lineno : nat) (ts : list ltok)
    : sres (list (X * nat) * bool * nat * list ltok) :=
    match n with
    | O => SFuelTag
    | S n =>
        do* ts1 <- (match args with [] => SOk ts | _ => expect_op c OComma ts end);
        if tuple_end_x extra ts1 then SOk (args, is_tuple, lineno, ts1)
        else
          do* '(x, l, ts2) <- elem ts1;
          if hd_op OComma ts2 then tuple_loop n (args ++ [(x, l)]) true (cline c ts2) ts2
          else SOk (args ++ [(x, l)], is_tuple, lineno, ts2)
    end.
End Tuple.

(* an expression tuple: parse_tuple(with_condexpr, extra_end_rules) *)
Definition e_elem (c : tagctx) (condexpr : bool) (ts : list ltok) : sres (expr * nat * list ltok) :=
  do* '(e, r) <- run_e c (if condexpr then p_cond else p_or) ts; SOk (e, cline c ts, r).
Definition e_tuple (c : tagctx) (condexpr : bool) (extra : list str) (ts : list ltok) : sres (expr * list ltok) :=
  do* '(args, is_tuple, _, r) <- tuple_loop c (e_elem c condexpr) extra (2 + length ts) [] false (cline c ts) ts;
  if is_tuple then SOk (ETuple (map fst args), r)
  else match args with
       | (e, _) :: _ => SOk (e, r)
       | [] => SSyntaxErr (cline c r)          (* "Expected an expression, got ..." *)
       end.

(* ---- assignment targets ---- *)
Inductive texpr := TE (e : expr) | TENS (x a : str).

Definition const_name (s : str) : bool :=
  str_eqb s k_true || str_eqb s k_false || str_eqb s k_none || str_eqb s k_True || str_eqb s k_False || str_eqb s k_None.

(* parse_primary(with_namespace) *)
Definition t_elem (c : tagctx) (with_ns : bool) (ts : list ltok) : sres (texpr * nat * list ltok) :=
  match ts with
  | (KName s, l) :: (KOp ODot, _) :: r =>
      if with_ns && negb (const_name s) then
        match r with
        | (KName a, _) :: r2 => SOk (TENS s a, l, r2)
        | _ => SSyntaxErr (cline c r)
        end
      else do* '(e, r1) <- run_e c p_primary ts; SOk (TE e, l, r1)
  | _ => do* '(e, r1) <- run_e c p_primary ts; SOk (TE e, cline c ts, r1)
  end.

Fixpoint expr_target (e : expr) : option target :=
  match e with
  | EName x => Some (TgName x)
  | ETuple es =>
      match (fix all (l : list expr) : option (list target) :=
               match l with
               | [] => Some []
               | x :: r => match expr_target x, all r with Some t, Some ts => Some (t :: ts) | _, _ => None end
               end) es with
      | Some ts => Some (TgTuple ts)
      | None => None
      end
  | _ => None
  end.
Definition texpr_target (t : texpr) : option target :=
  match t with TE e => expr_target e | TENS x a => Some (TgNS x a) end.
Fixpoint all_targets (l : list texpr) : option (list target) :=
  match l with
  | [] => Some []
  | x :: r => match texpr_target x, all_targets r with Some t, Some ts => Some (t :: ts) | _, _ => None end
  end.

(* parse_assign_target(with_tuple=True, extra_end_rules, with_namespace) *)
Definition assign_target (c : tagctx) (extra : list str) (with_ns : bool) (ts : list ltok) : sres (target * list ltok) :=
  do* '(args, is_tuple, lineno, r) <- tuple_loop c (t_elem c with_ns) extra (2 + length ts) [] false (cline c ts) ts;
  if is_tuple then
    match all_targets (map fst args) with
    | Some tgs => SOk (TgTuple tgs, r)
    | None => SSyntaxErr lineno              (* can't assign to 'tuple' *)
    end
  else match args with
       | (t, l) :: _ => match texpr_target t with Some tg => SOk (tg, r) | None => SSyntaxErr l end
       | [] => SSyntaxErr (cline c r)
       end.

(* parse_assign_target(name_only=True) *)
Definition name_target (c : tagctx) (ts : list ltok) : sres (str * nat * list ltok) :=
  do* '(s, l, r) <- expect_name c ts;
  if const_name s then SSyntaxErr l else SOk (s, l, r).

(* ---- parse_filter(None [, start_inline]) ---- *)
Definition holder : expr := EName [].
Fixpoint chain_of (e : expr) (acc : fchain) : fchain :=
  match e with
  | EFilter a name args => chain_of a ((name, args) :: acc)
  | _ => acc
  end.
Fixpoint filter_loop (c : tagctx) (n : nat) (node : expr) (ts : list ltok) : sres (expr * list ltok) :=
  match n with
  | O => SFuelTag
  | S n =>
      if hd_op OPipe ts then
        do* '(node2, r) <- run_e c (fun K => p_filter K node) ts; filter_loop c n node2 r
      else SOk (node, ts)
  end.
Definition filter_chain (c : tagctx) (start_inline : bool) (ts : list ltok) : sres (fchain * list ltok) :=
  let ts0 := if start_inline then (KOp OPipe, cline c ts) :: ts else ts in
  do* '(node, r) <- filter_loop c (2 + length ts0) holder ts0;
  SOk (chain_of node [], r).

(* ---- parse_signature ---- *)
Fixpoint sig_loop (c : tagctx) (n : nat) (args : list str) (defaults : list expr) (ts : list ltok)
  : sres (list str * list expr * list ltok) :=
  match n with
  | O => SFuelTag
  | S n =>
      if hd_op ORParen ts then SOk (args, defaults, tl ts)
      else
        do* ts1 <- (match args with [] => SOk ts | _ => expect_op c OComma ts end);
        do* '(a, l, ts2) <- name_target c ts1;
        if existsb (str_eqb a) args then SSyntaxErr l           (* duplicate argument *)
        else if hd_op OAssign ts2 then
          do* '(d, ts3) <- run_e c p_cond (tl ts2); sig_loop c n (args ++ [a]) (defaults ++ [d]) ts3
        else match defaults with
             | [] => sig_loop c n (args ++ [a]) defaults ts2
             | _ => SSyntaxErr (cline c ts2)                    (* non-default argument follows default argument *)
             end
  end.
Definition signature (c : tagctx) (ts : list ltok) : sres (list str * list expr * list ltok) :=
  do* ts1 <- expect_op c OLParen ts; sig_loop c (2 + length ts) [] [] ts1.

(* with / without context *)
Definition import_context (default : bool) (ts : list ltok) : bool * list ltok :=
  match ts with
  | (KName s, _) :: (KName s2, _) :: r =>
      if (str_eqb s w_with || str_eqb s w_without) && str_eqb s2 w_context then (str_eqb s w_with, r) else (default, ts)
  | _ => (default, ts)
  end.

Definition is_space (ch : N) : bool :=
  (N.leb 9 ch && N.leb ch 13) || (N.leb 28 ch && N.leb ch 32) || N.eqb ch 133 || N.eqb ch 160.
Definition blank_output (s : stmt) : bool :=
  match s with
  | SOutput items => forallb (fun it => match it with OData d => negb (match d with [] => true | _ => false end) && forallb is_space d | OExpr _ => false end) items
  | _ => false
  end.

(* ---- statements ---- *)
Definition tagstate := (list ltok * option nat * list seg)%type.   (* rest of the tag, its closing line, following segments *)
Definition subres := (list stmt * option tagstate)%type.             (* None: the template ended *)

Section Statements.
  Variable eofline : nat.
  (* subparse(end_tokens) on the following segments *)
  Variable sub : option (list str) -> list seg -> sres subres.
  Definition ctx_of (e : option nat) : tagctx := {| endl := e; eofl := eofline |}.

  (* parse_statements(end_tokens, drop_needle) *)
  Definition parse_statements (ends : list str) (drop : bool) (st : tagstate) : sres (list stmt * tagstate) :=
    let '(ts, e, segs) := st in
    let c := ctx_of e in
    let ts1 := if hd_op OColon ts then tl ts else ts in
    if negb (at_block_end c ts1) then SSyntaxErr (cline c ts1)
    else
      do* '(body, st2) <- sub (Some ends) segs;
      match st2 with
      | None => SSyntaxErr eofline                 (* fail_eof *)
      | Some (ts2, e2, segs2) => SOk (body, ((if drop then tl ts2 else ts2), e2, segs2))
      end.

  (* if / elif chain; k bounds the number of elif branches *)
  Fixpoint if_chain (k : nat) (st : tagstate) : sres (expr * list stmt * list (expr * list stmt) * list stmt * tagstate) :=
    match k with
    | O => SFuelStmt
    | S k =>
        let '(ts, e, segs) := st in
        let c := ctx_of e in
        do* '(test, ts1) <- e_tuple c false [] ts;
        do* '(body, (ts2, e2, segs2)) <- parse_statements [w_elif; w_else; w_endif] false (ts1, e, segs);
        if hd_name w_elif ts2 then
          do* '(t2, b2, elifs, else_, st3) <- if_chain k (tl ts2, e2, segs2);
          SOk (test, body, (t2, b2) :: elifs, else_, st3)
        else if hd_name w_else ts2 then
          do* '(else_, st3) <- parse_statements [w_endif] true (tl ts2, e2, segs2);
          SOk (test, body, [], else_, st3)
        else SOk (test, body, [], [], (tl ts2, e2, segs2))
    end.

  Fixpoint with_loop (c : tagctx) (n : nat) (tgs : list target) (vals : list expr) (ts : list ltok)
    : sres (list target * list expr * list ltok) :=
    match n with
    | O => SFuelTag
    | S n =>
        if at_block_end c ts then SOk (tgs, vals, ts)
        else
          do* ts1 <- (match tgs with [] => SOk ts | _ => expect_op c OComma ts end);
          do* '(tg, ts2) <- assign_target c [] false ts1;
          do* ts3 <- expect_op c OAssign ts2;
          do* '(v, ts4) <- run_e c p_cond ts3;
          with_loop c n (tgs ++ [tg]) (vals ++ [v]) ts4
    end.

  Fixpoint print_loop (c : tagctx) (n : nat) (items : list outitem) (ts : list ltok) : sres (list outitem * list ltok) :=
    match n with
    | O => SFuelTag
    | S n =>
        if at_block_end c ts then SOk (items, ts)
        else
          do* ts1 <- (match items with [] => SOk ts | _ => expect_op c OComma ts end);
          do* '(v, ts2) <- run_e c p_cond ts1;
          print_loop c n (items ++ [OExpr v]) ts2
    end.

  Fixpoint from_loop (c : tagctx) (n : nat) (names : list (str * option str)) (ts : list ltok)
    : sres (list (str * option str) * option bool * list ltok) :=
    match n with
    | O => SFuelTag
    | S n =>
        do* ts1 <- (match names with [] => SOk ts | _ => expect_op c OComma ts end);
        match ts1 with
        | (KName s, l) :: r =>
            let ctxm := fun (t : list ltok) =>
              match t with
              | (KName a, _) :: (KName b, _) :: r2 =>
                  if (str_eqb a w_with || str_eqb a w_without) && str_eqb b w_context then Some (str_eqb a w_with, r2) else None
              | _ => None
              end in
            match ctxm ts1 with
            | Some (wc, r2) => SOk (names, Some wc, r2)
            | None =>
                do* '(nm, l1, ts2) <- name_target c ts1;
                if (match nm with ch :: _ => N.eqb ch 95 | [] => false end) then SSyntaxErr l1
                else
                  do* '(entry, ts3) <-
                    (if hd_name w_as ts2 then do* '(al, _, t3) <- name_target c (tl ts2); SOk ((nm, Some al), t3)
                     else SOk ((nm, None), ts2));
                  match ctxm ts3 with
                  | Some (wc, r2) => SOk (names ++ [entry], Some wc, r2)
                  | None => if hd_op OComma ts3 then from_loop c n (names ++ [entry]) ts3
                            else SOk (names ++ [entry], None, ts3)
                  end
            end
        | _ => SSyntaxErr (cline c ts1)                 (* expect("name") *)
        end
    end.

  (* parse_statement: [ts] starts with the tag name *)
  Definition parse_statement (st : tagstate) : sres (stmt * tagstate) :=
    let '(ts, e, segs) := st in
    let c := ctx_of e in
    match ts with
    | (KName tag, tagl) :: ts0 =>
        if str_eqb tag w_for then
          do* '(tg, ts1) <- assign_target c [k_in] false ts0;
          do* ts2 <- expect_kw c k_in ts1;
          do* '(iter, ts3) <- e_tuple c false [w_recursive] ts2;
          do* '(test, ts4) <- (if hd_name k_if ts3 then do* '(t, r) <- run_e c p_cond (tl ts3); SOk (Some t, r) else SOk (None, ts3));
          let '(recursive, ts5) := skip_kw w_recursive ts4 in
          do* '(body, (ts6, e6, segs6)) <- parse_statements [w_endfor; w_else] false (ts5, e, segs);
          if hd_name w_endfor ts6 then SOk (SFor tg iter body [] test recursive, (tl ts6, e6, segs6))
          else
            do* '(else_, st7) <- parse_statements [w_endfor] true (tl ts6, e6, segs6);
            SOk (SFor tg iter body else_ test recursive, st7)
        else if str_eqb tag w_if then
          do* '(test, body, elifs, else_, st2) <- if_chain (S (length segs)) (ts0, e, segs);
          SOk (SIf test body elifs else_, st2)
        else if str_eqb tag w_set then
          do* '(tg, ts1) <- assign_target c [] true ts0;
          if hd_op OAssign ts1 then
            do* '(v, ts2) <- e_tuple c true [] (tl ts1); SOk (SAssign tg v, (ts2, e, segs))
          else
            do* '(f, ts2) <- filter_chain c false ts1;
            do* '(body, st3) <- parse_statements [w_endset] true (ts2, e, segs);
            SOk (SAssignBlock tg f body, st3)
        else if str_eqb tag w_with then
          do* '(tgs, vals, ts1) <- with_loop c (2 + length ts0) [] [] ts0;
          do* '(body, st2) <- parse_statements [w_endwith] true (ts1, e, segs);
          SOk (SWith tgs vals body, st2)
        else if str_eqb tag w_autoescape then
          do* '(v, ts1) <- run_e c p_cond ts0;
          do* '(body, st2) <- parse_statements [w_endautoescape] true (ts1, e, segs);
          SOk (SAutoescape v body, st2)
        else if str_eqb tag w_block then
          do* '(name, _, ts1) <- expect_name c ts0;
          let '(scoped, ts2) := skip_kw w_scoped ts1 in
          let '(required, ts3) := skip_kw w_required ts2 in
          if hd_op OSub ts3 then SSyntaxErr (cline c ts3)
          else
            do* '(body, (ts4, e4, segs4)) <- parse_statements [w_endblock] true (ts3, e, segs);
            if required && negb (forallb blank_output body) then SSyntaxErr (cline (ctx_of e4) ts4)
            else SOk (SBlock name scoped required body, (snd (skip_kw name ts4), e4, segs4))
        else if str_eqb tag w_extends then
          do* '(v, ts1) <- run_e c p_cond ts0; SOk (SExtends v, (ts1, e, segs))
        else if str_eqb tag w_include then
          do* '(v, ts1) <- run_e c p_cond ts0;
          let '(ign, ts2) :=
            match ts1 with
            | (KName a, _) :: (KName b, _) :: r => if str_eqb a w_ignore && str_eqb b w_missing then (true, r) else (false, ts1)
            | _ => (false, ts1)
            end in
          let '(wc, ts3) := import_context true ts2 in
          SOk (SInclude v ign wc, (ts3, e, segs))
        else if str_eqb tag w_import then
          do* '(v, ts1) <- run_e c p_cond ts0;
          do* ts2 <- expect_kw c w_as ts1;
          do* '(nm, _, ts3) <- name_target c ts2;
          let '(wc, ts4) := import_context false ts3 in
          SOk (SImport v nm wc, (ts4, e, segs))
        else if str_eqb tag w_from then
          do* '(v, ts1) <- run_e c p_cond ts0;
          do* ts2 <- expect_kw c w_import ts1;
          do* '(names, wc, ts3) <- from_loop c (2 + length ts2) [] ts2;
          SOk (SFromImport v names (match wc with Some b => b | None => false end), (ts3, e, segs))
        else if str_eqb tag w_macro then
          do* '(nm, _, ts1) <- name_target c ts0;
          do* '(args, defaults, ts2) <- signature c ts1;
          do* '(body, st3) <- parse_statements [w_endmacro] true (ts2, e, segs);
          SOk (SMacro nm args defaults body, st3)
        else if str_eqb tag w_call then
          do* '(args, defaults, ts1) <- (if hd_op OLParen ts0 then signature c ts0 else SOk ([], [], ts0));
          do* '(cl, ts2) <- run_e c p_cond ts1;
          match cl with
          | ECall _ _ _ =>
              do* '(body, st3) <- parse_statements [w_endcall] true (ts2, e, segs);
              SOk (SCallBlock args defaults cl body, st3)
          | _ => SSyntaxErr tagl                       (* expected call *)
          end
        else if str_eqb tag w_filter then
          do* '(f, ts1) <- filter_chain c true ts0;
          do* '(body, st2) <- parse_statements [w_endfilter] true (ts1, e, segs);
          SOk (SFilterBlock f body, st2)
        else if str_eqb tag w_print then
          do* '(items, ts1) <- print_loop c (2 + length ts0) [] ts0;
          SOk (SOutput items, (ts1, e, segs))
        else SSyntaxErr tagl                           (* fail_unknown_tag *)
    | _ => SSyntaxErr (cline c ts)                     (* tag name expected *)
    end.
End Statements.

Definition flush (body : list stmt) (buf : list outitem) : list stmt :=
  match buf with [] => body | _ => body ++ [SOutput buf] end.

(* Parser.subparse(end_tokens); buf = data_buffer, body = the statements so far *)
Fixpoint subparse (eofline : nat) (n : nat) (ends : option (list str)) (segs : list seg)
         (buf : list outitem) (body : list stmt) : sres subres :=
  match n with
  | O => SFuelStmt
  | S n =>
      match segs with
      | [] => SOk (flush body buf, None)
      | GData s _ :: r =>
          subparse eofline n ends r (match s with [] => buf | _ => buf ++ [OData s] end) body
      | GVar ts e :: r =>
          let c := {| endl := e; eofl := eofline |} in
          do* '(v, ts1) <- e_tuple c true [] ts;
          if at_block_end c ts1 then subparse eofline n ends r (buf ++ [OExpr v]) body
          else SSyntaxErr (cline c ts1)                 (* expect("variable_end") *)
      | GBlock ts e :: r =>
          let body1 := flush body buf in
          let is_end := match ends, ts with
                        | Some names, (KName s, _) :: _ => existsb (str_eqb s) names
                        | _, _ => false
                        end in
          if is_end then SOk (body1, Some (ts, e, r))
          else
            do* '(s, (ts1, e1, r1)) <- parse_statement eofline (fun en sg => subparse eofline n en sg [] []) (ts, e, r);
            let c1 := {| endl := e1; eofl := eofline |} in
            if at_block_end c1 ts1 then subparse eofline n ends r1 [] (body1 ++ [s])
            else SSyntaxErr (cline c1 ts1)              (* expect("block_end") *)
      end
  end.

(* Parser.parse on a token stream; fuel counts segments *)
Definition parse_with (n : nat) (ts : list lstok) : sres (list stmt) :=
  match segments ts with
  | None => SInternal 1                                (* AssertionError("internal parsing error") *)
  | Some segs =>
      do* '(body, _) <- subparse (eof_line ts) n None segs [] []; SOk body
  end.
Definition parse (ts : list lstok) : sres (list stmt) := parse_with (2 * length ts + 2) ts.
