(* C05 — model of include / import / from-import as the generated code and the runtime run them.
   Executable definitions only; proofs live in Proofs/ImpProofs.v.

   Mirrored (jinja2 file:function):
   * runtime.new_context(environment, name, blocks, vars, shared, globals, locals) and
     Context.__init__ (parent, vars = {}, exported_vars = set(), globals_keys = set(globals));
   * Context.get_all / get_exported / resolve_or_missing;
   * compiler.visit_Include: get_template / select_template / get_or_select_template, the
     try/except TemplateNotFound/else of `ignore missing`, `template.new_context(context.get_all(),
     True, {locals})` or `template._get_default_module()._body_stream`;
   * compiler._import_common: make_module(context.get_all(), True, {locals}) or
     _get_default_module(context); visit_Import / visit_FromImport with context.vars[...] and
     exported_vars.discard / difference_update at the top level; visit_Assign / visit_Macro with
     exported_vars.add for names not starting with "_";
   * environment.Template.make_module, _get_default_module(ctx) (globals_keys difference,
     {k: ctx._globals[k] for k in keys}), TemplateModule.__init__ (get_exported);
   * environment.select_template (first name for which get_template does not raise
     TemplateNotFound, Template objects returned as they are, TemplatesNotFound otherwise).
   Python dicts are association lists with unique keys and dict update semantics; sets are lists
   without duplicates.  Names below 100 are public, from 100 on they start with "_". *)
From Coq Require Import List NArith Bool Arith.
Import ListNotations.

Definition str := list N.
Definition name := N.
Definition tname := N.

Inductive value :=
| VStr (s : str)
| VMacro (s : str)                         (* a macro without parameters and with a constant body *)
| VMod (ex : list (name * value))          (* TemplateModule: its exported attributes *)
| VUndef.                                  (* an Undefined object stored in a variable *)

Definition env := list (name * value).     (* a dict *)

Fixpoint dget (k : name) (d : env) : option value :=
  match d with [] => None | (k', v) :: r => if N.eqb k' k then Some v else dget k r end.
(* d[k] = v *)
Fixpoint dset (k : name) (v : value) (d : env) : env :=
  match d with
  | [] => [(k, v)]
  | (k', v') :: r => if N.eqb k' k then (k', v) :: r else (k', v') :: dset k v r
  end.
(* dict(a, **b) / a.update(b); b is a dict (distinct keys), so the order of application is
   immaterial; applied from the end so that for a list with repeated keys the first entry wins *)
Definition dupdate (a b : env) : env := fold_right (fun kv d => dset (fst kv) (snd kv) d) a b.
Definition dkeys (d : env) : list name := map fst d.
Definition mem (k : name) (l : list name) : bool := existsb (N.eqb k) l.
Definition sadd (k : name) (l : list name) : list name := if mem k l then l else l ++ [k].
Definition sdiscard (k : name) (l : list name) : list name := filter (fun x => negb (N.eqb x k)) l.
Definition public (n : name) : bool := N.ltb n 100.

(* runtime.Context; c_globals is Context._globals, the globals mapping handed to new_context (kept
   since the repair recorded in known_findings.d/C05.json; globals_keys are its keys) *)
Record ctx := { c_parent : env; c_vars : env; c_exported : list name; c_gkeys : list name; c_globals : env }.

(* frame locals as dump_local_context passes them: innermost first in the model's list *)
Definition locals_dict (L : env) : env := dupdate [] L.

Definition new_context (vars : option env) (shared : bool) (globals : env) (locals : env) : ctx :=
  let vars := match vars with Some v => v | None => [] end in
  let parent := if shared then vars else dupdate globals vars in
  let parent := match locals with
                | [] => parent
                | _ => dupdate parent (locals_dict locals)      (* values that are `missing` never enter L *)
                end in
  {| c_parent := parent; c_vars := []; c_exported := []; c_gkeys := dkeys globals; c_globals := globals |}.

Definition get_all (c : ctx) : env :=
  match c_vars c with
  | [] => c_parent c
  | _ => match c_parent c with [] => c_vars c | _ => dupdate (c_parent c) (c_vars c) end
  end.
Definition get_exported (c : ctx) : env :=
  flat_map (fun k => match dget k (c_vars c) with Some v => [(k, v)] | None => [] end) (c_exported c).
(* resolve_or_missing, preceded by the frame locals *)
Definition resolve (L : env) (c : ctx) (x : name) : option value :=
  match dget x L with
  | Some v => Some v
  | None => match dget x (c_vars c) with Some v => Some v | None => dget x (c_parent c) end
  end.

Inductive err := ENotFound | EUndefined | EKey | EFuel.
Inductive res (A : Type) := Ok (a : A) | Err (e : err).
Arguments Ok {A} _. Arguments Err {A} _.

(* the three ways a target's context is made *)
Definition include_ctx (c : ctx) (L : env) (g : env) : ctx := new_context (Some (get_all c)) true g L.
Definition default_ctx (g : env) : ctx := new_context None false g [].
(* Template._get_default_module(ctx) *)
Fixpoint pick_parent (keys : list name) (parent : env) : res env :=
  match keys with
  | [] => Ok []
  | k :: r => match dget k parent with
              | None => Err EKey                                  (* ctx._globals[k] *)
              | Some v => match pick_parent r parent with Ok d => Ok (dset k v d) | Err e => Err e end
              end
  end.
Definition import_ctx (c : ctx) (g : env) : res ctx :=
  let keys := filter (fun k => negb (mem k (dkeys g))) (c_gkeys c) in
  match keys with
  | [] => Ok (default_ctx g)
  | _ => match pick_parent keys (c_globals c) with
         | Ok d => Ok (new_context (Some d) false g [])
         | Err e => Err e
         end
  end.

(* ------------------------------------------------------------------ syntax *)
Inductive target := ByName (n : tname) | ByObject (n : tname).   (* a Template object passed in a variable *)
Inductive skind := KFor | KWith | KMacro | KBlock | KBlockS.   (* for / with / private macro called in place /
   a block rendered where it is defined, unscoped or `scoped` (runs with Context.derived(locals)) *)
Inductive expr := EConst (s : str) | EVar (x : name).
Inductive stmt :=
| SOut (s : str)
| SProbe (x : name)                         (* prints the variable in a canonical way *)
| SProbeAttr (m x : name)                   (* prints m.x *)
| SSet (x : name) (e : expr)
| SMacro (m : name) (s : str)
| SInclude (ts : list target) (is_list with_ctx ignore_missing : bool)
| SImport (t : target) (alias : name) (with_ctx : bool)
| SFrom (t : target) (names : list (name * name)) (with_ctx : bool)
| SScope (k : skind) (x : name) (vals : list str) (body : list stmt)
| SExtend (t : target).                     (* {% extends t %} of a template whose own top level only assigns, defines
                                               macros and imports: the parent's root runs with the SAME context *)

Record template := { t_globals : env; t_body : list stmt }.
Definition tset := list (tname * template).

Fixpoint tfind (n : tname) (ts : tset) : option template :=
  match ts with [] => None | (k, t) :: r => if N.eqb k n then Some t else tfind n r end.

(* Environment.get_template / select_template / get_or_select_template *)
Definition get_target (ts : tset) (t : target) : option template :=
  match t with ByName n => tfind n ts | ByObject n => tfind n ts end.
Fixpoint select_template (ts : tset) (names : list target) : option template :=
  match names with
  | [] => None                                          (* TemplatesNotFound *)
  | n :: r => match get_target ts n with Some t => Some t | None => select_template ts r end
  end.

Definition q : str := [63%N].
Definition show (v : option value) : str :=
  match v with
  | None | Some VUndef => q
  | Some (VStr s) => s
  | Some (VMacro s) => 77%N :: s
  | Some (VMod _) => [35%N]
  end.
Definition show_attr (v : option value) (x : name) : res str :=
  match v with
  | None | Some VUndef => Err EUndefined
  | Some (VMod ex) => Ok (show (dget x ex))
  | Some _ => Ok q
  end.
Definition eval (L : env) (c : ctx) (e : expr) : value :=
  match e with
  | EConst s => VStr s
  | EVar x => match resolve L c x with Some v => v | None => VUndef end
  end.

(* state of a running function body: output so far, context, frame locals *)
Record st := { s_out : str; s_ctx : ctx; s_loc : env }.

Definition bind_top (x : name) (v : value) (exported : bool) (c : ctx) : ctx :=
  {| c_parent := c_parent c; c_vars := dset x v (c_vars c);
     c_exported := if public x then (if exported then sadd x (c_exported c) else sdiscard x (c_exported c))
                   else c_exported c;
     c_gkeys := c_gkeys c; c_globals := c_globals c |}.

Definition bind (top : bool) (x : name) (v : value) (exported : bool) (s : st) : st :=
  if top then {| s_out := s_out s; s_ctx := bind_top x v exported (s_ctx s); s_loc := s_loc s |}
  else {| s_out := s_out s; s_ctx := s_ctx s; s_loc := (x, v) :: s_loc s |}.

Definition emit (o : str) (s : st) : st := {| s_out := s_out s ++ o; s_ctx := s_ctx s; s_loc := s_loc s |}.

(* how the three kinds of target context and the choice among several names are made: the
   implementation's way is the record [impl] below, the documented way is Spec/ImpSpec.v *)
Record policy := {
  p_include : ctx -> env -> env -> ctx;          (* current context, frame locals, target globals *)
  p_default : env -> ctx;
  p_import : ctx -> env -> res ctx;
  p_select : tset -> list target -> option template }.

Section Run.
  Variable P : policy.
  Variable ts : tset.

  (* run_body fuel top s body: the statements of one function body in order.  fuel bounds the
     total nesting of statement lists and template entries (RecursionError when exhausted) *)
  Fixpoint run_body (fuel : nat) (top : bool) (s : st) (body : list stmt) {struct fuel} : res st :=
    match fuel with
    | O => Err EFuel
    | S fu =>
        match body with
        | [] => Ok s
        | x :: rest =>
            match run_stmt fu top s x with
            | Ok s' => run_body fu top s' rest
            | Err e => Err e
            end
        end
    end
  with run_stmt (fuel : nat) (top : bool) (s : st) (x : stmt) {struct fuel} : res st :=
    match fuel with
    | O => Err EFuel
    | S fu =>
        let c := s_ctx s in
        let L := s_loc s in
        (* TemplateModule(template, ctx): render the body, keep the exports *)
        let make_module := fun (t : template) (c' : ctx) =>
          match run_body fu true {| s_out := []; s_ctx := c'; s_loc := [] |} (t_body t) with
          | Ok s' => Ok (s_out s', VMod (get_exported (s_ctx s')))
          | Err e => Err e
          end in
        let module_for := fun (t : template) (with_ctx : bool) =>
          if with_ctx then make_module t (p_include P c L (t_globals t))
          else match p_import P c (t_globals t) with
               | Ok c' => make_module t c'
               | Err e => Err e
               end in
        match x with
        | SOut o => Ok (emit o s)
        | SProbe v => Ok (emit (show (resolve L c v)) s)
        | SProbeAttr m v =>
            match show_attr (resolve L c m) v with Ok o => Ok (emit o s) | Err e => Err e end
        | SSet v e => Ok (bind top v (eval L c e) true s)
        | SMacro m body => Ok (bind top m (VMacro body) true s)
        | SInclude targets is_list with_ctx ignore =>
            let found := if is_list then p_select P ts targets
                         else match targets with t :: _ => get_target ts t | [] => None end in
            match found with
            | None => if ignore then Ok s else Err ENotFound
            | Some t =>
                let c' := if with_ctx then p_include P c L (t_globals t) else p_default P (t_globals t) in
                match run_body fu true {| s_out := []; s_ctx := c'; s_loc := [] |} (t_body t) with
                | Ok s' => Ok (emit (s_out s') s)
                | Err e => Err e
                end
            end
        | SImport t alias with_ctx =>
            match get_target ts t with
            | None => Err ENotFound
            | Some tg => match module_for tg with_ctx with
                         | Ok (_, m) => Ok (bind top alias m false s)
                         | Err e => Err e
                         end
            end
        | SFrom t names with_ctx =>
            match get_target ts t with
            | None => Err ENotFound
            | Some tg =>
                match module_for tg with_ctx with
                | Ok (_, VMod ex) =>
                    Ok (fold_left (fun s' na =>
                                     bind top (snd na) (match dget (fst na) ex with Some v => v | None => VUndef end)
                                          false s') names s)
                | Ok _ => Err EKey
                | Err e => Err e
                end
            end
        | SExtend t =>
            match get_target ts t with
            | None => Err ENotFound
            | Some tg => run_body fu top s (t_body tg)
            end
        | SScope k v vals body =>
            (* a for loop, a with block, a private macro called in place: the body runs in an inner
               frame; what it binds stays local.  A block runs as its own function: the enclosing
               locals are not visible, except that a scoped block gets Context.derived(locals), which
               (since the repair recorded in known_findings.d/C05.json) keeps the globals mapping *)
            fold_left (fun acc val =>
                         match acc with
                         | Err e => Err e
                         | Ok s1 =>
                             match run_body fu false
                                     {| s_out := s_out s1;
                                        s_ctx := match k with
                                                 | KBlockS => p_include P (s_ctx s1) L (c_globals (s_ctx s1))
                                                 | _ => s_ctx s1 end;
                                        s_loc := match k with KBlock | KBlockS => [] | _ => (v, VStr val) :: L end |} body with
                             | Ok s2 => Ok {| s_out := s_out s2; s_ctx := s_ctx s1; s_loc := L |}
                             | Err e => Err e
                             end
                         end) vals (Ok s)
        end
    end.
End Run.

Definition impl : policy :=
  {| p_include := include_ctx; p_default := default_ctx; p_import := import_ctx; p_select := select_template |}.

(* Template.render(data) of template main; Template.module of it *)
Definition render_with (P : policy) (fuel : nat) (ts : tset) (main : tname) (data : env) : res str :=
  match tfind main ts with
  | None => Err ENotFound
  | Some t => match run_body P ts fuel true {| s_out := []; s_ctx := new_context (Some data) false (t_globals t) [];
                                             s_loc := [] |} (t_body t) with
              | Ok s => Ok (s_out s)
              | Err e => Err e
              end
  end.
Definition module_with (P : policy) (fuel : nat) (ts : tset) (main : tname) : res (str * env) :=
  match tfind main ts with
  | None => Err ENotFound
  | Some t => match run_body P ts fuel true {| s_out := []; s_ctx := p_default P (t_globals t); s_loc := [] |} (t_body t) with
              | Ok s => Ok (s_out s, get_exported (s_ctx s))
              | Err e => Err e
              end
  end.
Definition render := render_with impl.
Definition module_of := module_with impl.
