(* C01: classification of the raise / assert sites on the template loading path.  The table
   of sites is regenerated from /repo on every run (gen/c01_raises.py); this file holds the
   judgement applied to it. *)
From Coq Require Import List String Bool.
Import ListNotations.
Open Scope string_scope.

Inductive cls :=
| Syntax          (* TemplateSyntaxError / TemplateAssertionError *)
| SyntaxDyn       (* a class variable restricted to TemplateSyntaxError subclasses (Failure, Parser.fail) *)
| Impossible      (* nodes.Impossible: caught by the optimizer / code generator *)
| Control         (* VisitorExit, CompilerExit, StopIteration: engine-internal control flow, always caught *)
| Reraise
| Assert | RuntimeError | NotImplementedError | AssertionError | TypeError
| Other.

Definition cls_eqb (a b : cls) : bool :=
  match a, b with
  | Syntax, Syntax | SyntaxDyn, SyntaxDyn | Impossible, Impossible | Control, Control | Reraise, Reraise
  | Assert, Assert | RuntimeError, RuntimeError | NotImplementedError, NotImplementedError
  | AssertionError, AssertionError | TypeError, TypeError | Other, Other => true
  | _, _ => false
  end.

(* internal guards: sites that raise something else, each with the reason it cannot be reached
   by loading a template source (and the part of the development / oracle that covers it) *)
Definition internal_guards : list (string * string * cls) := [
  ("lexer.py", "", Assert);                                   (* module-level table consistency *)
  ("lexer.py", "Lexer.tokeniter", Assert);                    (* `state in self.rules`: state is a literal or None *)
  ("lexer.py", "Lexer.tokeniter", RuntimeError);              (* lexer model: unreachable (LexInternal never) *)
  ("parser.py", "Parser.subparse", AssertionError);           (* "internal parsing error": token types are closed *)
  ("compiler.py", "generate", TypeError);                     (* generate() called with a non-Template node: API misuse *)
  ("compiler.py", "CodeGenerator.enter_frame", NotImplementedError);   (* unknown load instruction: closed enum *)
  ("compiler.py", "CodeGenerator.visit_Template", Assert);    (* frame is None at the root *)
  ("idtracking.py", "Symbols.ref", AssertionError);           (* analysis covers code generation *)
  ("idtracking.py", "Symbols.branch_update", Assert);
  ("idtracking.py", "RootVisitor.visit_For", RuntimeError);   (* unknown for_branch literal *)
  ("idtracking.py", "RootVisitor.generic_visit", NotImplementedError);
  ("nodes.py", "NodeType.__new__", Assert);                   (* class creation time *)
  ("nodes.py", "get_eval_context", RuntimeError);
  ("nodes.py", "Node.__init__", TypeError);                   (* node construction arity: parser passes fixed fields *)
  ("nodes.py", "InternalName.__init__", TypeError);
  ("nodes.py", "_failing_new", TypeError);
  ("ext.py", "Extension.parse", NotImplementedError);         (* abstract method *)
  ("ext.py", "InternationalizationExtension._parse_block", RuntimeError);  (* "internal parser error" *)
  ("ext.py", "babel_extract", Reraise)                        (* extraction API, not template loading *)
].

Definition triple_eqb (a b : string * string * cls) : bool :=
  String.eqb (fst (fst a)) (fst (fst b)) && String.eqb (snd (fst a)) (snd (fst b)) && cls_eqb (snd a) (snd b).

Definition site_ok (s : string * string * cls) : bool :=
  match snd s with
  | Syntax | SyntaxDyn | Impossible | Control => true
  | _ => existsb (triple_eqb s) internal_guards
  end.

(* constant folding (nodes.*.as_const) runs operators, filters, tests, subscripts and attribute
   lookups on constants while the template is loaded; whatever they raise has to become Impossible *)
Definition fold_handler_ok (h : string * string * bool) : bool := String.eqb (snd (fst h)) "Exception" && snd h.
Definition fold_entry_points : list string := [
  "BinExpr.as_const"; "UnaryExpr.as_const"; "Dict.as_const"; "args_as_const"; "_FilterTestCommon.as_const";
  "Getitem.as_const"; "Getattr.as_const"; "Compare.as_const"
].
