(* Model of jinja2.nativetypes (C34): native_concat and the render dispatch of NativeTemplate.
   Executable definitions only; proofs live in Proofs/NativeProofs.v.
   External behaviour enters as Section variables: ast.literal_eval(ast.parse(s, mode="eval"))
   (None = it raises — ValueError / SyntaxError / MemoryError / TypeError / RecursionError are caught) and
   str() of non-string objects. *)
From Coq Require Import List NArith Bool.
Import ListNotations.

Definition str := list N.

(* what the root render function yields in a native environment: strings, or any object *)
Inductive piece := PStr (s : str) | PObj (o : N).

Section Native.
  Variable L : Type.                         (* Python literal values *)
  Variable literal_eval : str -> option L.
  Variable str_of : N -> str.                (* str(o) of a non-string object *)

  Inductive nout := NNone | NObj (o : N) | NLit (v : L) | NText (s : str).

  Definition piece_str (p : piece) : str := match p with PStr s => s | PObj o => str_of o end.

  Fixpoint join (ps : list piece) : str :=
    match ps with [] => [] | p :: r => piece_str p ++ join r end.

  (* try: return literal_eval(parse(raw, mode="eval")) except (...): return raw *)
  Definition eval_or_text (raw : str) : nout :=
    match literal_eval raw with Some v => NLit v | None => NText raw end.

  (* native_concat(values): head = list(islice(values, 2)) ... *)
  Definition native_concat (ps : list piece) : nout :=
    match ps with
    | [] => NNone
    | [p] => match p with
             | PObj o => NObj o                (* not isinstance(raw, str): return raw *)
             | PStr s => eval_or_text s
             end
    | _ => eval_or_text (join ps)              (* "".join([str(v) for v in values]) *)
    end.

  (* NativeTemplate.render / render_async.  [pieces] is what root_render_func(ctx) yields (the
     same items from the generator of a sync environment and the async generator of an
     async-enabled one). *)
  Inductive entry := Render | RenderAsync.
  Inductive rres := RVal (v : nout) | RRuntimeError.

  Definition render_async (is_async : bool) (pieces : list piece) : rres :=
    if is_async then RVal (native_concat pieces)     (* concat([n async for n in root(ctx)]) *)
    else RRuntimeError.                              (* "not created with async mode enabled" *)

  Definition native_render (is_async : bool) (e : entry) (pieces : list piece) : rres :=
    match e with
    | RenderAsync => render_async is_async pieces
    | Render =>
        if is_async then render_async is_async pieces   (* asyncio.run(self.render_async(...)) *)
        else RVal (native_concat pieces)                (* concat(list(self.root_render_func(ctx))): eager, like render_async *)
    end.

  (* NativeCodeGenerator: adjacent constant outputs are emitted as one string
     (_output_const_repr: repr("".join(str(v) for v in group))) *)
  Fixpoint group_consts (ps : list piece) : list piece :=
    match ps with
    | PStr a :: r =>
        match group_consts r with
        | PStr b :: r' => PStr (a ++ b) :: r'
        | r' => PStr a :: r'
        end
    | p :: r => p :: group_consts r
    | [] => []
    end.
End Native.

Arguments NNone {L}. Arguments NObj {L} _. Arguments NLit {L} _. Arguments NText {L} _.
Arguments RVal {L} _. Arguments RRuntimeError {L}.
