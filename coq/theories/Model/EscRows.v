(* C15: the Markup behaviour of a filter abstracted to a taint row.
   A case of a row says, for one combination of argument taints (is the argument Markup?):
   is the result Markup, and how does the text of each argument reach a Markup result:
   through escape() (FlEsc), copied / transformed without escaping (FlRaw), or not at all
   (FlNone).  Executable definitions only. *)
From Coq Require Import List NArith Bool.
From JV Require Import Model.EscMarkup.
Import ListNotations.

Inductive flow := FlEsc | FlRaw | FlNone.

Definition rcase := (list bool * bool * list flow)%type.

Fixpoint flows_safe (taints : list bool) (fl : list flow) : bool :=
  match taints, fl with
  | t :: ts, f :: fs => (match f with FlRaw => t | _ => true end) && flows_safe ts fs
  | [], [] => true
  | _, _ => false
  end.

(* a case is safe when a Markup result takes unescaped text only from Markup arguments *)
Definition case_safe (c : rcase) : bool :=
  let '(taints, mk, fl) := c in negb mk || flows_safe taints fl.

Definition row_safe (cases : list rcase) : bool := forallb case_safe cases.

(* what a Markup result may be made of: the filter's own markup (documented, Clean once the
   documented tags are set aside) and, per argument, a character-class preserving transform
   (case mapping, slicing, padding, wrapping, ...) of the escaped or the raw argument text *)
Inductive piece :=
| Own (s : str)
| FromArg (i : nat) (tr : str -> str).

Definition render_piece (args : list tstr) (fl : list flow) (p : piece) : str :=
  match p with
  | Own s => s
  | FromArg i tr =>
      match nth_error args i, nth_error fl i with
      | Some a, Some FlEsc => tr (esc_str a)
      | Some a, Some FlRaw => tr (raw a)
      | _, _ => []
      end
  end.

Definition render_pieces (args : list tstr) (fl : list flow) (ps : list piece) : str :=
  concat (map (render_piece args fl) ps).

(* ---------------------------------------------------------------- arguments that are not strings
   A filter argument is a (plain or Markup) string, or any other object (list, tuple, dict, an
   object with __str__, ...) whose text str(x) contains data.  Such an object has no __html__: it is
   never Markup, escape(x) = escape(str(x)), and interpolating it (f"{x}", "%s" % x, str.join)
   copies str(x) unescaped. *)
Inductive carg := CStr (v : tstr) | CObj (text : str).

Definition c_is_mk (a : carg) : bool := match a with CStr v => is_mk v | CObj _ => false end.
Definition c_raw (a : carg) : str := match a with CStr v => raw v | CObj t => t end.
Definition c_esc_str (a : carg) : str := match a with CStr v => esc_str v | CObj t => escape t end.

Definition render_piece_c (args : list carg) (fl : list flow) (p : piece) : str :=
  match p with
  | Own s => s
  | FromArg i tr =>
      match nth_error args i, nth_error fl i with
      | Some a, Some FlEsc => tr (c_esc_str a)
      | Some a, Some FlRaw => tr (c_raw a)
      | _, _ => []
      end
  end.

Definition render_pieces_c (args : list carg) (fl : list flow) (ps : list piece) : str :=
  concat (map (render_piece_c args fl) ps).
