(* C04 — model of template inheritance as the generated code runs it.
   Executable definitions only; proofs live in Proofs/InhProofs.v.

   What is mirrored (jinja2 file:function):
   * runtime.new_context / Context.__init__ : blocks = {k: [v]} of the rendered template;
   * compiler.visit_Extends (emitted code): the "extended multiple times" tests,
       parent_template = environment.get_template(..)
       for name, parent_block in parent_template.blocks.items():
           context.blocks.setdefault(name, []).append(parent_block)
     with the compile-time flags has_known_extends / extends_so_far;
   * compiler.visit_Template epilogue: yield from parent_template.root_render_func(context);
   * compiler.visit_Output / visit_Block / visit_Include / visit_CallBlock / visit_FilterBlock at the
     top level of a template that extends:
     not emitted after a known extends, guarded by `parent_template is None` otherwise;
   * compiler.visit_Block call site: scoped => context.derived(locals), required =>
     len(context.blocks[name]) <= 1 test, then context.blocks[name][0](ctx);
   * block function prologue of a required block: raises when it is itself blocks[name][0];
   * runtime.Context.super : blocks.index(current) + 1, Undefined when out of range;
   * runtime.BlockReference.super / __call__ : depth + 1 >= len(stack) => Undefined;
   * runtime.TemplateReference.__getitem__ : BlockReference(name, ctx, blocks[name], 0),
     a missing name ends as Undefined (environment.getattr swallows the KeyError);
   * calling / getattr on Undefined raises UndefinedError.
   A block function is identified by (index of its template in the chain, block name):
   Python compares function objects with `is` / list.index, one object per template and name. *)
From Coq Require Import List NArith Bool Arith.
Import ListNotations.

Definition str := list N.
Definition name := N.
Definition vars := list (name * str).

Inductive item :=
| IText (s : str)                       (* template data *)
| IStmt (s : str)                       (* any other statement that writes s where it stands: include of a
                                           constant template, call block, filter block; a block set / with writes [] *)
| IVar (v : name)                       (* {{ v }} : loop variable or context variable *)
| IBlock (b : name)                     (* {% block b %} call site; body and flags in the block table *)
| ISuper (k : nat)                      (* {{ super() }} (k = 0), {{ super.super() }} (k = 1), ... *)
| ISelf (b : name)                      (* {{ self.b() }} *)
| IFor (iters : list vars) (body : list item).   (* {% for v in [..] %}body{% endfor %}: per iteration the names the
                                                     loop binds (v, and loop.index as a variable of its own) *)

Record bdef := { b_scoped : bool; b_required : bool; b_body : list item }.

(* top level of a template: an item, or {% extends %}: None = at root level (constant or
   dynamic name: has_known_extends), Some c = inside {% if c %} (conditional extends) *)
Inductive top := TItem (i : item) | TExtends (cond : option bool).
Record template := { t_top : list top; t_blocks : list (name * bdef) }.

Definition fid := (nat * name)%type.
Definition blocks := list (name * list fid).     (* context.blocks *)

Inductive err := ERequired | EUndefined | EMultiple | ENotFound | EFuel | EInternal.
Inductive res := Ok (s : str) | Err (e : err).

Fixpoint assoc {A} (k : N) (l : list (N * A)) : option A :=
  match l with [] => None | (k', a) :: r => if N.eqb k' k then Some a else assoc k r end.

Definition fid_eqb (f g : fid) : bool := Nat.eqb (fst f) (fst g) && N.eqb (snd f) (snd g).

(* list.index *)
Fixpoint index_of (f : fid) (l : list fid) : option nat :=
  match l with
  | [] => None
  | g :: r => if fid_eqb g f then Some 0 else match index_of f r with Some i => Some (S i) | None => None end
  end.

Section SeqMap.
  Context {A : Type}.
  Variable f : A -> res.
  (* run in order, concatenate the outputs, the first exception wins *)
  Fixpoint seqmap (l : list A) : res :=
    match l with
    | [] => Ok []
    | a :: r => match f a with
                | Ok o => match seqmap r with Ok o' => Ok (o ++ o') | Err e => Err e end
                | Err e => Err e
                end
    end.
End SeqMap.

Definition lookup_var (v : name) (c : vars) : str :=
  match assoc v c with Some s => s | None => [] end.

(* dict.setdefault(name, []).append(f) *)
Fixpoint setdefault_append (n : name) (f : fid) (B : blocks) : blocks :=
  match B with
  | [] => [(n, [f])]
  | (m, st) :: r => if N.eqb m n then (m, st ++ [f]) :: r else (m, st) :: setdefault_append n f r
  end.

(* the loop emitted by visit_Extends, parent = template number j *)
Definition register (j : nat) (t : template) (B : blocks) : blocks :=
  fold_left (fun B nb => setdefault_append (fst nb) (j, fst nb) B) (t_blocks t) B.

(* Context.__init__ for the rendered template (number 0) *)
Definition init_blocks (t : template) : blocks :=
  map (fun nb => (fst nb, [(0, fst nb)])) (t_blocks t).

(* BlockReference.super applied k times starting at depth d; None = Undefined *)
Fixpoint bref_super (k : nat) (d len : nat) : option nat :=
  match k with
  | O => Some d
  | S k' => if Nat.leb len (d + 1) then None else bref_super k' (d + 1) len
  end.

Section Exec.
  Variable call : fid -> vars -> res.    (* call a block function with a context *)
  Variable B : blocks.                   (* context.blocks (shared by derived contexts) *)
  Variable j : nat.                      (* number of the template whose code runs *)
  Variable t : template.                 (* that template *)
  Variable cur : option name.            (* Some b inside the function block_b *)
  Variable ctx : vars.                   (* the function's `context` argument *)

  Fixpoint exec_item (L : vars) (it : item) {struct it} : res :=
    match it with
    | IText s => Ok s
    | IStmt s => Ok s
    | IVar v => Ok (lookup_var v (L ++ ctx))
    | IBlock b =>
        match assoc b (t_blocks t) with
        | None => Err EInternal
        | Some d =>
            let c' := if b_scoped d then L ++ ctx else ctx in
            match assoc b B with
            | None => Err EInternal                         (* KeyError: cannot happen *)
            | Some st =>
                if b_required d && Nat.leb (length st) 1 then Err ERequired
                else match st with [] => Err EInternal | f :: _ => call f c' end
            end
        end
    | ISuper k =>
        match cur with
        | None => Err EUndefined                            (* `super` is an ordinary undefined name *)
        | Some b =>
            match assoc b B with
            | None => Err EUndefined                        (* LookupError -> Undefined *)
            | Some st =>
                match index_of (j, b) st with
                | None => Err EInternal                     (* ValueError: cannot happen *)
                | Some i =>
                    if Nat.leb (length st) (i + 1) then Err EUndefined     (* blocks[index] IndexError *)
                    else match bref_super k (i + 1) (length st) with
                         | None => Err EUndefined
                         | Some d => match nth_error st d with
                                     | None => Err EInternal
                                     | Some f => call f ctx
                                     end
                         end
                end
            end
        end
    | ISelf b =>
        match assoc b B with
        | None => Err EUndefined
        | Some st => match st with [] => Err EInternal | f :: _ => call f ctx end
        end
    | IFor iters body =>
        seqmap (fun bs => seqmap (exec_item (bs ++ L)) body) iters
    end.

  Definition exec_items (L : vars) (its : list item) : res := seqmap (exec_item L) its.
End Exec.

(* a block function; fuel bounds the depth of nested block-function calls (CPython: the
   recursion limit, RecursionError) *)
Fixpoint run_block (fuel : nat) (whole : list template) (B : blocks) (f : fid) (c : vars) : res :=
  match fuel with
  | O => Err EFuel
  | S fu =>
      match nth_error whole (fst f) with
      | None => Err EInternal
      | Some t =>
          match assoc (snd f) (t_blocks t) with
          | None => Err EInternal
          | Some d =>
              match assoc (snd f) B with
              | None => Err EInternal
              | Some st =>
                  if b_required d && match st with g :: _ => fid_eqb g f | [] => false end
                  then Err ERequired
                  else exec_items (run_block fu whole B) B (fst f) t (Some (snd f)) c [] (b_body d)
              end
          end
      end
  end.

Definition executed (c : option bool) : bool := match c with None => true | Some b => b end.

(* result of the top level of one root function *)
Inductive topres :=
| TDone (out : str) (parent : bool) (B : blocks)
| TErr (e : err).

(* the body of the root function of template j.  known / sofar are the compile-time flags
   has_known_extends / extends_so_far at the point of emission, parent = "parent_template is
   not None" at run time; next = the template get_template returns (None: TemplateNotFound) *)
Fixpoint exec_top (fuel : nat) (whole : list template) (j : nat) (t : template) (next : option template)
    (data : vars) (known : bool) (sofar : nat) (parent : bool) (B : blocks) (acc : str)
    (tops : list top) : topres :=
  match tops with
  | [] => TDone acc parent B
  | TItem it :: r =>
      if known || parent then exec_top fuel whole j t next data known sofar parent B acc r
      else match exec_item (run_block fuel whole B) B j t None data [] it with
           | Ok o => exec_top fuel whole j t next data known sofar parent B (acc ++ o) r
           | Err e => TErr e
           end
  | TExtends c :: r =>
      if known then
        (* raise TemplateRuntimeError("extended multiple times") emitted in place, CompilerExit *)
        if executed c then TErr EMultiple
        else exec_top fuel whole j t next data known sofar parent B acc r
      else if executed c then
        if Nat.ltb 0 sofar && parent then TErr EMultiple
        else match next with
             | None => TErr ENotFound
             | Some tn =>
                 exec_top fuel whole j t next data
                   (match c with None => true | Some _ => false end) (S sofar) true
                   (register (S j) tn B) acc r
             end
      else exec_top fuel whole j t next data known (S sofar) parent B acc r
  end.

(* root function of template number j (= length of the templates already left behind) *)
Fixpoint run_root (fuel : nat) (whole : list template) (j : nat) (rest : list template)
    (data : vars) (B : blocks) : res :=
  match rest with
  | [] => Err ENotFound
  | t :: rest' =>
      match exec_top fuel whole j t (hd_error rest') data false 0 false B [] (t_top t) with
      | TErr e => Err e
      | TDone o parent B' =>
          if parent then
            match run_root fuel whole (S j) rest' data B' with
            | Ok o' => Ok (o ++ o')
            | Err e => Err e
            end
          else Ok o
      end
  end.

(* Template.render of the first template of the chain *)
Definition render (fuel : nat) (chain : list template) (data : vars) : res :=
  match chain with
  | [] => Err ENotFound
  | t0 :: _ => run_root fuel chain 0 chain data (init_blocks t0)
  end.

(* context.blocks when the root function of the last template of the chain has started
   (every template before it having executed its extends): ghost function used to state
   stack_order; the same register / init_blocks as above *)
Fixpoint reg_from (j : nat) (ts : list template) (B : blocks) : blocks :=
  match ts with [] => B | t :: r => reg_from (S j) r (register j t B) end.
Definition blocks_of_chain (chain : list template) : blocks :=
  match chain with [] => [] | t0 :: r => reg_from 1 r (init_blocks t0) end.
Definition stack (B : blocks) (n : name) : list fid :=
  match assoc n B with Some l => l | None => [] end.

(* well-formedness the compiler enforces ("block 'x' defined twice") *)
Fixpoint nodup_names (l : list name) : bool :=
  match l with [] => true | n :: r => negb (existsb (N.eqb n) r) && nodup_names r end.
Definition template_wf (t : template) : bool := nodup_names (map fst (t_blocks t)).
Definition chain_wf (chain : list template) : bool := forallb template_wf chain.
