(* Model of macro argument binding (C06): jinja2.runtime.Macro.__call__ and the part of
   jinja2.compiler.CodeGenerator.macro_body / macro_def that fixes the calling protocol
   between the two.  Executable definitions only; proofs live in Proofs/MacroProofs.v.

   names are N; three names are special.  Values are what the binding rules look at:
   None (kwargs.pop("caller", None) / `caller is None`), the macro object a call block
   passes, undefined objects (with the reason), and opaque data. *)
From Coq Require Import List NArith Bool.
Import ListNotations.
Open Scope N_scope.

Definition name := N.
Definition n_caller : name := 0.
Definition n_kwargs : name := 1.
Definition n_varargs : name := 2.

Inductive undef :=
| UNoCaller                      (* undefined("No caller defined", name="caller") *)
| UNotProvided (p : name)        (* undefined("parameter 'p' was not provided") *)
| UName (n : name).              (* a name that resolves to nothing / a parameter read while missing *)

Inductive value :=
| VNone
| VInt (n : N)
| VMacro                         (* the anonymous macro of a call block *)
| VUndef (u : undef).

Definition kwlist := list (name * value).    (* a dict in insertion order, keys distinct *)

(* what Macro.__call__ puts into the `arguments` list *)
Inductive arg :=
| AVal (v : value)
| AMissing                       (* the `missing` sentinel *)
| ACaller (v : value)
| AKwargs (kw : kwlist)
| AVarargs (vs : list value).

Inductive merr :=
| ETwoCallers                    (* "... two values for the special caller argument" *)
| ENoKeyword (k : name)          (* "takes no keyword argument 'k'" *)
| ETooMany                       (* "takes not more than n argument(s)" *)
| EArity.                        (* CPython: "macro() takes n positional arguments but m were given" *)

Inductive res (A : Type) := Ok (a : A) | Err (e : merr).
Arguments Ok {A} _. Arguments Err {A} _.

(* the Macro object: arguments, catch_kwargs, catch_varargs, caller *)
Record rsig := { r_args : list name; r_kwargs : bool; r_varargs : bool; r_caller : bool }.

(* a call after Python's own argument processing (star-args spliced in) *)
Record call := { c_args : list value; c_kw : kwlist }.

Fixpoint mem (n : name) (l : list name) : bool :=
  match l with [] => false | x :: r => (n =? x) || mem n r end.

(* dict.pop(n) : value of the first (only) entry with key n, and the dict without it *)
Fixpoint kw_pop (n : name) (kw : kwlist) : option value * kwlist :=
  match kw with
  | [] => (None, [])
  | (k, v) :: r =>
      if n =? k then (Some v, r)
      else let '(o, r') := kw_pop n r in (o, (k, v) :: r')
  end.

Definition kw_has (n : name) (kw : kwlist) : bool := mem n (map fst kw).

(* for name in self.arguments[len(arguments):]: try kwargs.pop(name) except KeyError: missing;
   if name == "caller": found_caller = True *)
Fixpoint fill (names : list name) (kw : kwlist) (found : bool) : list arg * kwlist * bool :=
  match names with
  | [] => ([], kw, found)
  | n :: r =>
      let '(o, kw1) := kw_pop n kw in
      let found1 := if n =? n_caller then true else found in
      let '(l, kw2, found2) := fill r kw1 found1 in
      ((match o with Some v => AVal v | None => AMissing end) :: l, kw2, found2)
  end.

Definition caller_value (o : option value) : value :=
  match o with
  | None | Some VNone => VUndef UNoCaller
  | Some v => v
  end.

(* Macro.__call__ from "try to consume the positional arguments" to the _invoke call *)
Definition macro_call (s : rsig) (c : call) : res (list arg) :=
  let argc := length (r_args s) in
  let pos := firstn argc (c_args c) in
  let off := length pos in
  let explicit_caller := mem n_caller (r_args s) in
  let found0 := mem n_caller (firstn off (r_args s)) in
  let '(filled, kw1, found) :=
    if Nat.eqb off argc then ([], c_kw c, explicit_caller)
    else fill (skipn off (r_args s)) (c_kw c) found0 in
  let arguments1 := map AVal pos ++ filled in
  let '(arguments2, kw2) :=
    if r_caller s && negb found then
      let '(o, kw') := kw_pop n_caller kw1 in (arguments1 ++ [ACaller (caller_value o)], kw')
    else (arguments1, kw1) in
  let r3 :=
    if r_kwargs s then Ok (arguments2 ++ [AKwargs kw2])
    else match kw2 with
         | [] => Ok arguments2
         | (k, _) :: _ => if kw_has n_caller kw2 then Err ETwoCallers else Err (ENoKeyword k)
         end in
  match r3 with
  | Err e => Err e
  | Ok arguments3 =>
      if r_varargs s then Ok (arguments3 ++ [AVarargs (skipn argc (c_args c))])
      else if Nat.ltb argc (length (c_args c)) then Err ETooMany
      else Ok arguments3
  end.

(* `@pass_eval_context`: calls from a template arrive with an EvalContext in front, calls
   from Python (Template.module.m(...)) do not; __call__ strips it. *)
Inductive rawarg := REvalCtx (autoescape : bool) | RVal (v : value).
Definition strip_evalctx (default_autoescape : bool) (raw : list rawarg) : bool * list rawarg :=
  match raw with
  | REvalCtx a :: r => (a, r)
  | _ => (default_autoescape, raw)
  end.
Definition raw_value (r : rawarg) : value := match r with RVal v => v | REvalCtx _ => VNone end.
Definition macro_entry (s : rsig) (default_autoescape : bool) (raw : list rawarg) (kw : kwlist)
  : bool * res (list arg) :=
  let '(a, r) := strip_evalctx default_autoescape raw in
  (a, macro_call s {| c_args := map raw_value r; c_kw := kw |}).

(* ---------------------------------------------------------------- compiler side *)

(* default expressions: a constant or a name (parameter of the macro or outer variable) *)
Inductive dexpr := DConst (v : value) | DRef (n : name).

(* a macro definition as macro_body sees it: parameter names, the defaults of the last
   parameters, and which of caller/kwargs/varargs find_undeclared reports for the body *)
Record mdef := {
  d_params : list name;
  d_defaults : list dexpr;
  u_caller : bool; u_kwargs : bool; u_varargs : bool }.

Inductive pyparam := PName (n : name) | PCaller | PKwargs | PVarargs.

Inductive cres := CFail | COk (py : list pyparam) (s : rsig).

(* node.defaults[idx - len(node.args)] raises IndexError *)
Definition no_default (d : mdef) (idx : nat) : bool :=
  Nat.ltb (length (d_defaults d)) (length (d_params d) - idx).

(* for idx, arg in enumerate(node.args): if arg.name == "caller": explicit_caller = idx *)
Fixpoint last_index (n : name) (l : list name) (i : nat) (acc : option nat) : option nat :=
  match l with
  | [] => acc
  | x :: r => last_index n r (S i) (if x =? n then Some i else acc)
  end.

Definition macro_body_sig (d : mdef) : cres :=
  let explicit_caller := last_index n_caller (d_params d) 0 None in
  let skip_kwargs := mem n_kwargs (d_params d) in
  let skip_varargs := mem n_varargs (d_params d) in
  let args0 := map PName (d_params d) in
  let fail :=
    match explicit_caller with
    | Some idx => u_caller d && no_default d idx
    | None => false
    end in
  if fail then CFail else
  let args1 := if u_caller d then
                 match explicit_caller with Some _ => args0 | None => args0 ++ [PCaller] end
               else args0 in
  let acc_kwargs := u_kwargs d && negb skip_kwargs in
  let acc_varargs := u_varargs d && negb skip_varargs in
  let args2 := if acc_kwargs then args1 ++ [PKwargs] else args1 in
  let args3 := if acc_varargs then args2 ++ [PVarargs] else args2 in
  COk args3 {| r_args := d_params d; r_kwargs := acc_kwargs; r_varargs := acc_varargs;
               r_caller := u_caller d |}.

(* does the i-th element Macro.__call__ appends fit the i-th Python parameter? *)
Definition slot_ok (p : pyparam) (a : arg) : bool :=
  match p, a with
  | PName _, AVal _ | PName _, AMissing => true
  | PCaller, ACaller _ => true
  | PKwargs, AKwargs _ => true
  | PVarargs, AVarargs _ => true
  | _, _ => false
  end.

Fixpoint slots_ok (ps : list pyparam) (l : list arg) : bool :=
  match ps, l with
  | [], [] => true
  | p :: ps', a :: l' => slot_ok p a && slots_ok ps' l'
  | _, _ => false
  end.

(* ---------------------------------------------------------------- the function prologue *)

(* local variables of the generated function while the prologue runs: parameter name ->
   value or missing *)
Definition locals := list (name * option value).

Fixpoint lget (n : name) (l : locals) : option (option value) :=
  match l with [] => None | (k, v) :: r => if n =? k then Some v else lget n r end.
Fixpoint lset (n : name) (v : value) (l : locals) : locals :=
  match l with [] => [] | (k, x) :: r => if n =? k then (k, Some v) :: r else (k, x) :: lset n v r end.

Definition outer_env := name -> option value.

(* a Name load inside the macro: a parameter still `missing` reads as undefined
   (parameter_is_undeclared), other names resolve in the enclosing scope at call time *)
Definition eval_default (outer : outer_env) (l : locals) (e : dexpr) : value :=
  match e with
  | DConst v => v
  | DRef n =>
      match lget n l with
      | Some (Some v) => v
      | Some None => VUndef (UName n)
      | None => match outer n with Some v => v | None => VUndef (UName n) end
      end
  end.

(* default of the parameter at index idx: node.defaults[idx - len(node.args)] *)
Definition default_of (d : mdef) (idx : nat) : option dexpr :=
  if no_default d idx then None
  else nth_error (d_defaults d) (length (d_defaults d) - (length (d_params d) - idx)).

(* for idx, arg in enumerate(node.args): if ref is missing: ref = default / undefined(...) *)
Fixpoint prologue_go (d : mdef) (outer : outer_env) (todo : list name) (idx : nat) (l : locals) : locals :=
  match todo with
  | [] => l
  | p :: r =>
      let l' :=
        match lget p l with
        | Some None =>
            match default_of d idx with
            | Some e => lset p (eval_default outer l e) l
            | None => lset p (VUndef (UNotProvided p)) l
            end
        | _ => l
        end in
      prologue_go d outer r (S idx) l'
  end.

Definition arg_local (a : arg) : option value := match a with AVal v => Some v | _ => None end.

(* what the macro body sees *)
Record frame := { f_params : locals; f_caller : option value; f_kwargs : option kwlist;
                  f_varargs : option (list value) }.

Fixpoint find_caller (l : list arg) : option value :=
  match l with [] => None | ACaller v :: _ => Some v | _ :: r => find_caller r end.
Fixpoint find_kwargs (l : list arg) : option kwlist :=
  match l with [] => None | AKwargs v :: _ => Some v | _ :: r => find_kwargs r end.
Fixpoint find_varargs (l : list arg) : option (list value) :=
  match l with [] => None | AVarargs v :: _ => Some v | _ :: r => find_varargs r end.

(* the whole path: compile the definition, call the Macro object, enter the function
   (CPython checks the arity), run the prologue *)
Definition invoke (d : mdef) (outer : outer_env) (c : call) : option (res frame) :=
  match macro_body_sig d with
  | CFail => None
  | COk py s =>
      Some match macro_call s c with
           | Err e => Err e
           | Ok l =>
               if negb (Nat.eqb (length l) (length py)) then Err EArity else
               let n := length (d_params d) in
               let l0 := combine (d_params d) (map arg_local (firstn n l)) in
               Ok {| f_params := prologue_go d outer (d_params d) 0 l0;
                     f_caller := find_caller l; f_kwargs := find_kwargs l;
                     f_varargs := find_varargs l |}
           end
  end.
