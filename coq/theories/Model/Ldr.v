(* C28 — model of jinja2.loaders path handling and loader composition.
   Executable definitions only (no proofs).  Strings are lists of code points.

   split_template_path        loaders.py:25-39   (os.sep / os.path.altsep / os.path.pardir enter as [conv])
   posix_join                 posixpath.join     (used by FileSystemLoader / PackageLoader on every platform)
   posix_normpath             posixpath.normpath (os.path.normpath on POSIX)
   nt_normpath                ntpath.normpath    (os.path.normpath under the Windows convention), incl. splitroot
   fsys / walk / os_isfile    a directory tree as a finite set of files; path resolution the way the
                              kernel does it without symlinks (ENOENT / ENOTDIR as None)
   get_source                 FileSystemLoader, PackageLoader (directory form), DictLoader, ChoiceLoader,
                              PrefixLoader *)
From Coq Require Import List NArith Bool.
Import ListNotations.
Open Scope N_scope.

Definition str := list N.
Definition c_slash : N := 47.
Definition c_bslash : N := 92.
Definition c_dot : N := 46.
Definition c_colon : N := 58.
Definition s_dot : str := [46].
Definition s_dotdot : str := [46; 46].

Fixpoint str_eqb (a b : str) : bool :=
  match a, b with
  | [], [] => true
  | x :: a', y :: b' => (x =? y) && str_eqb a' b'
  | _, _ => false
  end.

(* ---------------------------------------------------------------- separator conventions *)
Record conv := { sep : N; altsep : option N }.
Definition posix : conv := {| sep := 47; altsep := None |}.
Definition nt : conv := {| sep := 92; altsep := Some 47 |}.

Definition is_sep (cv : conv) (x : N) : bool :=
  (x =? sep cv) || match altsep cv with Some a => x =? a | None => false end.

(* Python's  s.split(c)  for a one-character separator: never returns the empty list *)
Fixpoint split_on (c : N) (s : str) : list str :=
  match s with
  | [] => [[]]
  | x :: r => if x =? c then [] :: split_on c r
              else match split_on c r with
                   | h :: t => (x :: h) :: t
                   | [] => [[x]]
                   end
  end.

(* ---------------------------------------------------------------- split_template_path *)
Definition bad_piece (cv : conv) (p : str) : bool := existsb (is_sep cv) p || str_eqb p s_dotdot.
Definition keep_piece (p : str) : bool := negb (str_eqb p []) && negb (str_eqb p s_dot).

Fixpoint stp_go (cv : conv) (pieces : list str) : option (list str) :=
  match pieces with
  | [] => Some []
  | p :: r => if bad_piece cv p then None                      (* raise TemplateNotFound *)
              else match stp_go cv r with
                   | None => None
                   | Some l => if keep_piece p then Some (p :: l) else Some l
                   end
  end.
(* None = TemplateNotFound *)
Definition split_template_path (cv : conv) (name : str) : option (list str) := stp_go cv (split_on c_slash name).

(* what the loaders rely on *)
Definition safe_piece (cv : conv) (p : str) : bool :=
  negb (existsb (is_sep cv) p) && negb (existsb (N.eqb c_slash) p)
  && negb (str_eqb p []) && negb (str_eqb p s_dot) && negb (str_eqb p s_dotdot).

(* ---------------------------------------------------------------- posixpath.join *)
Definition starts_slash (s : str) : bool := match s with x :: _ => x =? c_slash | [] => false end.
Definition ends_slash (s : str) : bool := match rev s with x :: _ => x =? c_slash | [] => false end.
Definition join1 (path b : str) : str :=
  if starts_slash b then b
  else if str_eqb path [] || ends_slash path then path ++ b
  else path ++ c_slash :: b.
Definition posix_join (root : str) (ps : list str) : str := fold_left join1 ps root.

(* ---------------------------------------------------------------- normpath (component fold shared by
   posixpath.normpath and ntpath.normpath); the stack is kept reversed (head = last component) *)
Definition norm_step (rooted : bool) (st : list str) (c : str) : list str :=
  if str_eqb c [] || str_eqb c s_dot then st
  else if negb (str_eqb c s_dotdot) then c :: st
  else match st with
       | [] => if rooted then [] else [c]
       | top :: st' => if str_eqb top s_dotdot then c :: st else st'
       end.
Definition norm_comps (rooted : bool) (comps : list str) : list str := rev (fold_left (norm_step rooted) comps []).

Fixpoint join_with (c : N) (l : list str) : str :=
  match l with
  | [] => []
  | [x] => x
  | x :: r => x ++ c :: join_with c r
  end.

(* number of initial slashes posixpath.normpath keeps: 0, 1, or 2 (exactly two) *)
Definition initial_slashes (p : str) : N :=
  match p with
  | a :: r => if a =? c_slash then
                match r with
                | b :: r2 => if b =? c_slash then
                               match r2 with
                               | c :: _ => if c =? c_slash then 1 else 2
                               | [] => 2
                               end
                             else 1
                | [] => 1
                end
              else 0
  | [] => 0
  end.
Definition posix_parts (p : str) : N * list str :=
  (initial_slashes p, norm_comps (negb (initial_slashes p =? 0)) (split_on c_slash p)).
Definition slashes (n : N) : str := match n with 0 => [] | 1 => [c_slash] | _ => [c_slash; c_slash] end.
Definition render_posix (x : N * list str) : str :=
  match slashes (fst x) ++ join_with c_slash (snd x) with [] => s_dot | s => s end.
Definition posix_normpath (p : str) : str := render_posix (posix_parts p).

(* ---------------------------------------------------------------- ntpath.normpath *)
Definition nt_norm_char (x : N) : N := if x =? c_slash then c_bslash else x.
Fixpoint strip_prefix (d s : str) : option str :=
  match d, s with
  | [], _ => Some s
  | x :: d', y :: s' => if x =? y then strip_prefix d' s' else None
  | _ :: _, [] => None
  end.
(* index of the first [c] at position >= start, counting from [i] *)
Fixpoint find_from (c : N) (s : str) (start i : N) : option N :=
  match s with
  | [] => None
  | x :: r => if (start <=? i) && (x =? c) then Some i else find_from c r start (i + 1)
  end.
Definition upper_ascii (x : N) : N := if (97 <=? x) && (x <=? 122) then x - 32 else x.
Definition unc_prefix : str := [92; 92; 63; 92; 85; 78; 67; 92].     (* \\?\UNC\ *)
Definition takeN (n : N) (s : str) : str := firstn (N.to_nat n) s.
Definition dropN (n : N) (s : str) : str := skipn (N.to_nat n) s.

(* splitroot on a path whose altsep has already been replaced: (drive, root, tail) *)
Definition nt_splitroot (p : str) : str * str * str :=
  match p with
  | a :: r1 =>
      if a =? c_bslash then
        match r1 with
        | b :: _ =>
            if b =? c_bslash then
              let start := if str_eqb (map upper_ascii (takeN 8 p)) unc_prefix then 8 else 2 in
              match find_from c_bslash p start 0 with
              | None => (p, [], [])
              | Some index =>
                  match find_from c_bslash p (index + 1) 0 with
                  | None => (p, [], [])
                  | Some index2 => (takeN index2 p, takeN 1 (dropN index2 p), dropN (index2 + 1) p)
                  end
              end
            else ([], [a], r1)
        | [] => ([], [a], r1)
        end
      else
        match r1 with
        | b :: r2 =>
            if b =? c_colon then
              match r2 with
              | c :: r3 => if c =? c_bslash then ([a; b], [c], r3) else ([a; b], [], r2)
              | [] => ([a; b], [], [])
              end
            else ([], [], p)
        | [] => ([], [], p)
        end
  | [] => ([], [], [])
  end.
(* (prefix = drive ++ root, normalised components of the tail) *)
Definition nt_parts (path : str) : str * list str :=
  let p := map nt_norm_char path in
  match nt_splitroot p with
  | (drive, root, tail) =>
      (drive ++ root, norm_comps (negb (str_eqb root [])) (split_on c_bslash tail))
  end.
Definition render_nt (x : str * list str) : str :=
  match fst x, snd x with
  | [], [] => s_dot
  | pre, comps => pre ++ join_with c_bslash comps
  end.
Definition nt_normpath (p : str) : str := render_nt (nt_parts p).

(* ---------------------------------------------------------------- a directory tree *)
(* a file system = finite set of regular files, each a component path from the tree root
   with a content id; directories are the proper prefixes of file paths (and the root) *)
Definition node := list str.
Definition fsys := list (node * N).

Fixpoint node_eqb (a b : node) : bool :=
  match a, b with
  | [], [] => true
  | x :: a', y :: b' => str_eqb x y && node_eqb a' b'
  | _, _ => false
  end.
(* a is a proper prefix of b *)
Fixpoint proper_prefix (a b : node) : bool :=
  match a, b with
  | [], _ :: _ => true
  | x :: a', y :: b' => str_eqb x y && proper_prefix a' b'
  | _, _ => false
  end.
Fixpoint fs_file (fs : fsys) (p : node) : option N :=
  match fs with
  | [] => None
  | (q, c) :: r => if node_eqb q p then Some c else fs_file r p
  end.
Definition fs_isdir (fs : fsys) (p : node) : bool := existsb (fun qc => proper_prefix p (fst qc)) fs || node_eqb p [].
Definition fs_exists (fs : fsys) (p : node) : bool :=
  fs_isdir fs p || match fs_file fs p with Some _ => true | None => false end.

(* resolve components from node [cur]; None = ENOENT / ENOTDIR *)
Fixpoint walk (fs : fsys) (cur : node) (cs : list str) : option node :=
  match cs with
  | [] => Some cur
  | c :: r =>
      if negb (fs_isdir fs cur) then None
      else if str_eqb c [] || str_eqb c s_dot then walk fs cur r
      else if str_eqb c s_dotdot then walk fs (removelast cur) r
      else if fs_exists fs (cur ++ [c]) then walk fs (cur ++ [c]) r else None
  end.
(* the current directory is the tree root, as is "/" *)
Definition fs_resolve (fs : fsys) (path : str) : option node :=
  match path with [] => None | _ => walk fs [] (split_on c_slash path) end.
Definition os_read (fs : fsys) (path : str) : option N :=
  match fs_resolve fs path with Some n => fs_file fs n | None => None end.
Definition os_isfile (fs : fsys) (path : str) : bool :=
  match os_read fs path with Some _ => true | None => false end.

(* ---------------------------------------------------------------- loaders *)
Inductive loader :=
| LFs (searchpath : list str)
| LPkg (template_root : str)                     (* PackageLoader, package installed as a directory *)
| LDict (m : list (str * N))
| LChoice (ls : list loader)
| LPrefix (delim : str) (m : list (str * loader)).

(* opened = the path string handed to open(); filename = second element of get_source's result *)
Inductive res :=
| NotFound
| Found (opened : option str) (filename : option str) (content : N).

Fixpoint fs_first (fs : fsys) (sps : list str) (ps : list str) : res :=
  match sps with
  | [] => NotFound
  | sp :: r => let f := posix_join sp ps in
               match os_read fs f with
               | Some c => Found (Some f) (Some (posix_normpath f)) c
               | None => fs_first fs r ps
               end
  end.

Fixpoint dict_get (m : list (str * N)) (n : str) : option N :=
  match m with
  | [] => None
  | (k, c) :: r => if str_eqb k n then Some c else dict_get r n
  end.

(* template.split(delimiter, 1): (before, after) of the first occurrence *)
Fixpoint find_split (d n : str) : option (str * str) :=
  match strip_prefix d n with
  | Some rest => Some ([], rest)
  | None => match n with
            | [] => None
            | x :: r => match find_split d r with
                        | Some (a, b) => Some (x :: a, b)
                        | None => None
                        end
            end
  end.
(* None = ValueError (empty separator, or fewer than two parts to unpack) *)
Definition split_once (d n : str) : option (str * str) :=
  match d with [] => None | _ => find_split d n end.

Section GetSource.
  Variable cv : conv.
  Variable fs : fsys.

  Fixpoint get_source (l : loader) (n : str) : res :=
    match l with
    | LFs sps => match split_template_path cv n with
                 | None => NotFound
                 | Some ps => fs_first fs sps ps
                 end
    | LPkg root => match split_template_path cv n with
                   | None => NotFound
                   | Some ps => let p := posix_normpath (posix_join root ps) in
                                match os_read fs p with
                                | Some c => Found (Some p) (Some p) c
                                | None => NotFound
                                end
                   end
    | LDict m => match dict_get m n with Some c => Found None None c | None => NotFound end
    | LChoice ls =>
        (fix go (ls : list loader) : res :=
           match ls with
           | [] => NotFound
           | l' :: r => match get_source l' n with NotFound => go r | x => x end
           end) ls
    | LPrefix d m =>
        match split_once d n with
        | None => NotFound
        | Some (p, rest) =>
            (fix go (m : list (str * loader)) : res :=
               match m with
               | [] => NotFound                                    (* KeyError *)
               | (q, l') :: r => if str_eqb q p then get_source l' rest else go r
               end) m
        end
    end.
End GetSource.
