(* Model of jinja2.environment.TemplateStream / Template.generate / render (C10).
   Executable definitions only; proofs live in Proofs/StreamProofs.v. *)
From Coq Require Import List NArith Bool.
Import ListNotations.

Definition str := list N.           (* code points *)

Definition nonempty (s : str) : bool := match s with [] => false | _ => true end.

(* "".join(pieces) *)
Fixpoint concat (ps : list str) : str :=
  match ps with [] => [] | p :: r => p ++ concat r end.

(* TemplateStream._buffered_generator(size).
   State of the Python loop: buf (reversed), c_size.  The Python code is
     while True:
       try:
         while c_size < size: c = next(gen); push(c); if c: c_size += 1
       except StopIteration:
         if not c_size: return
       yield concat(buf); del buf[:]; c_size = 0
   [size] is a nat here because it is the requested chunk size, a small number,
   and it is compared only with the counter c. *)
Fixpoint buffered_go (size : nat) (buf : list str) (c : nat) (ps : list str) : list str :=
  match ps with
  | [] => if Nat.eqb c 0 then [] else [concat (rev buf)]
  | x :: r =>
      let buf' := x :: buf in
      let c' := if nonempty x then S c else c in
      if Nat.ltb c' size then buffered_go size buf' c' r
      else concat (rev buf') :: buffered_go size [] 0 r
  end.

Inductive res (A : Type) := Ok (a : A) | ValueError.
Arguments Ok {A} _. Arguments ValueError {A}.

(* TemplateStream.enable_buffering(size) followed by exhausting the stream. *)
Definition stream_buffered (size : nat) (ps : list str) : res (list str) :=
  if Nat.leb size 1 then ValueError else Ok (buffered_go size [] 0 ps).

(* The same loop keeping the groups of pieces instead of their concatenation
   (ghost structure used to state the chunk-size half of the property). *)
Fixpoint groups_go (size : nat) (buf : list str) (c : nat) (ps : list str) : list (list str) :=
  match ps with
  | [] => if Nat.eqb c 0 then [] else [rev buf]
  | x :: r =>
      let buf' := x :: buf in
      let c' := if nonempty x then S c else c in
      if Nat.ltb c' size then groups_go size buf' c' r
      else rev buf' :: groups_go size [] 0 r
  end.

(* pieces the unbuffered generator dropped: trailing empty pieces after the last
   full chunk (they contribute no text). *)
Definition count_nonempty (g : list str) : nat := length (filter nonempty g).

(* Entry points.  A template's root render function yields [pieces]. *)
Definition render (pieces : list str) : str := concat pieces.
Definition generate (pieces : list str) : list str := pieces.
Definition stream_unbuffered (pieces : list str) : list str := pieces.
(* TemplateStream.dump(fp): fp.writelines(stream) — text target *)
Definition dump_text (chunks : list str) : str := concat chunks.
(* TemplateModule.__str__ : concat(self._body_stream) with _body_stream = list(root(ctx)) *)
Definition module_str (pieces : list str) : str := concat pieces.

(* dump with an encoding: each chunk is encoded separately and written. *)
Section Enc.
  Variable B : Type.
  Variable enc : str -> list B.
  Fixpoint dump_enc (chunks : list str) : list B :=
    match chunks with [] => [] | c :: r => enc c ++ dump_enc r end.
End Enc.
