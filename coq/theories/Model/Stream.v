(* Model of jinja2.environment.TemplateStream / Template.generate / render (C10).
   Executable definitions only; proofs live in Proofs/StreamProofs.v. *)
From Coq Require Import List NArith Bool.
Import ListNotations.

Definition str := list N.           (* code points *)

Definition nonempty (s : str) : bool := match s with [] => false | _ => true end.

(* "".join(pieces) *)
Fixpoint concat (ps : list str) : str :=
  match ps with [] => [] | p :: r => p ++ concat r end.

(* TemplateStream._buffered_generator(size).
   State of the Python loop: buf (reversed), c_size.  The Python code is
     while True:
       try:
         while c_size < size: c = next(gen); push(c); if c: c_size += 1
       except StopIteration:
         if not c_size: return
       yield concat(buf); del buf[:]; c_size = 0
   [size] is a nat here because it is the requested chunk size, a small number,
   and it is compared only with the counter c. *)
Fixpoint buffered_go (size : nat) (buf : list str) (c : nat) (ps : list str) : list str :=
  match ps with
  | [] => if Nat.eqb c 0 then [] else [concat (rev buf)]
  | x :: r =>
      let buf' := x :: buf in
      let c' := if nonempty x then S c else c in
      if Nat.ltb c' size then buffered_go size buf' c' r
      else concat (rev buf') :: buffered_go size [] 0 r
  end.

Inductive res (A : Type) := Ok (a : A) | ValueError.
Arguments Ok {A} _. Arguments ValueError {A}.

(* TemplateStream.enable_buffering(size) followed by exhausting the stream. *)
Definition stream_buffered (size : nat) (ps : list str) : res (list str) :=
  if Nat.leb size 1 then ValueError else Ok (buffered_go size [] 0 ps).

(* The same loop keeping the groups of pieces instead of their concatenation
   (ghost structure used to state the chunk-size half of the property). *)
Fixpoint groups_go (size : nat) (buf : list str) (c : nat) (ps : list str) : list (list str) :=
  match ps with
  | [] => if Nat.eqb c 0 then [] else [rev buf]
  | x :: r =>
      let buf' := x :: buf in
      let c' := if nonempty x then S c else c in
      if Nat.ltb c' size then groups_go size buf' c' r
      else rev buf' :: groups_go size [] 0 r
  end.

(* pieces the unbuffered generator dropped: trailing empty pieces after the last
   full chunk (they contribute no text). *)
Definition count_nonempty (g : list str) : nat := length (filter nonempty g).

(* Entry points.  A template's root render function yields [pieces]. *)
Definition render (pieces : list str) : str := concat pieces.
Definition generate (pieces : list str) : list str := pieces.
Definition stream_unbuffered (pieces : list str) : list str := pieces.
(* TemplateStream.dump(fp): fp.writelines(stream) — text target *)
Definition dump_text (chunks : list str) : str := concat chunks.
(* TemplateModule.__str__ : concat(self._body_stream) with _body_stream = list(root(ctx)) *)
Definition module_str (pieces : list str) : str := concat pieces.

(* dump with an encoding (after the fix: commit): ONE incremental encoder for the whole stream;
   each chunk is fed to it in turn, then the encoder is flushed (encode("", final=True)).
   The encoder is an abstract state machine: [feed st c] gives the new state and the bytes
   emitted for c, [flush st] the bytes emitted at the end. *)
Section Enc.
  Variables (B St : Type).
  Variable feed : St -> str -> St * list B.
  Variable flush : St -> list B.
  Fixpoint dump_feed (st : St) (chunks : list str) : St * list B :=
    match chunks with
    | [] => (st, [])
    | c :: r => let '(st1, x) := feed st c in let '(st2, y) := dump_feed st1 r in (st2, x ++ y)
    end.
  Definition dump_enc (st0 : St) (chunks : list str) : list B :=
    let '(st, x) := dump_feed st0 chunks in x ++ flush st.
  (* encoding a whole text with a fresh encoder *)
  Definition encode_all (st0 : St) (text : str) : list B :=
    let '(st, x) := feed st0 text in x ++ flush st.
End Enc.

(* ---- operation histories on one TemplateStream: enable_buffering(n), disable_buffering(), next().
   The stream object keeps the underlying generator (the pieces not yet consumed) and the current
   mode; enable_buffering creates a fresh buffered generator over what is left, whose local buffer is
   empty whenever it is suspended at a yield, so switching modes between two next() calls loses nothing. *)

(* one chunk of the buffered generator and the pieces left; None when no non-empty piece is left
   (the generator returns; the trailing empty pieces are consumed) *)
Fixpoint next_chunk_go (size : nat) (buf : list str) (c : nat) (ps : list str) : option (str * list str) :=
  match ps with
  | [] => if Nat.eqb c 0 then None else Some (concat (rev buf), [])
  | x :: r =>
      let buf' := x :: buf in
      let c' := if nonempty x then S c else c in
      if Nat.ltb c' size then next_chunk_go size buf' c' r else Some (concat (rev buf'), r)
  end.
Definition next_chunk (size : nat) (ps : list str) : option (str * list str) := next_chunk_go size [] 0 ps.

Inductive sop := OEnable (n : nat) | ODisable | ONext.
Inductive sout := SChunk (s : str) | SStop | SValueError | SNone.
Record sstate := { mode : option nat; rest : list str }.

Definition sstep (st : sstate) (o : sop) : sstate * sout :=
  match o with
  | OEnable n => if Nat.leb n 1 then (st, SValueError) else ({| mode := Some n; rest := rest st |}, SNone)
  | ODisable => ({| mode := None; rest := rest st |}, SNone)
  | ONext =>
      match mode st with
      | None => match rest st with
                | [] => (st, SStop)
                | p :: r => ({| mode := None; rest := r |}, SChunk p)
                end
      | Some n => match next_chunk n (rest st) with
                  | None => ({| mode := Some n; rest := [] |}, SStop)
                  | Some (c, r) => ({| mode := Some n; rest := r |}, SChunk c)
                  end
      end
  end.

Fixpoint srun (st : sstate) (ops : list sop) : sstate * list sout :=
  match ops with
  | [] => (st, [])
  | o :: r => let '(st1, x) := sstep st o in let '(st2, xs) := srun st1 r in (st2, x :: xs)
  end.

Definition out_text (o : sout) : str := match o with SChunk s => s | _ => [] end.

(* iterating what is left of the stream to the end *)
Definition sdrain (st : sstate) : list str :=
  match mode st with None => rest st | Some n => buffered_go n [] 0 (rest st) end.
