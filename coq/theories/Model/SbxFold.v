(* Model of compile-time constant folding of attribute / subscript chains rooted at a template
   literal (nodes.Getattr.as_const, nodes.Getitem.as_const) for C17.  Executable definitions only.

   def as_const(self, eval_ctx=None):
       if self.ctx != "load": raise Impossible()
       eval_ctx = get_eval_context(self, eval_ctx)
       try:
           return eval_ctx.environment.getattr(self.node.as_const(eval_ctx), self.attr)
       except Exception as e:
           raise Impossible() from e
   (Getitem alike with environment.getitem and self.arg.as_const.)  The folded value replaces the
   expression in the generated code, so it must be what the sandbox would hand out at run time. *)
From Coq Require Import List Bool String ZArith.
Import ListNotations.
From JV Require Import Model.SbxAttr Model.SbxAccess.

Inductive cexpr :=
  | CLit (v : value)                       (* a literal of the template: str, number, list, dict, tuple *)
  | CAttr (e : cexpr) (a : string)         (* e.a *)
  | CItem (e : cexpr) (k : key).           (* e[k], k a constant *)

Fixpoint root (e : cexpr) : value :=
  match e with CLit v => v | CAttr e _ | CItem e _ => root e end.

(* None = Impossible (not folded; the expression is compiled to run-time code) *)
Fixpoint as_const (tb : tables) (e : cexpr) : option value :=
  match e with
  | CLit v => Some v
  | CAttr e a =>
      match as_const tb e with
      | None => None
      | Some o => match sandbox_getattr tb o a with RRaise _ => None | r => value_of r end
      end
  | CItem e k =>
      match as_const tb e with
      | None => None
      | Some o => match sandbox_getitem tb o k with RRaise _ => None | r => value_of r end
      end
  end.

(* what the run-time code environment.getattr(environment.getattr(lit, a1), a2)... yields *)
Inductive rt := RtVal (v : value) | RtRaise (e : exn).
Fixpoint run_chain (tb : tables) (e : cexpr) : rt :=
  match e with
  | CLit v => RtVal v
  | CAttr e a =>
      match run_chain tb e with
      | RtRaise x => RtRaise x
      | RtVal o => match sandbox_getattr tb o a with
                   | RRaise x => RtRaise x
                   | r => match value_of r with Some v => RtVal v | None => RtRaise EUndefinedError end
                   end
      end
  | CItem e k =>
      match run_chain tb e with
      | RtRaise x => RtRaise x
      | RtVal o => match sandbox_getitem tb o k with
                   | RRaise x => RtRaise x
                   | r => match value_of r with Some v => RtVal v | None => RtRaise EUndefinedError end
                   end
      end
  end.
