(* C33: model of jinja2.ext.InternationalizationExtension ({% trans %} blocks).
   _parse_block (% -> %%, {{ name }} -> %(name)s), _trim_whitespace, _make_node (old style:
   MarkSafeIfAutoescape(call) % dict, %% un-doubling when no formatting happens; new style:
   keyword arguments, num / context defaults), %-formatting restricted to %(name)s and %%,
   the gettext call made at run time and what extract_from_ast reports for it.
   Executable definitions only. *)
From Coq Require Import List NArith ZArith Bool.
From JV Require Import Model.EscMarkup.
Import ListNotations.
Open Scope N_scope.

Definition PCT : N := 37.   (* % *)
Definition LPAR : N := 40.
Definition RPAR : N := 41.
Definition CH_s : N := 115.

Inductive piece := PText (s : str) | PVar (name : str).

(* data.replace("%", "%%") *)
Definition escape_percent (s : str) : str := replace1 PCT [PCT; PCT] s.

Definition piece_fmt (p : piece) : str :=
  match p with
  | PText s => escape_percent s
  | PVar nm => PCT :: LPAR :: nm ++ [RPAR; CH_s]
  end.
(* InternationalizationExtension._parse_block: the format string of a block *)
Definition parse_block (b : list piece) : str := concat (map piece_fmt b).

(* string equality / association lists keyed by strings *)
Fixpoint str_eqb (a b : str) : bool :=
  match a, b with
  | [], [] => true
  | x :: a', y :: b' => (x =? y) && str_eqb a' b'
  | _, _ => false
  end.
Fixpoint slookup {A : Type} (k : str) (l : list (str * A)) : option A :=
  match l with [] => None | (k', v) :: r => if str_eqb k k' then Some v else slookup k r end.

(* fmt % mapping, for format strings using only %% and %(name)s; anything else is an error
   (ValueError / TypeError / KeyError in Python) *)
Inductive fstate := SNorm | SPct | SName (acc : str) | SConv (name : str).
Fixpoint fmt_go (st : fstate) (vars : list (str * str)) (s : str) : option str :=
  match s with
  | [] => match st with SNorm => Some [] | _ => None end
  | c :: r =>
      match st with
      | SNorm => if c =? PCT then fmt_go SPct vars r
                 else match fmt_go SNorm vars r with Some o => Some (c :: o) | None => None end
      | SPct => if c =? PCT then match fmt_go SNorm vars r with Some o => Some (PCT :: o) | None => None end
                else if c =? LPAR then fmt_go (SName []) vars r else None
      | SName acc => if c =? RPAR then fmt_go (SConv (rev acc)) vars r else fmt_go (SName (c :: acc)) vars r
      | SConv nm => if c =? CH_s then
                      match slookup nm vars with
                      | Some v => match fmt_go SNorm vars r with Some o => Some (v ++ o) | None => None end
                      | None => None
                      end
                    else None
      end
  end.
Definition pyformat (fmt : str) (vars : list (str * str)) : option str := fmt_go SNorm vars fmt.

(* str.replace("%%", "%") *)
Definition undouble (s : str) : str := str_replace s [PCT; PCT] [PCT].

(* _trim_whitespace: _ws_re.sub(" ", s.strip()) with _ws_re = \s*(?:\r\n|\r|\n)\s* : every whitespace run
   that contains a line break becomes one space (ASCII whitespace; the ties generate ASCII) *)
(* a line break: \n or \r (the pattern is \s*(?:\r\n|\r|\n)\s* since fix 4387583) *)
Definition is_nl (c : N) : bool := (c =? 10) || (c =? 13).
Definition is_ws (c : N) : bool := ((9 <=? c) && (c <=? 13)) || ((28 <=? c) && (c <=? 32)).
Fixpoint lstrip (s : str) : str :=
  match s with [] => [] | c :: r => if is_ws c then lstrip r else s end.
Definition strip (s : str) : str := rev (lstrip (rev (lstrip s))).
Definition flush (run : str) (nl : bool) : str := if nl then [32] else rev run.
Fixpoint collapse (run : str) (nl : bool) (s : str) : str :=
  match s with
  | [] => flush run nl
  | c :: r => if is_ws c then collapse (c :: run) (nl || is_nl c) r
              else flush run nl ++ c :: collapse [] false r
  end.
Definition trim_ws (s : str) : str := collapse [] false (strip s).

Definition fmt_of (trim : bool) (b : list piece) : str :=
  let f := parse_block b in if trim then trim_ws f else f.

Inductive style := OldStyle | NewStyle.

(* values as the % operator sees them: Markup % d escapes them, str % d does not *)
Definition vals (ae : bool) (vars : list (str * tstr)) : list (str * str) :=
  map (fun p => (fst p, if ae then esc_str (snd p) else raw (snd p))) vars.

(* the text a call produces with an identity translation of [msg] *)
Definition render_msg (st : style) (ae : bool) (msg : str) (vars : list (str * tstr)) : option str :=
  match st, vars with
  | OldStyle, [] => Some msg                     (* no Mod node; msg was un-doubled by _make_node *)
  | _, _ => pyformat msg (vals ae vars)
  end.

(* decimal rendering of the count is done by the harness/driver: [numtxt] is str(n) *)
Definition s_num : str := [110; 117; 109].                       (* "num" *)
Definition s_context : str := [99; 111; 110; 116; 101; 120; 116]. (* "context" *)

Definition setdefault (k : str) (v : tstr) (vars : list (str * tstr)) : list (str * tstr) :=
  match slookup k vars with Some _ => vars | None => vars ++ [(k, v)] end.

(* variables as the gettext function finally formats with *)
Definition final_vars (st : style) (ctx : option str) (num : option str) (vars : list (str * tstr))
  : list (str * tstr) :=
  match st with
  | OldStyle => vars
  | NewStyle =>
      let v1 := match ctx with Some c => setdefault s_context (Plain c) vars | None => vars end in
      match num with Some n => setdefault s_num (Plain n) v1 | None => v1 end
  end.

(* the constant message strings _make_node puts into the call *)
Definition msg_of (st : style) (trim : bool) (vars : list (str * tstr)) (b : list piece) : str :=
  let f := fmt_of trim b in
  match st, vars with OldStyle, [] => undouble f | _, _ => f end.

Record call := { c_ctx : option str; c_sing : str; c_plur : option str }.

Definition trans_call (st : style) (trim : bool) (ctx : option str) (sing : list piece)
           (plur : option (list piece)) (vars : list (str * tstr)) : call :=
  {| c_ctx := ctx; c_sing := msg_of st trim vars sing;
     c_plur := match plur with Some p => Some (msg_of st trim vars p) | None => None end |}.

(* ngettext with identity translations *)
Definition choose (n_is_one : bool) (s p : str) : str := if n_is_one then s else p.

(* rendering of a whole trans block; [count] = (n == 1, str(n)) when the block has a plural *)
Definition render_trans (st : style) (ae trim : bool) (ctx : option str) (sing : list piece)
           (plur : option (list piece)) (count : option (bool * str)) (vars : list (str * tstr)) : option str :=
  let c := trans_call st trim ctx sing plur vars in
  match c_plur c, count with
  | Some p, Some (one, numtxt) =>
      render_msg st ae (choose one (c_sing c) p) (final_vars st ctx (Some numtxt) vars)
  | None, _ => render_msg st ae (c_sing c) (final_vars st ctx None vars)
  | Some _, None => None
  end.

(* the documented result: block text with variables substituted *)
Definition piece_subst (vars : list (str * str)) (p : piece) : option str :=
  match p with PText s => Some s | PVar nm => slookup nm vars end.
Fixpoint subst (vars : list (str * str)) (b : list piece) : option str :=
  match b with
  | [] => Some []
  | p :: r => match piece_subst vars p, subst vars r with
              | Some x, Some y => Some (x ++ y)
              | _, _ => None
              end
  end.

(* extraction: a template is a list of gettext calls, each executed or not at run time;
   extract_from_ast reports every Call node whose function name is a gettext function *)
Definition runtime_calls (t : list (bool * call)) : list call := map snd (filter fst t).
Definition extracted (t : list (bool * call)) : list call := map snd t.
