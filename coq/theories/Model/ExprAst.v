(* Expression pipeline (C02, C08, C20): syntax and value universe.
   Definitions only.  Strings are code-point lists, integers are Z. *)
From Coq Require Import List NArith ZArith Bool.
Import ListNotations.

Definition str := list N.

Fixpoint str_eqb (a b : str) : bool :=
  match a, b with
  | [], [] => true
  | x :: a', y :: b' => N.eqb x y && str_eqb a' b'
  | _, _ => false
  end.

(* what an Undefined object remembers (canonical: the harness prints the same classes) *)
Inductive uhint :=
| UName (n : str)      (* undefined(name=n): a name missing from the context *)
| UAttr (n : str)      (* environment.undefined(obj=o, name=n) with a string name *)
| UItem                (* ... with a non-string subscript *)
| UCond                (* inline if without else evaluated to false *)
| USec (n : str).      (* sandbox: unsafe attribute *)

(* Values.  VObj is a probe object with an attribute map AND an item map; VFun an opaque
   callable (its behaviour is an oracle); VFloat n d stands for the double nearest n/d
   produced by true division (floats are an opaque carrier: no further arithmetic modelled) *)
Inductive value :=
| VInt (z : Z)
| VBool (b : bool)
| VNone
| VStr (s : str)
| VMk (s : str)                       (* markupsafe.Markup *)
| VList (l : list value)
| VTuple (l : list value)
| VDict (kv : list (value * value))
| VObj (id : N) (attrs : list (str * value)) (items : list (value * value))
| VFun (id : N)
| VUndef (h : uhint)
| VFloat (num den : Z).

Inductive binop := Add | Sub | Mul | Div | FloorDiv | Mod | Pow.
Inductive unop := Neg | Pos.
Inductive cmpop := CEq | CNe | CLt | CLe | CGt | CGe | CIn | CNotIn.

Definition binop_eqb (a b : binop) : bool :=
  match a, b with
  | Add, Add | Sub, Sub | Mul, Mul | Div, Div | FloorDiv, FloorDiv | Mod, Mod | Pow, Pow => true
  | _, _ => false
  end.
Definition unop_eqb (a b : unop) : bool :=
  match a, b with Neg, Neg | Pos, Pos => true | _, _ => false end.

(* Jinja expression AST (nodes.py).  Not modelled as syntax: *args / **kwargs in calls,
   keyword arguments of filters and tests, tuples of slices; Slice only as the direct
   argument of a subscript. *)
Inductive expr :=
| EConst (v : value)
| EName (x : str)
| EBin (op : binop) (a b : expr)
| EUn (op : unop) (a : expr)
| ENot (a : expr)
| EAnd (a b : expr)
| EOr (a b : expr)
| EConcat (es : list expr)
| ECompare (a : expr) (ops : list (cmpop * expr))
| ECond (test a : expr) (b : option expr)
| EGetattr (a : expr) (name : str)
| EGetitem (a arg : expr)
| ESlice (a : expr) (lo hi step : option expr)
| EList (es : list expr)
| ETuple (es : list expr)
| EDict (kvs : list (expr * expr))
| ECall (f : expr) (args : list expr) (kwargs : list (str * expr))
| EFilter (a : expr) (name : str) (args : list expr)
| ETest (a : expr) (name : str) (args : list expr).

(* results *)
Inductive err :=
| EType | EZero | EUndef | EKey | EValue | ESec | ECallErr
| ENoFilter            (* unknown filter / test name *)
| EOpaque              (* outside the modelled universe (floats, printf, huge repeats, ...) *)
| EFuel.

Inductive res (A : Type) := Ok (a : A) | Err (e : err).
Arguments Ok {A} _. Arguments Err {A} _.

(* events: sandbox operator hook applications and calls of opaque callables *)
Inductive event :=
| EvBin (op : binop) (l r : value)
| EvUn (op : unop) (a : value)
| EvCall (f : N) (args : list value) (kwargs : list (str * value)).

(* compile-time + run-time configuration of one environment / frame *)
Record cfg := {
  sandboxed : bool;
  ibin : binop -> bool;          (* intercepted_binops *)
  iun : unop -> bool;            (* intercepted_unops *)
  is_async : bool;
  autoescape : bool;             (* frame.eval_ctx.autoescape at compile time *)
  volatile : bool;               (* frame.eval_ctx.volatile *)
  rt_autoescape : bool;          (* context.eval_ctx.autoescape at run time (= autoescape unless volatile) *)
  optimized : bool;
  hook_bin : binop -> value -> value -> res value;   (* environment.call_binop *)
  hook_un : unop -> value -> res value;              (* environment.call_unop *)
}.

(* the autoescape flag in force when the expression runs *)
Definition ae_now (c : cfg) : bool := if volatile c then rt_autoescape c else autoescape c.

(* the state/exception monad: a log of events (most recent first) is threaded *)
Definition M (A : Type) := list event -> res A * list event.
Definition ret {A} (a : A) : M A := fun l => (Ok a, l).
Definition fail {A} (e : err) : M A := fun l => (Err e, l).
Definition bind {A B} (m : M A) (f : A -> M B) : M B :=
  fun l => match m l with (Ok a, l') => f a l' | (Err e, l') => (Err e, l') end.
Definition emit (ev : event) : M unit := fun l => (Ok tt, ev :: l).
Definition lift {A} (r : res A) : M A := fun l => (r, l).
Notation "x <- m ;; f" := (bind m (fun x => f)) (at level 61, m at next level, right associativity).

Fixpoint mapM {A B} (f : A -> M B) (xs : list A) : M (list B) :=
  match xs with
  | [] => ret []
  | x :: r => y <- f x ;; ys <- mapM f r ;; ret (y :: ys)
  end.

Definition optM {A B} (f : A -> M B) (o : option A) : M (option B) :=
  match o with None => ret None | Some a => b <- f a ;; ret (Some b) end.
