(* C24 — models of the HTML-producing filters: MarkupSafe's escape, the replace chain of
   utils.htmlsafe_json_dumps over a JSON string-literal model, do_xmlattr, the skeleton of
   utils.urlize with the URL / e-mail regexes and the punctuation split as parameters,
   do_forceescape, and the plain-argument rows (indent, replace, join, truncate) with a safe
   (Markup) input.  Executable definitions only. *)
From Coq Require Import List NArith ZArith Bool.
Import ListNotations.
From JV Require Import Model.FiltStr.

(* ------------------------------------------------------------------ escape *)
Definition s_amp : str := [38; 97; 109; 112; 59]%N.        (* &amp; *)
Definition s_lt : str := [38; 108; 116; 59]%N.             (* &lt; *)
Definition s_gt : str := [38; 103; 116; 59]%N.             (* &gt; *)
Definition s_q39 : str := [38; 35; 51; 57; 59]%N.          (* &#39; *)
Definition s_q34 : str := [38; 35; 51; 52; 59]%N.          (* &#34; *)
Definition esc1 (c : N) : str :=
  if (c =? 38)%N then s_amp else if (c =? 60)%N then s_lt else if (c =? 62)%N then s_gt
  else if (c =? 39)%N then s_q39 else if (c =? 34)%N then s_q34 else [c].
Definition escape (s : str) : str := flat_map esc1 s.

(* safe / plain strings *)
Inductive tstr := Plain (s : str) | Mk (s : str).
Definition payload (t : tstr) : str := match t with Plain s | Mk s => s end.
(* markupsafe.escape(x): Markup passes through, plain text is escaped *)
Definition escape_t (t : tstr) : str := match t with Plain s => escape s | Mk s => s end.

(* ------------------------------------------------------------------ tojson *)
(* str.replace(c, rep) for a one-character pattern *)
Definition replace_char (c : N) (rep : str) (s : str) : str :=
  flat_map (fun x => if (x =? c)%N then rep else [x]) s.
Definition u003c : str := [92; 117; 48; 48; 51; 99]%N.
Definition u003e : str := [92; 117; 48; 48; 51; 101]%N.
Definition u0026 : str := [92; 117; 48; 48; 50; 54]%N.
Definition u0027 : str := [92; 117; 48; 48; 50; 55]%N.
(* dumps(obj).replace("<", ..).replace(">", ..).replace("&", ..).replace("'", ..) *)
Definition replace4 (s : str) : str :=
  replace_char 39 u0027 (replace_char 38 u0026 (replace_char 62 u003e (replace_char 60 u003c s))).

(* JSON text as json.dumps writes it: structural text and string literals; a literal is a
   list of items: a raw character, a two-character escape, or \uXXXX *)
Inductive item := Raw (c : N) | Esc (c : N) | U (a b c d : N).     (* hex digit values 0..15 *)
Definition hexchar (d : N) : N := if (d <? 10)%N then (48 + d)%N else (87 + d)%N.
Definition render_item (i : item) : str :=
  match i with
  | Raw c => [c]
  | Esc c => [92%N; c]
  | U a b c d => [92%N; 117%N; hexchar a; hexchar b; hexchar c; hexchar d]
  end.
(* the character an item denotes (JSON decoding); simple escapes by their letter *)
Definition decode_item (i : item) : N :=
  match i with
  | Raw c => c
  | Esc c => if (c =? 110)%N then 10 else if (c =? 116)%N then 9 else if (c =? 114)%N then 13
             else if (c =? 98)%N then 8 else if (c =? 102)%N then 12 else c
  | U a b c d => ((a * 16 + b) * 16 + c) * 16 + d
  end%N.
Inductive tok := Punct (s : str) | Lit (items : list item).
Definition render_tok (t : tok) : str :=
  match t with Punct s => s | Lit its => 34%N :: flat_map render_item its ++ [34%N] end.
Definition render_doc (d : list tok) : str := flat_map render_tok d.
Definition decode_tok (t : tok) : tok :=
  match t with Punct s => Punct s | Lit its => Lit (map (fun i => Raw (decode_item i)) its) end.
Definition is_meta (c : N) : bool := ((c =? 60) || (c =? 62) || (c =? 38) || (c =? 39))%N.
(* what the replace chain does, seen on the structure *)
Definition protect_item (i : item) : item :=
  match i with
  | Raw c => if is_meta c then U 0 0 (c / 16) (c mod 16) else Raw c
  | _ => i
  end.
Definition protect_tok (t : tok) : tok :=
  match t with Punct s => Punct s | Lit its => Lit (map protect_item its) end.
(* well-formedness of json.dumps output (the oracle's grammar): structural text has no
   metacharacter, raw characters are neither quote nor backslash, escapes use the JSON letters,
   hex digits are digits *)
Definition item_wf (i : item) : bool :=
  match i with
  | Raw c => negb ((c =? 34) || (c =? 92))%N
  | Esc c => ((c =? 34) || (c =? 92) || (c =? 47) || (c =? 98) || (c =? 102) || (c =? 110) || (c =? 114) || (c =? 116))%N
  | U a b c d => ((a <? 16) && (b <? 16) && (c <? 16) && (d <? 16))%N
  end.
Definition tok_wf (t : tok) : bool :=
  match t with Punct s => forallb (fun c => negb (is_meta c)) s | Lit its => forallb item_wf its end.

(* ------------------------------------------------------------------ xmlattr *)
(* _attr_key_re = [\s/>=] with re.ASCII *)
Definition bad_key_char (c : N) : bool :=
  ((c =? 32) || (c =? 9) || (c =? 10) || (c =? 11) || (c =? 12) || (c =? 13) || (c =? 47) || (c =? 62) || (c =? 61))%N.
Definition attr_text (k : str) (v : tstr) : str := escape k ++ [61; 34]%N ++ escape_t v ++ [34%N].
(* items: key and value; None = the value is None / undefined and the item is skipped *)
Fixpoint xmlattr_items (d : list (str * option tstr)) : option (list str) :=
  match d with
  | [] => Some []
  | (k, None) :: r => xmlattr_items r
  | (k, Some v) :: r =>
      if existsb bad_key_char k then None                     (* ValueError *)
      else match xmlattr_items r with Some l => Some (attr_text k v :: l) | None => None end
  end.
Definition do_xmlattr (d : list (str * option tstr)) (autospace : bool) : option str :=
  match xmlattr_items d with
  | None => None
  | Some items =>
      let rv := join [32%N] items in
      Some (if autospace && nonempty rv then 32%N :: rv else rv)
  end.

(* ------------------------------------------------------------------ urlize skeleton *)
Definition is_ws (c : N) : bool := ((c =? 32) || ((9 <=? c) && (c <=? 13)) || ((28 <=? c) && (c <=? 31)) || (c =? 133) || (c =? 160))%N.
(* re.split(r"(\s+)", text): alternating runs *)
Fixpoint split_runs (cur : str) (cur_ws : bool) (s : str) : list str :=
  match s with
  | [] => [rev cur]
  | c :: r => if Bool.eqb (is_ws c) cur_ws then split_runs (c :: cur) cur_ws r
              else rev cur :: split_runs [c] (is_ws c) r
  end.
Definition words_of (s : str) : list str := split_runs [] false s.

Inductive piece := Text (s : str) | Anchor (href : str) (attrs : str) (inner : str).
Definition render_piece (p : piece) : str :=
  match p with
  | Text s => s
  | Anchor h a t => [60; 97; 32; 104; 114; 101; 102; 61; 34]%N ++ h ++ [34%N] ++ a ++ [62%N] ++ t ++ [60; 47; 97; 62]%N
  end.
Definition s_https : str := [104; 116; 116; 112; 115; 58; 47; 47]%N.
Definition s_http : str := [104; 116; 116; 112; 58; 47; 47]%N.
Definition s_mailto : str := [109; 97; 105; 108; 116; 111; 58]%N.
Fixpoint starts_with (p s : str) : bool :=
  match p, s with
  | [], _ => true
  | x :: p', y :: s' => (x =? y)%N && starts_with p' s'
  | _ :: _, [] => false
  end.
Definition s_rel : str := [32; 114; 101; 108; 61; 34]%N.           (* the rel attribute opener *)
Definition s_target : str := [32; 116; 97; 114; 103; 101; 116; 61; 34]%N.

(* Markup.unescape on text produced by escape: the five entities escape writes *)
Fixpoint unescape_go (fuel : nat) (s : str) : str :=
  match fuel with
  | O => s
  | S f =>
      match s with
      | [] => []
      | c :: r =>
          if starts_with s_amp s then 38%N :: unescape_go f (skipn 4 r)
          else if starts_with s_lt s then 60%N :: unescape_go f (skipn 3 r)
          else if starts_with s_gt s then 62%N :: unescape_go f (skipn 3 r)
          else if starts_with s_q39 s then 39%N :: unescape_go f (skipn 4 r)
          else if starts_with s_q34 s then 34%N :: unescape_go f (skipn 4 r)
          else c :: unescape_go f r
      end
  end.
Definition unescape5 (s : str) : str := unescape_go (length s) s.

Section Urlize.
  (* the regexes and the punctuation trimming are parameters: any behaviour *)
  Variable http_match email_match : str -> bool.
  Variable extra_match : str -> bool.                          (* some extra scheme applies *)
  Variable other_guards : str -> bool.                         (* "@" in middle and ... *)
  Variable split3 : str -> str * str * str.                    (* head, middle, tail *)
  Variable trim_limit : option nat.

  (* trim_url (repo: since the round-9 fix) cuts the text the escaped word stands for and escapes the
     kept part again, so an entity is never split:
       text = Markup(x).unescape(); if len(text) > limit: return f"{escape(text[:limit])}..." *)
  Definition trim_url (x : str) : str :=
    match trim_limit with
    | Some n => let t := unescape5 x in
                if Nat.ltb n (length t) then escape (firstn n t) ++ [46; 46; 46]%N else x
    | None => x
    end.
  Definition attrs_of (rel target : option tstr) : str :=
    (match rel with Some r => s_rel ++ escape_t r ++ [34%N] | None => [] end) ++
    (match target with Some t => s_target ++ escape_t t ++ [34%N] | None => [] end).

  Definition link (rel target : option tstr) (middle : str) : piece :=
    let a := attrs_of rel target in
    if http_match middle then
      if starts_with s_https middle || starts_with s_http middle then Anchor middle a (trim_url middle)
      else Anchor (s_https ++ middle) a (trim_url middle)
    else if starts_with s_mailto middle && email_match (skipn 7 middle) then Anchor middle [] (skipn 7 middle)
    else if other_guards middle && email_match middle then Anchor (s_mailto ++ middle) [] middle
    else if extra_match middle then Anchor middle a middle
    else Text middle.

  Definition urlize_word (rel target : option tstr) (word : str) : list piece :=
    let '(head, middle, tail) := split3 word in [Text head; link rel target middle; Text tail].
  Definition urlize_pieces (text : tstr) (rel target : option tstr) : list piece :=
    flat_map (urlize_word rel target) (words_of (escape_t text)).
  Definition urlize (text : tstr) (rel target : option tstr) : str :=
    flat_map render_piece (urlize_pieces text rel target).
End Urlize.

(* ------------------------------------------------------------------ forceescape and the plain-argument rows *)
Definition do_forceescape (v : tstr) : tstr := Mk (escape (payload v)).

(* do_indent with a Markup input: the width is escaped unless it is Markup itself *)
Definition indent_markup (s : str) (w : tstr) (first blank : bool) : tstr :=
  Mk (do_indent s (WStr (escape_t w)) first blank).
(* Markup.replace(old, new, count=-1): both arguments are escaped *)
Fixpoint replace_all (fuel : nat) (old new s : str) : str :=
  match fuel with
  | O => s
  | S f => match s with
           | [] => []
           | c :: r => if starts_with old s && nonempty old then new ++ replace_all f old new (skipn (length old) s)
                       else c :: replace_all f old new r
           end
  end.
Definition replace_markup (s : str) (old new : tstr) : tstr :=
  Mk (replace_all (S (length s)) (escape_t old) (escape_t new) s).
(* sync_do_join under autoescape with a Markup item or delimiter: everything is escaped *)
Definition join_markup (d : tstr) (xs : list tstr) : tstr := Mk (join (escape_t d) (map escape_t xs)).
(* do_truncate on Markup: s[:n] + end escapes a plain end marker *)
Definition truncate_markup (s : str) (length : Z) (killwords : bool) (end_ : tstr) (leeway : Z) : res tstr :=
  match do_truncate leeway s length killwords [] (Some leeway) with
  | Err e => Err e
  | Ok _ =>
      (* the arithmetic uses len(end) of the plain argument *)
      match do_truncate leeway s length killwords (payload end_) (Some leeway) with
      | Err e => Err e
      | Ok r => if (len s <=? length + leeway)%Z then Ok (Mk s)
                else Ok (Mk (firstn (List.length r - List.length (payload end_)) r ++ escape_t end_))
      end
  end.
