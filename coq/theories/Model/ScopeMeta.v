(* C32 — model of jinja2/meta.py.
   find_undeclared_variables runs the code generator (TrackingCodeGenerator) and collects, in
   enter_frame, the parameter of every `resolve` load that is not an environment global: the
   frames are exactly the ones of Model/ScopeIdTrack.frames_of.
   find_referenced_templates walks Extends / Include / Import / FromImport nodes. *)
From Coq Require Import List NArith ZArith Bool.
Import ListNotations.
From JV Require Import Model.ScopeAst Model.ScopeIdTrack.

Definition resolve_names (s : symbols) : list name :=
  flat_map (fun il => match snd il with LResolve x => [x] | _ => [] end) (s_loads s).
Definition chain_resolves (ch : list symbols) : list name :=
  match ch with [] => [] | s :: _ => resolve_names s end.
(* every name the generated code can pass to resolve() *)
Definition static_resolves (p : list stmt) : list name :=
  flat_map chain_resolves (frames_of (fun l => l) p).
(* meta.find_undeclared_variables (as a list; the real function returns the set) *)
Definition meta_undeclared (globals : list name) (p : list stmt) : list name :=
  filter (fun x => negb (nmem x globals)) (static_resolves p).

(* programs without macro calls / call blocks (fragment of resolves_subset_undeclared) *)
Fixpoint nocall (s : stmt) : bool :=
  let fix go (l : list stmt) : bool := match l with [] => true | x :: r => nocall x && go r end in
  match s with
  | SOut _ | SSet _ _ | SSetAttr _ _ _ | SNsNew _ _ => true
  | SIf _ b ei el => go b && go ei && go el
  | SFor _ _ _ b el => go b && go el
  | SSetBlock _ b | SWith _ b | SFilter _ b | SMacro _ _ b => go b
  | SCallOut _ _ | SCallBlock _ _ _ _ => false
  end.
Fixpoint nocall_l (l : list stmt) : bool :=
  match l with [] => true | x :: r => nocall x && nocall_l r end.

(* ---------------------------------------------------------------- referenced templates *)
Definition tname := list N.
Inductive cval := CStr (s : tname) | COther | CSeq (l : list cval).   (* a constant *)
Inductive titem := IConst (c : cval) | IDyn (x : name).
Inductive texpr :=
| TConst (c : cval)                 (* nodes.Const *)
| TSeq (items : list titem)         (* nodes.Tuple / nodes.List literal *)
| TDyn (x : name)                   (* a variable *)
| TCond (t : name) (a b : titem).   (* e1 if t else e2 (nodes.CondExpr); a branch is a constant or a variable *)
Inductive rkind := KExtends | KInclude | KImport | KFromImport.

(* what one node yields *)
Definition referenced (k : rkind) (t : texpr) : list (option tname) :=
  match t with
  | TSeq items =>
      flat_map (fun it => match it with
                          | IConst (CStr s) => [Some s]
                          | IConst _ => []
                          | IDyn _ => [None]
                          end) items
  | TDyn _ | TCond _ _ _ => [None]
  | TConst (CStr s) => [Some s]
  | TConst (CSeq l) =>
      match k with
      | KInclude => flat_map (fun c => match c with CStr s => [Some s] | _ => [] end) l
      | _ => [None]
      end
  | TConst COther => [None]
  end.

(* the names the runtime asks the loader for: [dv x] is the value of variable x (a template
   name or a list of names), [truth t] its truth value, [have n] whether the loader finds n *)
Section Runtime.
  Variable dv : name -> list tname.
  Variable truth : name -> bool.
  Variable have : tname -> bool.
  Definition candidates (t : texpr) : list tname :=
    match t with
    | TConst (CStr s) => [s]
    | TConst (CSeq l) => flat_map (fun c => match c with CStr s => [s] | _ => [] end) l
    | TConst COther => []
    | TSeq items => flat_map (fun it => match it with
                                        | IConst (CStr s) => [s]
                                        | IConst _ => []
                                        | IDyn x => dv x
                                        end) items
    | TDyn x => dv x
    | TCond t a b =>
        let one it := match it with IConst (CStr s) => [s] | IConst _ => [] | IDyn x => dv x end in
        if truth t then one a else one b
    end.
  (* select_template: ask for the candidates in order until one is found *)
  Fixpoint until_found (l : list tname) : list tname :=
    match l with [] => [] | n :: r => if have n then [n] else n :: until_found r end.
  Definition requested (k : rkind) (t : texpr) : list tname :=
    match k with
    | KInclude => until_found (candidates t)
    | _ => match candidates t with [] => [] | n :: _ => [n] end    (* get_template(name) *)
    end.
End Runtime.
