(* C22 — generic (polymorphic) models of the collection filters of jinja2/filters.py.
   Executable definitions only, written as the loops the Python code runs; the list
   definitions they are compared with live in Spec/FiltCollSpec.v, proofs in
   Proofs/FiltCollProofs.v.  The value-level entry points (attribute paths, keys,
   exceptions) are in Model/FiltCollRun.v. *)
From Coq Require Import List NArith ZArith Bool.
Import ListNotations.

Definition str := list N.           (* code points *)

Inductive exn :=
| ZeroDivisionError | TypeError | UndefinedError | FilterArgumentError
| EModel.                            (* input outside the modelled domain: the tie skips it *)
Inductive res (X : Type) := Ok (x : X) | Err (e : exn).
Arguments Ok {X} _. Arguments Err {X} _.

Section Generic.
  Variable A : Type.

  (* seq[a:b] for 0 <= a (b < a gives []) *)
  Definition pyslice (a b : N) (l : list A) : list A :=
    firstn (N.to_nat (b - a)) (skipn (N.to_nat a) l).

  (* sync_do_slice: the body of `for slice_number in range(slices)`; [todo] counts the
     remaining iterations of range(slices), [i] is slice_number, [offset] the running offset.
       start = offset + slice_number * items_per_slice
       if slice_number < slices_with_extra: offset += 1
       end = offset + (slice_number + 1) * items_per_slice
       tmp = seq[start:end]
       if fill_with is not None and slices_with_extra and slice_number >= slices_with_extra:
           tmp.append(fill_with)                                                           *)
  Fixpoint slice_go (seq : list A) (ips extra : N) (fill : option A)
           (todo : nat) (i offset : N) : list (list A) :=
    match todo with
    | O => []
    | S todo' =>
        let start := (offset + i * ips)%N in
        let offset' := if (i <? extra)%N then (offset + 1)%N else offset in
        let stop := (offset' + (i + 1) * ips)%N in
        let tmp := pyslice start stop seq in
        let tmp' := match fill with
                    | Some x => if negb (extra =? 0)%N && (extra <=? i)%N then tmp ++ [x] else tmp
                    | None => tmp
                    end in
        tmp' :: slice_go seq ips extra fill todo' (i + 1)%N offset'
    end.

  Definition do_slice (slices : Z) (fill : option A) (seq : list A) : res (list (list A)) :=
    if (slices =? 0)%Z then Err ZeroDivisionError          (* length // 0 *)
    else if (slices <? 0)%Z then Ok []                       (* range(negative) is empty *)
    else
      let n := Z.to_N slices in
      let len := N.of_nat (length seq) in
      Ok (slice_go seq (len / n) (len mod n) fill (N.to_nat n) 0 0).

  (* do_batch:  for item in value: if len(tmp) == linecount: yield tmp; tmp = [] ; tmp.append(item)
                if tmp: if fill_with is not None and len(tmp) < linecount: tmp += [fill]*(..) ; yield tmp *)
  Fixpoint batch_go (n : Z) (fill : option A) (tmp : list A) (xs : list A) : list (list A) :=
    match xs with
    | [] =>
        match tmp with
        | [] => []
        | _ =>
            let k := Z.of_nat (length tmp) in
            [match fill with
             | Some x => if (k <? n)%Z then tmp ++ repeat x (Z.to_nat (n - k)) else tmp
             | None => tmp
             end]
        end
    | x :: r =>
        if (Z.of_nat (length tmp) =? n)%Z then tmp :: batch_go n fill [x] r
        else batch_go n fill (tmp ++ [x]) r
    end.
  Definition do_batch (n : Z) (fill : option A) (xs : list A) : list (list A) := batch_go n fill [] xs.

  (* ---------------------------------------------------------------- keyed algorithms *)
  Variable K : Type.
  Variable keqb : K -> K -> bool.
  Variable key : A -> K.

  (* sync_do_unique: seen = set(); for item: key = getter(item); if key not in seen: add; yield *)
  Fixpoint unique_go (seen : list K) (xs : list A) : list A :=
    match xs with
    | [] => []
    | x :: r =>
        let k := key x in
        if existsb (keqb k) seen then unique_go seen r else x :: unique_go (k :: seen) r
    end.
  Definition do_unique (xs : list A) : list A := unique_go [] xs.

  (* itertools.groupby(xs, key): a group runs while key(x) == key of the group's first item *)
  Fixpoint group_go (k : K) (cur : list A) (xs : list A) : list (K * list A) :=
    match xs with
    | [] => [(k, rev cur)]
    | x :: r =>
        if keqb (key x) k then group_go k (x :: cur) r
        else (k, rev cur) :: group_go (key x) [x] r
    end.
  Definition group_adj (xs : list A) : list (K * list A) :=
    match xs with [] => [] | x :: r => group_go (key x) [x] r end.

  (* sorted(xs, key=..) — enters as its specification "a stable sort"; the executable
     stand-in is insertion sort (insert before the first element that is not smaller). *)
  Variable kleb : K -> K -> bool.
  Fixpoint insert (x : A) (l : list A) : list A :=
    match l with
    | [] => [x]
    | y :: r => if kleb (key x) (key y) then x :: l else y :: insert x r
    end.
  Definition sort_by (l : list A) : list A := fold_right insert [] l.

  (* min(xs, key=..) / max(xs, key=..): the first extremum; [first] is the item already
     pulled by _min_or_max *)
  Fixpoint min_go (best : A) (xs : list A) : A :=
    match xs with
    | [] => best
    | x :: r => if negb (kleb (key best) (key x)) then min_go x r else min_go best r
    end.
  Fixpoint max_go (best : A) (xs : list A) : A :=
    match xs with
    | [] => best
    | x :: r => if negb (kleb (key x) (key best)) then max_go x r else max_go best r
    end.

  (* generator loops of map / select / reject (sync: `for item in value`, async:
     `async for item in auto_aiter(value)`); written with an explicit accumulator so that
     they are not literally the library functions they are proved equal to *)
  Variable B : Type.
  Fixpoint map_loop (f : A -> B) (acc : list B) (xs : list A) : list B :=
    match xs with [] => rev acc | x :: r => map_loop f (f x :: acc) r end.
  Fixpoint select_loop (modf : bool -> bool) (p : A -> bool) (acc : list A) (xs : list A) : list A :=
    match xs with
    | [] => rev acc
    | x :: r => if modf (p x) then select_loop modf p (x :: acc) r else select_loop modf p acc r
    end.
  (* do_reverse on a non-reversible iterable: rv = list(value); rv.reverse() *)
  Fixpoint reverse_loop (acc : list A) (xs : list A) : list A :=
    match xs with [] => acc | x :: r => reverse_loop (x :: acc) r end.
  (* next(iter(seq)) / next(iter(reversed(seq))) *)
  Definition first_of (xs : list A) : option A := match xs with [] => None | x :: _ => Some x end.
  Definition last_of (xs : list A) : option A := first_of (reverse_loop [] xs).
  (* auto_to_list: [x async for x in auto_aiter(value)] *)
  Fixpoint to_list_loop (acc : list A) (xs : list A) : list A :=
    match xs with [] => rev acc | x :: r => to_list_loop (x :: acc) r end.
  Definition auto_to_list (xs : list A) : list A := to_list_loop [] xs.
  (* len() as a counter *)
  Fixpoint length_N (xs : list A) : N := match xs with [] => 0%N | _ :: r => N.succ (length_N r) end.
End Generic.

Arguments pyslice {A}. Arguments slice_go {A}. Arguments do_slice {A}. Arguments batch_go {A}.
Arguments do_batch {A}. Arguments unique_go {A K}. Arguments do_unique {A K}.
Arguments group_go {A K}. Arguments group_adj {A K}. Arguments insert {A K}. Arguments sort_by {A K}.
Arguments min_go {A K}. Arguments max_go {A K}. Arguments map_loop {A B}. Arguments select_loop {A}.
Arguments reverse_loop {A}. Arguments first_of {A}. Arguments last_of {A}. Arguments to_list_loop {A}.
Arguments auto_to_list {A}. Arguments length_N {A}.

(* str.join *)
Fixpoint join (d : str) (xs : list str) : str :=
  match xs with
  | [] => []
  | [x] => x
  | x :: r => x ++ d ++ join d r
  end.
