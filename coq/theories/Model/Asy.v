(* C09 — async mode renders what sync mode renders.

   Part 1: a small target language with the async decoration the code generator adds
   (await auto_await(.), async for ... in auto_aiter(.)) and its erasure.
   Part 2: filter chains with iterable kinds, so that a consumer without an async variant fails
   on the async generator a lazy producer returns in async mode, as the real one does.
   Executable definitions only; proofs live in Proofs/AsyProofs.v. *)
From Coq Require Import List ZArith Bool.
Import ListNotations.
Open Scope Z_scope.

(* ---------------------------------------------------------------- part 1 *)
(* values: integers, iterables of integers (plain, or delivered asynchronously: an async
   generator), and awaitables *)
Inductive val := VInt (z : Z) | VSeq (asyncified : bool) (l : list Z) | VCoro (v : val).

Inductive exp :=
| Const (z : Z)
| Var (x : nat)
| Add (a b : exp)
| Call (f : nat) (a : exp)                       (* a data callable *)
| Await (e : exp)                                 (* await auto_await(e) *)
| Sum (is_async : bool) (aiter : bool) (it : exp) (body : exp).
      (* [async] for x in [auto_aiter](it): acc += body   (x is variable 0 in body) *)

(* what the code generator emits in async mode for a program without decoration *)
Fixpoint decorate (e : exp) : exp :=
  match e with
  | Const z => Const z
  | Var x => Var x
  | Add a b => Add (decorate a) (decorate b)
  | Call f a => Await (Call f (decorate a))
  | Await e => Await (decorate e)
  | Sum _ _ it body => Sum true true (decorate it) (decorate body)
  end.

(* erasure of the async decoration *)
Fixpoint erase (e : exp) : exp :=
  match e with
  | Const z => Const z
  | Var x => Var x
  | Add a b => Add (erase a) (erase b)
  | Call f a => Call f (erase a)
  | Await e => erase e
  | Sum _ _ it body => Sum false false (erase it) (erase body)
  end.

Fixpoint plain (e : exp) : bool :=          (* a sync-mode program: no await, no async for *)
  match e with
  | Const _ | Var _ => true
  | Add a b => plain a && plain b
  | Call _ a => plain a
  | Await _ => false
  | Sum asy ai it body => negb asy && negb ai && plain it && plain body
  end.

(* may this loop form iterate this iterable?  a plain for cannot iterate an async generator, an
   async for needs auto_aiter to iterate a plain iterable *)
Definition iter_ok (is_async aiter asyncified : bool) : bool :=
  if is_async then (aiter || asyncified) else negb asyncified.

Section Eval.
  Variable fn : nat -> val -> val.            (* the data callables *)

  Fixpoint sum_body (ev : list val -> option val) (rho : list val) (l : list Z) (acc : Z) : option val :=
    match l with
    | [] => Some (VInt acc)
    | x :: r => match ev (VInt x :: rho) with
                | Some (VInt y) => sum_body ev rho r (acc + y)
                | _ => None
                end
    end.

  Fixpoint eval (rho : list val) (e : exp) : option val :=
    match e with
    | Const z => Some (VInt z)
    | Var x => nth_error rho x
    | Add a b => match eval rho a, eval rho b with
                 | Some (VInt x), Some (VInt y) => Some (VInt (x + y))
                 | _, _ => None                      (* incl. an un-awaited coroutine used as a number *)
                 end
    | Call f a => match eval rho a with Some v => Some (fn f v) | None => None end
    | Await e => match eval rho e with Some (VCoro v) => Some v | r => r end
    | Sum asy ai it body =>
        match eval rho it with
        | Some (VSeq af l) => if iter_ok asy ai af then sum_body (fun r => eval r body) rho l 0 else None
        | _ => None
        end
    end.
End Eval.

(* data wrapped for async mode: iterables become async generators, callables coroutine functions *)
Definition wrapv (v : val) : val := match v with VSeq _ l => VSeq true l | _ => v end.
Definition unwrapv (v : val) : val := match v with VSeq _ l => VSeq false l | _ => v end.
Definition wrap_fn (fn : nat -> val -> val) : nat -> val -> val := fun f v => VCoro (wrapv (fn f (unwrapv v))).

(* values a sync program handles: numbers and plain iterables *)
Definition sync_val (v : val) : bool := match v with VInt _ => true | VSeq a _ => negb a | VCoro _ => false end.

(* ---------------------------------------------------------------- part 2: filter chains *)
Inductive filt :=
| FMapAbs | FSelectOdd | FRejectOdd            (* lazy producers: generator / async generator *)
| FList | FFirst | FSum | FJoin | FUnique | FSlice1   (* have an @async_variant *)
| FSort | FMax | FMin | FReverse | FBatch1            (* got one in /repo f6c81fd, a69269b, d4b3a53, fe6bb48 *)
| FLength.                                             (* no async variant (fails on any generator, in both modes) *)

Definition has_async_variant (f : filt) : bool :=
  match f with
  | FMapAbs | FSelectOdd | FRejectOdd | FList | FFirst | FSum | FJoin | FUnique | FSlice1
  | FSort | FMax | FMin | FReverse | FBatch1 => true
  | FLength => false
  end.
(* in async mode the result is an async generator *)
Definition lazy_producer (f : filt) : bool :=
  match f with FMapAbs | FSelectOdd | FRejectOdd => true | _ => false end.
(* in sync mode the result is a generator (no len()) *)
Definition sync_generator (f : filt) : bool :=
  match f with FMapAbs | FSelectOdd | FRejectOdd | FUnique => true | _ => false end.

Fixpoint insert (x : Z) (l : list Z) : list Z :=
  match l with [] => [x] | y :: r => if Z.leb x y then x :: l else y :: insert x r end.
Fixpoint isort (l : list Z) : list Z := match l with [] => [] | x :: r => insert x (isort r) end.
Fixpoint dedupe (seen l : list Z) : list Z :=
  match l with
  | [] => []
  | x :: r => if existsb (Z.eqb x) seen then dedupe seen r else x :: dedupe (x :: seen) r
  end.
Fixpoint zmax (l : list Z) (m : Z) : Z := match l with [] => m | x :: r => zmax r (if Z.ltb m x then x else m) end.
Fixpoint zmin (l : list Z) (m : Z) : Z := match l with [] => m | x :: r => zmin r (if Z.ltb x m then x else m) end.

(* results: a list of items, a scalar, undefined, or an error *)
Inductive res := RItems (l : list Z) | RScalar (z : Z) | RUndef | RNested (l : list (list Z)) | RErr.

(* the item-level meaning of each filter (the same function in both modes: the async variants are
   the sync implementations after auto_to_list, or the same loop with awaits) *)
Definition sem (f : filt) (l : list Z) : res :=
  match f with
  | FMapAbs => RItems (map Z.abs l)
  | FSelectOdd => RItems (filter Z.odd l)
  | FRejectOdd => RItems (filter (fun x => negb (Z.odd x)) l)
  | FList => RItems l
  | FFirst => match l with [] => RUndef | x :: _ => RScalar x end
  | FSum => RScalar (fold_left Z.add l 0)
  | FJoin => RItems l
  | FUnique => RItems (dedupe [] l)
  | FSlice1 => RNested [l]
  | FSort => RItems (isort l)
  | FMax => match l with [] => RUndef | x :: r => RScalar (zmax r x) end
  | FMin => match l with [] => RUndef | x :: r => RScalar (zmin r x) end
  | FReverse => RItems (rev l)
  | FBatch1 => RNested (map (fun x => [x]) l)
  | FLength => RScalar (Z.of_nat (length l))
  end.

(* kind of the current value: a sized sequence, a (sync) generator, an async generator *)
Inductive kind := KSeq | KGen | KAGen.

(* can filter f consume a value of kind k?  reverse and length need a sized sequence or fall back /
   fail as the real ones do: reverse falls back to list(value) for generators, length fails on any
   generator; a filter without async variant fails on an async generator *)
Definition accepts (f : filt) (k : kind) : bool :=
  match k with
  | KSeq => true
  | KGen => match f with FLength => false | _ => true end
  | KAGen => has_async_variant f
  end.

(* kind of the result.  reverse hands back a reversed() iterator for a sized sequence and, for a
   generator, falls back to list(value) reversed in place: a list *)
Definition out_kind (is_async : bool) (f : filt) (k : kind) : kind :=
  match f with
  | FReverse => match k with KSeq => KGen | _ => KSeq end
  | FBatch1 | FSlice1 | FUnique => KGen
  | FMapAbs | FSelectOdd | FRejectOdd => if is_async then KAGen else KGen
  | _ => KSeq
  end.

(* run a chain on a list input; only items-to-items filters may be followed by another filter *)
Fixpoint run_chain (is_async : bool) (k : kind) (l : list Z) (c : list filt) : res :=
  match c with
  | [] => RItems l
  | f :: r =>
      if accepts f k then
        match sem f l, r with
        | RItems l', _ => run_chain is_async (out_kind is_async f k) l' r
        | x, [] => x
        | _, _ :: _ => RErr
        end
      else RErr
  end.

(* the guard of the partial theorem: no filter without an async variant consumes the result of a
   lazy producer *)
Fixpoint chain_guard (prev_lazy : bool) (c : list filt) : bool :=
  match c with
  | [] => true
  | f :: r => (negb prev_lazy || has_async_variant f) && chain_guard (lazy_producer f) r
  end.
