(* C25 — the template cache over LAYERED loaders: a loader is an ordered list of layers (the
   search paths of a FileSystemLoader, the members of a ChoiceLoader); a name resolves to the
   first layer that has it.  Executable definitions only.

   up-to-date closures
     LFs      FileSystemLoader.get_source after fix 3f4facf (loaders.py): no earlier search path has the
              file AND the resolved file still carries the mtime (= version) seen at load time
     LChoice  ChoiceLoader.load hands out the template of the member that served it, with that MEMBER's
              closure only (DictLoader: source equality in that member) — earlier members are not asked
   _load_template / select_template are those of Model/Tc.v with the loader lookup replaced by the layered
   resolution; the cache (none / dict / LRU) is Model/Tc.v's. *)
From Coq Require Import List NArith ZArith Bool.
Import ListNotations.
From JV Require Import Model.LRU Model.Tc.
Open Scope N_scope.

Definition layer := name -> option version.
Definition layers := list layer.

(* first layer (index counted from i) that has the name *)
Fixpoint eff (ls : layers) (n : name) (i : N) : option (N * version) :=
  match ls with
  | [] => None
  | l :: r => match l n with Some v => Some (i, v) | None => eff r n (i + 1) end
  end.
Definition layer_get (ls : layers) (i : N) (n : name) : option version :=
  match nth_error ls (N.to_nat i) with Some l => l n | None => None end.
Definition lacks (n : name) (l : layer) : bool := match l n with Some _ => false | None => true end.

Inductive lupt := LFs | LChoice.

Record ltpl := { lt_name : name; lt_layer : N; lt_ver : version }.

Record lenv := {
  l_auto : bool;
  l_upt : lupt;
  l_cache : cache_t;
  l_layers : layers;
  l_heap : tid -> ltpl;
  l_next : tid }.

Definition new_lenv (ar : bool) (u : lupt) (size : Z) (ls : layers) : lenv :=
  {| l_auto := ar; l_upt := u; l_cache := create_cache size; l_layers := ls;
     l_heap := fun _ => {| lt_name := 0; lt_layer := 0; lt_ver := 0 |}; l_next := 1 |}.

Definition l_up_to_date (e : lenv) (t : tid) : bool :=
  let tp := l_heap e t in
  match l_upt e with
  | LFs => forallb (lacks (lt_name tp)) (firstn (N.to_nat (lt_layer tp)) (l_layers e))
           && opt_eqb (layer_get (l_layers e) (lt_layer tp) (lt_name tp)) (Some (lt_ver tp))
  | LChoice => opt_eqb (layer_get (l_layers e) (lt_layer tp) (lt_name tp)) (Some (lt_ver tp))
  end.

Definition lset_cache (e : lenv) (c : cache_t) : lenv :=
  {| l_auto := l_auto e; l_upt := l_upt e; l_cache := c; l_layers := l_layers e; l_heap := l_heap e; l_next := l_next e |}.

Definition lreload (e : lenv) (c1 : cache_t) (n : name) : lenv * result :=
  match eff (l_layers e) n 0 with
  | None => (lset_cache e c1, RNotFound)
  | Some (i, v) =>
      let t := l_next e in
      let '(c2, ok) := cache_set c1 n t in
      ({| l_auto := l_auto e; l_upt := l_upt e; l_cache := c2; l_layers := l_layers e;
          l_heap := fun t' => if t' =? t then {| lt_name := n; lt_layer := i; lt_ver := v |} else l_heap e t';
          l_next := t + 1 |},
       if ok then RTpl t v else RCrash)
  end.

Definition lload (e : lenv) (n : name) : lenv * result :=
  let '(c1, r) := cache_get (l_cache e) n in
  match r with
  | CCrash => (lset_cache e c1, RCrash)
  | CHit t => if negb (l_auto e) || l_up_to_date e t
              then (lset_cache e c1, RTpl t (lt_ver (l_heap e t)))
              else lreload e c1 n
  | CMiss => lreload e c1 n
  end.

Fixpoint lselect (e : lenv) (ns : list name) : lenv * result :=
  match ns with
  | [] => (e, RNotFound)
  | n :: r => match lload e n with
              | (e', RNotFound) => lselect e' r
              | x => x
              end
  end.

Inductive lop :=
| LGet (n : name)
| LSelect (ns : list name)
| LPut (j : N) (n : name) (v : version)      (* add / modify the source in layer j *)
| LDel (j : N) (n : name).                   (* delete it from layer j *)

Fixpoint upd_layer (ls : layers) (j : nat) (n : name) (v : option version) : layers :=
  match ls, j with
  | [], _ => []
  | l :: r, O => put l n v :: r
  | l :: r, S j' => l :: upd_layer r j' n v
  end.

Definition lset_layers (e : lenv) (ls : layers) : lenv :=
  {| l_auto := l_auto e; l_upt := l_upt e; l_cache := l_cache e; l_layers := ls; l_heap := l_heap e; l_next := l_next e |}.

Definition lstep (e : lenv) (o : lop) : lenv * out :=
  match o with
  | LGet n => let '(e', r) := lload e n in (e', OutR r (cache_len (l_cache e')))
  | LSelect ns => let '(e', r) := lselect e ns in (e', OutR r (cache_len (l_cache e')))
  | LPut j n v => (lset_layers e (upd_layer (l_layers e) (N.to_nat j) n (Some v)), OutUnit)
  | LDel j n => (lset_layers e (upd_layer (l_layers e) (N.to_nat j) n None), OutUnit)
  end.

Fixpoint lrun (e : lenv) (h : list lop) : lenv * list out :=
  match h with
  | [] => (e, [])
  | o :: r => let '(e', x) := lstep e o in let '(e'', xs) := lrun e' r in (e'', x :: xs)
  end.

(* the layers after a history of source changes *)
Fixpoint layers_after (ls : layers) (h : list lop) : layers :=
  match h with
  | [] => ls
  | LPut j n v :: r => layers_after (upd_layer ls (N.to_nat j) n (Some v)) r
  | LDel j n :: r => layers_after (upd_layer ls (N.to_nat j) n None) r
  | _ :: r => layers_after ls r
  end.

(* guard of the ChoiceLoader theorem: sources are only ever added to / modified in the LAST member *)
Fixpoint puts_only_last (nl : nat) (h : list lop) : bool :=
  match h with
  | [] => true
  | LPut j _ _ :: r => (N.to_nat j + 1 =? nl)%nat && puts_only_last nl r
  | _ :: r => puts_only_last nl r
  end.
