(* C29 / C37 — a concrete, executable instance of Model/FramesSched.v.

   The value functions of steps are given by a small expression language over named heap cells,
   and the cache function G is a concrete one (the module `{% set v = g<k> + 1 %}`: the value a
   module-cache cell k is meant to hold is env-global k plus 1).  [denote] maps these concrete
   steps to the steps of FramesSched; what the OCaml driver runs is FramesSched.run_sched on the
   denotation - the very function the C29 / C37 theorems are about.
   Executable definitions only; proofs live in Proofs/FramesExecProofs.v. *)
From Coq Require Import List NArith Bool.
Import ListNotations.
From JV Require Import Model.Frames Model.FramesSched.
Open Scope N_scope.

Inductive cexp :=
| CConst (n : N)
| CRead (l : loc)              (* a cell of a read-only region: data, environment globals, template globals *)
| COwn (cell : N)              (* a cell of the render's own region *)
| CAdd (a b : cexp)
| CThrough (c : loc).          (* read a cache cell through: its content, or G c if it is still empty *)

Inductive cstep :=
| CPriv (cell : N) (e : cexp)        (* {% set p = e %} / an output chunk: store into the render's own region *)
| CFill (c : loc)                    (* {% import %}: fill the module cache once *)
| CData (cell : N) (e : cexp)        (* a store into the caller's data (outside the footprint) *)
| CCacheW (c : loc) (e : cexp).      (* a plain store into a cache cell (outside the footprint) *)

Definition Gc (c : loc) (h : heap) : N := h (EnvGlobals, snd c) + 1.

Fixpoint ceval (e : cexp) (v : view) (h : heap) : N :=
  match e with
  | CConst n => n
  | CRead l => h l
  | COwn n => v n
  | CAdd a b => ceval a v h + ceval b v h
  | CThrough c => if N.eqb (h c) 0 then Gc c h else h c
  end.

Definition denote (st : cstep) : pstep :=
  match st with
  | CPriv n e => PPriv n (ceval e)
  | CFill c => PFill c
  | CData n e => PData n (ceval e)
  | CCacheW c e => PCacheWrite c (ceval e)
  end.
Definition denote_sched (s : list (N * cstep)) : list (N * pstep) := map (fun ts => (fst ts, denote (snd ts))) s.

(* well-formed: plain reads only of read-only regions, caches only read through / filled *)
Fixpoint cexp_wf (e : cexp) : bool :=
  match e with
  | CConst _ | COwn _ => true
  | CRead l => ro l
  | CAdd a b => cexp_wf a && cexp_wf b
  | CThrough c => is_cache c
  end.
Definition cstep_wf (st : cstep) : bool :=
  match st with CPriv _ e => cexp_wf e | CFill c => is_cache c | CData _ _ | CCacheW _ _ => false end.
Definition csched_wf (s : list (N * cstep)) : bool := forallb (fun ts => cstep_wf (snd ts)) s.

(* the initial heap from a finite list of cells (everything else 0) *)
Fixpoint heap_of (init : list (loc * N)) : heap :=
  match init with
  | [] => fun _ => 0
  | (l, v) :: r => upd (heap_of r) l v
  end.

(* what the driver computes: the heap after the schedule, at the queried cells *)
Definition crun (init : list (loc * N)) (s : list (N * cstep)) (queries : list loc) : list N :=
  let h := run_sched Gc (denote_sched s) (heap_of init) in map h queries.
