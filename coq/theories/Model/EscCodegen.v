(* C15 / C16: the decision table of the code generator's OUTPUT PATH, regenerated from the current
   compiler.py / runtime.py by gen/esc_translate.py on every check, and the predicate over it
   that the evaluator of Model/EscLang2.v relies on.  Executable definitions only. *)
From Coq Require Import List Bool.
From JV Require Import Model.EscMarkup Model.EscLang2.
Import ListNotations.

(* wrapper written around an output child / a filter block's result *)
Inductive ow := WEscape | WStr | WSel.            (* escape( , str( , (escape if ctx.autoescape else str)( *)
(* how a buffer / a pair of operands is combined: Markup(concat(buf)) / markup_join, plain concat /
   str_join, or selected by context.eval_ctx.autoescape at run time *)
Inductive bw := BMarkup | BPlain | BSel.
(* wrapper of a set block's value *)
Inductive aw := AMarkupSel | AEscSel.             (* (Markup|escape if ctx.autoescape else identity)( *)
(* compile-time folding of a constant output child *)
Inductive cf := CImpossible | CFold (escaped viafinalize : bool).

Record facts := {
  f_out : list (bool * bool * ow);                      (* volatile, autoescape *)
  f_out_balanced : bool;                                (* _output_child_post closes what _pre opened *)
  f_tdata_no_finalize : bool;                           (* a TemplateData child is never wrapped in finalize *)
  f_const : list (bool * bool * bool * bool * cf);      (* volatile, autoescape, TemplateData, env.finalize *)
  f_fblock : list (bool * bool * ow);
  f_fbuf : list (bool * bool * bw);
  f_retbuf : list (bool * bool * bool * bw);            (* force_unescaped, volatile, autoescape *)
  f_assign_plain : aw;
  f_assign_filter : aw;
  f_concat : list (bool * bool * bw);
  f_macro_forced : bool;                                (* macro_body returns the buffer unescaped *)
  f_macro_default_rt : bool;                            (* Macro(..., context.eval_ctx.autoescape) *)
  f_callblock : list (bool * bool * ow);                (* wrapper around the result of a call block's call *)
  f_invoke : list (bool * bool);                        (* Macro._invoke: autoescape -> wraps in Markup *)
  f_blockref : list (bool * bool)                       (* BlockReference.__call__ *)
}.

Fixpoint find2 {A : Type} (l : list (bool * bool * A)) (x y : bool) : option A :=
  match l with [] => None | (a, b, v) :: r => if Bool.eqb a x && Bool.eqb b y then Some v else find2 r x y end.
Fixpoint find1 {A : Type} (l : list (bool * A)) (x : bool) : option A :=
  match l with [] => None | (a, v) :: r => if Bool.eqb a x then Some v else find1 r x end.

(* is escaping in effect for code compiled under (volatile, autoescape) and run with flag rt *)
Definition mode_on (vol ae rt : bool) : bool := if vol then rt else ae.

Definition ow_on (w : ow) (rt : bool) : bool := match w with WEscape => true | WStr => false | WSel => rt end.
Definition bw_on (w : bw) (rt : bool) : bool := match w with BMarkup => true | BPlain => false | BSel => rt end.

Definition ow_sem (w : ow) (rt : bool) (v : tstr) : str := out_piece (ow_on w rt) v.
Definition bw_sem (w : bw) (rt : bool) (o : str) : tstr := wrap (bw_on w rt) o.
Definition join_sem (w : bw) (rt : bool) (a b : tstr) : tstr :=
  if bw_on w rt then markup_join [a; b] else str_join [a; b].
Definition aw_sem (w : aw) (rt : bool) (v : tstr) : tstr :=
  match w with AMarkupSel => if rt then Mk (raw v) else v | AEscSel => if rt then esc v else v end.

Definition bools : list bool := [false; true].
Definition all2 (p : bool -> bool -> bool) : bool := forallb (fun x => forallb (p x) bools) bools.

Definition ow_tbl_ok (t : list (bool * bool * ow)) : bool :=
  all2 (fun vol ae => match find2 t vol ae with
                      | Some w => forallb (fun rt => Bool.eqb (ow_on w rt) (mode_on vol ae rt)) bools
                      | None => false end).
Definition bw_tbl_ok (t : list (bool * bool * bw)) : bool :=
  all2 (fun vol ae => match find2 t vol ae with
                      | Some w => forallb (fun rt => Bool.eqb (bw_on w rt) (mode_on vol ae rt)) bools
                      | None => false end).
(* a constant may be folded only outside volatile frames, and then escaped exactly when autoescape
   is on; template data never goes through finalize *)
Definition const_row_ok (r : bool * bool * bool * bool * cf) : bool :=
  let '(vol, ae, td, _, c) := r in
  match c with
  | CImpossible => true
  | CFold esc fin => negb vol && Bool.eqb esc ae && negb (td && fin)
  end.
Definition retbuf_ok (t : list (bool * bool * bool * bw)) : bool :=
  (* the forced rows (macro and call-block bodies) return the plain concatenation *)
  forallb (fun r : bool * bool * bool * bw => let '(forced, vol, ae, w) := r in
                    if forced then match w with BPlain => true | _ => false end
                    else forallb (fun rt => Bool.eqb (bw_on w rt) (mode_on vol ae rt)) bools) t
  && Nat.eqb (length t) 8.
Definition flag_tbl_ok (t : list (bool * bool)) : bool :=
  forallb (fun rt => match find1 t rt with Some b => Bool.eqb b rt | None => false end) bools.

Definition facts_ok (f : facts) : bool :=
  ow_tbl_ok (f_out f) && f_out_balanced f && f_tdata_no_finalize f &&
  forallb const_row_ok (f_const f) && Nat.eqb (length (f_const f)) 16 &&
  ow_tbl_ok (f_fblock f) && bw_tbl_ok (f_fbuf f) && retbuf_ok (f_retbuf f) &&
  match f_assign_plain f with AMarkupSel => true | AEscSel => false end &&
  match f_assign_filter f with AEscSel => true | AMarkupSel => false end &&
  bw_tbl_ok (f_concat f) &&
  f_macro_forced f && f_macro_default_rt f && ow_tbl_ok (f_callblock f) &&
  flag_tbl_ok (f_invoke f) && flag_tbl_ok (f_blockref f).

(* the compile-time mode descriptors of EscLang2 as (volatile, autoescape) pairs *)
Definition ce_vol (ce : cexp) : bool := match ce with CVol => true | _ => false end.
Definition ce_ae (ae : BinNums.N -> bool) (ce : cexp) : bool :=
  match ce with CTop tid => ae tid | CConst b => b | CVol => false end.
