(* Model of how the code generator routes attribute access, subscripts, calls, filters and tests
   (compiler.visit_Getattr / visit_Getitem / visit_Slice / visit_Call / visit_Filter / visit_Test /
   signature), shared by C17 (codegen_no_raw_attr) and C18 (calls_gated).
   Executable definitions only.

   The target language is the *routing level* of the generated Python: an access / call on a
   template value is either one of the engine entry points (environment.getattr, environment.getitem,
   environment.call, context.call, a filter / test function t_<n>) or a raw Python operation
   ([TRawAttr], [TRawSub], [TDirectCall]).  The generator below never emits the raw forms; they
   exist so that the theorems (and the scan of the real generated code, which maps real Python
   to this language) can say so. *)
From Coq Require Import List Bool String.
Import ListNotations.
Open Scope string_scope.

(* ---- source: Jinja expressions (nodes.Expr subclasses that matter for routing) *)
Inductive expr :=
  | EName (n : string)
  | EConst (c : string)
  | EGetattr (e : expr) (a : string)                      (* e.a *)
  | EGetitem (e : expr) (i : expr)                        (* e[i], i not a slice *)
  | ESlice (e : expr) (lo hi st : option expr)            (* e[lo:hi:st] *)
  | ECall (f : expr) (args : list expr) (kw : list (string * expr)) (dyn dynkw : option expr)
  | EFilter (name : string) (e : expr) (args : list expr) (kw : list (string * expr))
  | ETest (name : string) (e : expr) (args : list expr)
  | EOp (op : string) (es : list expr).   (* operators, comparisons, conditionals, list / tuple / dict
                                             displays, concatenation: children are visited, nothing routed *)

(* ---- target *)
Inductive texpr :=
  | TVar (n : string)                                     (* l_<level>_<name> reference *)
  | TConst (c : string)
  | TEnvGetattr (e : texpr) (a : string)                  (* environment.getattr(e, 'a') *)
  | TEnvGetitem (e : texpr) (i : texpr)                   (* environment.getitem(e, i) *)
  | TSlice (e : texpr) (lo hi st : option texpr)          (* e[lo:hi:st] — raw, slices only *)
  | TEnvCall (f : texpr) (args : list texpr) (kw : list (string * texpr)) (star dstar : option texpr)
                                                          (* environment.call(context, f, ...) *)
  | TCtxCall (f : texpr) (args : list texpr) (kw : list (string * texpr)) (star dstar : option texpr)
                                                          (* context.call(f, ...) — unsandboxed *)
  | TFilter (name : string) (e : texpr) (args : list texpr) (kw : list (string * texpr))
  | TTest (name : string) (e : texpr) (args : list texpr)
  | TOp (op : string) (es : list texpr)
  | TAwait (e : texpr)                                    (* (await auto_await(e)) *)
  | TRawAttr (e : texpr) (a : string)                     (* e.a on a template value: never emitted *)
  | TRawSub (e : texpr) (i : texpr)                       (* e[i] on a template value: never emitted *)
  | TDirectCall (f : texpr) (args : list texpr).          (* f(...) on a template value: never emitted *)

Record mode := mkMode { sandboxed : bool; is_async : bool }.

Definition aw (m : mode) (t : texpr) : texpr := if is_async m then TAwait t else t.

Fixpoint gen (m : mode) (e : expr) : texpr :=
  match e with
  | EName n => TVar n
  | EConst c => TConst c
  | EGetattr e a => aw m (TEnvGetattr (gen m e) a)
  | EGetitem e i => aw m (TEnvGetitem (gen m e) (gen m i))
  | ESlice e lo hi st => TSlice (gen m e) (option_map (gen m) lo) (option_map (gen m) hi) (option_map (gen m) st)
  | ECall f args kw dyn dynkw =>
      let f' := gen m f in
      let args' := map (gen m) args in
      let kw' := map (fun p => match p with (k, v) => (k, gen m v) end) kw in
      let dyn' := option_map (gen m) dyn in
      let dynkw' := option_map (gen m) dynkw in
      aw m (if sandboxed m then TEnvCall f' args' kw' dyn' dynkw' else TCtxCall f' args' kw' dyn' dynkw')
  | EFilter name e args kw =>
      aw m (TFilter name (gen m e) (map (gen m) args) (map (fun p => match p with (k, v) => (k, gen m v) end) kw))
  | ETest name e args => aw m (TTest name (gen m e) (map (gen m) args))
  | EOp op es => TOp op (map (gen m) es)
  end.

(* ---- predicates over targets *)
Definition oall {A} (f : A -> bool) (o : option A) : bool := match o with Some x => f x | None => true end.

(* no raw attribute access / raw non-slice subscript / direct call on a template value *)
Fixpoint no_raw (t : texpr) : bool :=
  match t with
  | TVar _ | TConst _ => true
  | TEnvGetattr e _ => no_raw e
  | TEnvGetitem e i => no_raw e && no_raw i
  | TSlice e lo hi st => no_raw e && oall no_raw lo && oall no_raw hi && oall no_raw st
  | TEnvCall f args kw star dstar | TCtxCall f args kw star dstar =>
      no_raw f && forallb no_raw args && forallb (fun p => no_raw (snd p)) kw && oall no_raw star && oall no_raw dstar
  | TFilter _ e args kw => no_raw e && forallb no_raw args && forallb (fun p => no_raw (snd p)) kw
  | TTest _ e args => no_raw e && forallb no_raw args
  | TOp _ es => forallb no_raw es
  | TAwait e => no_raw e
  | TRawAttr _ _ | TRawSub _ _ | TDirectCall _ _ => false
  end.

(* every call of a template value goes through environment.call: no context.call, no direct call *)
Fixpoint gated (t : texpr) : bool :=
  match t with
  | TVar _ | TConst _ => true
  | TEnvGetattr e _ => gated e
  | TEnvGetitem e i => gated e && gated i
  | TSlice e lo hi st => gated e && oall gated lo && oall gated hi && oall gated st
  | TEnvCall f args kw star dstar =>
      gated f && forallb gated args && forallb (fun p => gated (snd p)) kw && oall gated star && oall gated dstar
  | TCtxCall _ _ _ _ _ => false
  | TFilter _ e args kw => gated e && forallb gated args && forallb (fun p => gated (snd p)) kw
  | TTest _ e args => gated e && forallb gated args
  | TOp _ es => forallb gated es
  | TAwait e => gated e
  | TRawAttr e _ => gated e
  | TRawSub e i => gated e && gated i
  | TDirectCall _ _ => false
  end.

Definition sum_list (l : list nat) : nat := fold_right Nat.add 0 l.
Definition osum {A} (f : A -> nat) (o : option A) : nat := match o with Some x => f x | None => 0 end.

(* number of Call nodes of a source expression *)
Fixpoint count_calls (e : expr) : nat :=
  match e with
  | EName _ | EConst _ => 0
  | EGetattr e _ => count_calls e
  | EGetitem e i => count_calls e + count_calls i
  | ESlice e lo hi st => count_calls e + osum count_calls lo + osum count_calls hi + osum count_calls st
  | ECall f args kw dyn dynkw =>
      1 + count_calls f + sum_list (map count_calls args) + sum_list (map (fun p => count_calls (snd p)) kw)
        + osum count_calls dyn + osum count_calls dynkw
  | EFilter _ e args kw => count_calls e + sum_list (map count_calls args) + sum_list (map (fun p => count_calls (snd p)) kw)
  | ETest _ e args => count_calls e + sum_list (map count_calls args)
  | EOp _ es => sum_list (map count_calls es)
  end.

(* number of environment.call(...) gates of a target *)
Fixpoint count_gates (t : texpr) : nat :=
  match t with
  | TVar _ | TConst _ => 0
  | TEnvGetattr e _ => count_gates e
  | TEnvGetitem e i => count_gates e + count_gates i
  | TSlice e lo hi st => count_gates e + osum count_gates lo + osum count_gates hi + osum count_gates st
  | TEnvCall f args kw star dstar =>
      1 + count_gates f + sum_list (map count_gates args) + sum_list (map (fun p => count_gates (snd p)) kw)
        + osum count_gates star + osum count_gates dstar
  | TCtxCall f args kw star dstar =>
      count_gates f + sum_list (map count_gates args) + sum_list (map (fun p => count_gates (snd p)) kw)
        + osum count_gates star + osum count_gates dstar
  | TFilter _ e args kw => count_gates e + sum_list (map count_gates args) + sum_list (map (fun p => count_gates (snd p)) kw)
  | TTest _ e args => count_gates e + sum_list (map count_gates args)
  | TOp _ es => sum_list (map count_gates es)
  | TAwait e => count_gates e
  | TRawAttr e _ => count_gates e
  | TRawSub e i => count_gates e + count_gates i
  | TDirectCall f args => count_gates f + sum_list (map count_gates args)
  end.

(* ---- canonical text of a target (compared with the skeleton extracted from the real
   generated Python by harness/sbx_codegen.py) *)
Definition sep (l : list string) : string := String.concat "," l.
Definition oshow {A} (f : A -> string) (o : option A) : string := match o with Some x => f x | None => "_" end.

Fixpoint show (t : texpr) : string :=
  match t with
  | TVar n => "V(" ++ n ++ ")"
  | TConst c => "C(" ++ c ++ ")"
  | TEnvGetattr e a => "GA(" ++ show e ++ "," ++ a ++ ")"
  | TEnvGetitem e i => "GI(" ++ show e ++ "," ++ show i ++ ")"
  | TSlice e lo hi st => "SL(" ++ show e ++ "," ++ oshow show lo ++ "," ++ oshow show hi ++ "," ++ oshow show st ++ ")"
  | TEnvCall f args kw star dstar =>
      "ENVCALL(" ++ show f ++ ";" ++ sep (map show args) ++ ";"
        ++ sep (map (fun p => fst p ++ "=" ++ show (snd p)) kw) ++ ";" ++ oshow show star ++ ";" ++ oshow show dstar ++ ")"
  | TCtxCall f args kw star dstar =>
      "CTXCALL(" ++ show f ++ ";" ++ sep (map show args) ++ ";"
        ++ sep (map (fun p => fst p ++ "=" ++ show (snd p)) kw) ++ ";" ++ oshow show star ++ ";" ++ oshow show dstar ++ ")"
  | TFilter n e args kw =>
      "F(" ++ n ++ ";" ++ show e ++ ";" ++ sep (map show args) ++ ";" ++ sep (map (fun p => fst p ++ "=" ++ show (snd p)) kw) ++ ")"
  | TTest n e args => "T(" ++ n ++ ";" ++ show e ++ ";" ++ sep (map show args) ++ ")"
  | TOp op es => "O(" ++ op ++ ";" ++ sep (map show es) ++ ")"
  | TAwait e => "AW(" ++ show e ++ ")"
  | TRawAttr e a => "RAWATTR(" ++ show e ++ "," ++ a ++ ")"
  | TRawSub e i => "RAWSUB(" ++ show e ++ "," ++ show i ++ ")"
  | TDirectCall f args => "DIRECTCALL(" ++ show f ++ ";" ++ sep (map show args) ++ ")"
  end.

(* ---- statements: every position in which the statement code generator visits an expression
   (visit_Output, visit_Assign, visit_For iter / test, visit_If, visit_Macro defaults,
   visit_CallBlock, visit_FilterBlock, visit_With, visit_Include / Import template expression) *)
Open Scope list_scope.

Inductive stmt :=
  | SOutput (es : list expr)
  | SAssign (target : string) (e : expr)
  | SAssignBlock (target : string) (filter : option expr) (body : list stmt)
  | SFor (target : string) (iter : expr) (test : option expr) (body orelse : list stmt)
  | SIf (test : expr) (body orelse : list stmt)
  | SMacro (name : string) (defaults : list expr) (body : list stmt)
  | SCallBlock (call : expr) (defaults : list expr) (body : list stmt)
  | SFilterBlock (filter : expr) (body : list stmt)
  | SWith (values : list expr) (body : list stmt)
  | SBlock (name : string) (body : list stmt)
  | SInclude (template : expr).

(* the expressions a statement makes the generator compile, nested statements included *)
Fixpoint stmt_exprs (s : stmt) : list expr :=
  let many := fix many (l : list stmt) : list expr :=
    match l with [] => [] | x :: r => stmt_exprs x ++ many r end in
  match s with
  | SOutput es => es
  | SAssign _ e => [e]
  | SAssignBlock _ f body => match f with Some e => [e] | None => [] end ++ many body
  | SFor _ iter test body orelse => iter :: match test with Some e => [e] | None => [] end ++ many body ++ many orelse
  | SIf test body orelse => test :: many body ++ many orelse
  | SMacro _ defaults body => defaults ++ many body
  | SCallBlock call defaults body => call :: defaults ++ many body
  | SFilterBlock f body => f :: many body
  | SWith values body => values ++ many body
  | SBlock _ body => many body
  | SInclude e => [e]
  end.

Definition template_exprs (body : list stmt) : list expr := flat_map stmt_exprs body.

(* the generated code of a template, at routing level: the targets of all its expressions *)
Definition gen_template (m : mode) (body : list stmt) : list texpr := map (gen m) (template_exprs body).
