(* C30 — where the order of a Python set could reach the generated source.
   [site]: a row of the table regenerated from the source by gen/scope_iterorder.py (T4).
   [accounted]: the unsorted set iterations that the model accounts for, each proved
   order-insensitive in Proofs/ScopeOrderProofs.v:
     * Symbols.branch_update `for name in stores`: only overwrites loads of existing keys,
       each write independent of the others (Model/ScopeIdTrack.branch_update takes [ord]);
     * pop_assign_tracking `[x for x in vars if ...]`: the list is used through len(), through
       [0] when it has one element, and through sorted() otherwise;
     * pop_assign_tracking `next(iter(vars))`: only when len(vars) == 1.
   The emission fragments below model the four code-generator sites as functions of the set's
   iteration order [ord]. *)
From Coq Require Import List String Bool NArith.
Import ListNotations.
From JV Require Import Model.ScopeAst Model.ScopeIdTrack.

Record site := mkSite { st_file : string; st_fun : string; st_kind : string; st_sorted : bool; st_line : nat }.
Definition skey := (string * string * string)%type.
Definition accounted : list skey :=
  [ ("idtracking.py", "Symbols.branch_update", "for");
    ("compiler.py", "CodeGenerator.pop_assign_tracking", "comprehension");
    ("compiler.py", "CodeGenerator.pop_assign_tracking", "next_iter") ]%string.
Definition site_is (k : skey) (s : site) : bool :=
  let '(f, fn, kd) := k in String.eqb f (st_file s) && String.eqb fn (st_fun s) && String.eqb kd (st_kind s).
Definition site_ok (s : site) : bool := st_sorted s || existsb (fun k => site_is k s) accounted.

(* sorted(): insertion sort on names (any total order gives the same argument) *)
Fixpoint insert (x : N) (l : list N) : list N :=
  match l with [] => [x] | h :: t => if N.leb x h then x :: h :: t else h :: insert x t end.
Definition isort (l : list N) : list N := fold_right insert [] l.

Section Emit.
  Variable ord : list name -> list name.
  Variable priv : name -> bool.

  (* pull_dependencies: for name in sorted(names): id_map[name] = t_<next>; ... *)
  Definition deps_lines (names : list name) (next : nat) : list (name * nat) :=
    let s := isort (ord names) in combine s (seq next (List.length s)).

  (* pop_assign_tracking *)
  Inductive fkind3 := KLoopF | KBlockF | KTopF.
  Inductive aline :=
  | LSet1 (k : fkind3) (x : name)              (* _loop_vars[x] = ref / _block_vars / context.vars *)
  | LUpdate (k : fkind3) (xs : list name)      (* .update({x: ref, ...}) in sorted order *)
  | LExportAdd (x : name)
  | LExportUpdate (xs : list name).
  Definition pop_lines (k : fkind3) (vars : list name) : list aline :=
    let vs := ord vars in
    match vs with
    | [] => []
    | _ =>
        let public := filter (fun x => negb (priv x)) vs in     (* [x for x in vars if x[:1] != "_"] *)
        (match vs with [x] => [LSet1 k x]                        (* next(iter(vars)) *)
                     | _ => [LUpdate k (isort vs)] end) ++
        (match k with
         | KTopF => match public with
                    | [] => []
                    | [x] => [LExportAdd x]
                    | _ => [LExportUpdate (isort public)]
                    end
         | _ => []
         end)
    end.

  (* Symbols.dump_stores: for each symbols of the chain, for name in sorted(node.stores) *)
  Definition dump_stores (chain : list symbols) : list (name * ident) :=
    fold_left (fun rv node =>
      fold_left (fun rv x => if dhas N.eqb x rv then rv
                             else match find_ref chain x with Some id => rv ++ [(x, id)] | None => rv end)
                (isort (ord (s_stores node))) rv) chain [].
End Emit.
