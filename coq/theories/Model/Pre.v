(* C31 — the only difference `defer_init` makes in a generated template module, and the module
   naming of ModuleLoader.  Executable definitions only.

   compiler.visit_Template: envenv = "" if defer_init else ", environment=environment":
     direct   : def root(context, missing=missing, environment=environment):   (same for the block functions)
     deferred : def root(context, missing=missing):
   In the direct form the name `environment` inside the function is the parameter, whose default
   was evaluated when the `def` statement ran (Template._from_code execs the code in a namespace
   that already contains environment); nobody passes the argument.  In the deferred form it is a
   module global looked up at call time; Template._from_namespace (called by
   ModuleLoader.load -> from_module_dict) stores namespace["environment"] before any render.
   The function body is the same text in both forms; its meaning is a Section variable: a function
   of the value the name `environment` denotes and of the call argument. *)
From Coq Require Import List NArith Bool.
Import ListNotations.

Section Module.
  Variable E : Type.      (* environments *)
  Variable C : Type.      (* what a render function is called with (the context) *)
  Variable R : Type.      (* what it produces *)

  Inductive outcome := Done (r : R) | NameError.

  (* a function object made by `def`: the captured default of its environment parameter, if it has one *)
  Record func := { f_has_param : bool; f_default : option E; f_body : E -> C -> R }.

  (* running the `def` statements of the module text in a namespace whose `environment` entry is ns;
     None = the def itself fails (NameError while evaluating the default) *)
  Definition exec_def (defer : bool) (ns : option E) (body : E -> C -> R) : option func :=
    if defer then Some {| f_has_param := false; f_default := None; f_body := body |}
    else match ns with
         | Some e => Some {| f_has_param := true; f_default := Some e; f_body := body |}
         | None => None
         end.
  Definition exec_module (defer : bool) (ns : option E) (bodies : list (E -> C -> R)) : option (list func) :=
    fold_right (fun b acc => match exec_def defer ns b, acc with
                             | Some f, Some l => Some (f :: l)
                             | _, _ => None
                             end) (Some []) bodies.

  (* Template._from_namespace: namespace["environment"] = environment *)
  Definition from_namespace (e : E) (ns : option E) : option E := Some e.

  (* calling f(context) with the module namespace as it is at call time *)
  Definition call (f : func) (ns : option E) (c : C) : outcome :=
    if f_has_param f then
      match f_default f with Some e => Done (f_body f e c) | None => NameError end
    else match ns with Some e => Done (f_body f e c) | None => NameError end.
End Module.
Arguments Done {R} _. Arguments NameError {R}.
Arguments exec_def {E C R} _ _ _. Arguments exec_module {E C R} _ _ _.
Arguments from_namespace {E} _ _. Arguments call {E C R} _ _ _.

(* ModuleLoader.get_template_key / get_module_filename *)
Definition str := list N.
Definition prefix_tmpl : str := [116; 109; 112; 108; 95]%N.      (* "tmpl_" *)
Definition suffix_py : str := [46; 112; 121]%N.                  (* ".py" *)
Section Keys.
  Variable sha1_hex : str -> str.       (* sha1(name.encode("utf-8")).hexdigest() *)
  Definition template_key (name : str) : str := prefix_tmpl ++ sha1_hex name.
  Definition module_filename (name : str) : str := template_key name ++ suffix_py.
End Keys.

(* finite instance used by the driver: environments are numbered, the body reports which one it saw *)
Definition probe_case (defer : bool) (ns_at_def : option N) (installed : option N) : option (outcome N) :=
  match exec_def (C := unit) defer ns_at_def (fun e _ => e) with
  | None => None
  | Some f => Some (call f (match installed with Some e => from_namespace e ns_at_def | None => ns_at_def end) tt)
  end.

(* ModuleLoader.load's lookup (after the repair recorded in known_findings.d/C31.json): the module of
   the name as written, else the module of its normal form "/".join(split_template_path(name));
   and the lookup of the loaders templates are compiled from (FileSystemLoader / PackageLoader),
   which normalise first.  [normal] = None: split_template_path raises TemplateNotFound. *)
Definition str_eqb (a b : str) : bool := if list_eq_dec N.eq_dec a b then true else false.
Section Load.
  Variable sha1_hex : str -> str.
  Variable normal : str -> option str.
  Definition has_module (archive : list str) (name : str) : bool :=
    existsb (str_eqb (template_key sha1_hex name)) archive.
  Definition module_load (archive : list str) (name : str) : option str :=
    if has_module archive name then Some name
    else match normal name with
         | None => None
         | Some n => if str_eqb n name then None else if has_module archive n then Some n else None
         end.
  Definition source_load (names : list str) (name : str) : option str :=
    match normal name with
    | None => None
    | Some n => if existsb (str_eqb n) names then Some n else None
    end.
  (* compile_templates: one module per listed template *)
  Definition compile_archive (names : list str) : list str := map (template_key sha1_hex) names.
End Load.

(* ModuleLoader.load as a state machine, for one loader object used by any number of environments.
   The loader's package module has attributes (name -> module namespace); load(environment, name):
       key    = get_template_key(name);  module = f"{package_name}.{key}"
       mod    = getattr(self.module, module, None)        -- looked up under the DOTTED name
       if mod is None: mod = __import__(module, ...)       -- execs the module text anew: a fresh
                                                              namespace; the import machinery sets the
                                                              attribute `key` (undotted) on the package
       Template._from_namespace(environment, mod.__dict__, globals)   -- namespace["environment"] = environment
   Namespaces are numbered; a Template is the number of the namespace its functions live in. *)
Section Shared.
  Variable E : Type.
  Variable sha1_hex : str -> str.
  Variable package_name : str.
  Record lstate := { l_attrs : list (str * nat); l_nss : list (option E) }.
  Definition l_empty : lstate := {| l_attrs := []; l_nss := [] |}.
  Fixpoint find_attr (a : str) (l : list (str * nat)) : option nat :=
    match l with [] => None | (b, i) :: r => if str_eqb b a then Some i else find_attr a r end.
  Fixpoint set_nth {A} (i : nat) (x : A) (l : list A) : list A :=
    match l, i with [], _ => [] | _ :: r, O => x :: r | y :: r, S i' => y :: set_nth i' x r end.
  Definition dotted (key : str) : str := package_name ++ 46%N :: key.
  Definition load (st : lstate) (name : str) (e : E) : lstate * nat :=
    let key := template_key sha1_hex name in
    match find_attr (dotted key) (l_attrs st) with
    | Some i => ({| l_attrs := l_attrs st; l_nss := set_nth i (Some e) (l_nss st) |}, i)
    | None => let i := length (l_nss st) in
              ({| l_attrs := (key, i) :: l_attrs st; l_nss := l_nss st ++ [Some e] |}, i)
    end.
  (* a history of loads (template name, environment) from a fresh loader: final state and the
     namespace number each load returned *)
  Fixpoint loads (st : lstate) (h : list (str * E)) : lstate * list nat :=
    match h with
    | [] => (st, [])
    | (n, e) :: r => let (st1, i) := load st n e in let (st2, is) := loads st1 r in (st2, i :: is)
    end.
End Shared.
Arguments l_attrs {E} _. Arguments l_nss {E} _. Arguments Build_lstate {E} _ _.
Arguments load {E} _ _ _ _ _. Arguments loads {E} _ _ _ _. Arguments l_empty {E}.
