(* The printer of C02_parse_unparse: expressions to token lists, with parentheses only where
   the precedence level of a child is lower than its position requires.  Definitions only.
   Levels (= the functions of parser.py, loosest first):
     0 conditional  1 or  2 and  3 not  4 comparison chain  5 + -  6 ~  7 * / // %  8 **
     9 filter / test chain  10 unary + -  11 postfix chain (. [] ())  12 primary *)
From Coq Require Import List NArith ZArith Bool.
Import ListNotations.
From JV Require Import Model.ExprAst Model.ExprParser.

Definition lvl (e : expr) : nat :=
  match e with
  | ECond _ _ _ => 0
  | EOr _ _ => 1
  | EAnd _ _ => 2
  | ENot _ => 3
  | ECompare _ _ => 4
  | EBin (Add | Sub) _ _ => 5
  | EConcat _ => 6
  | EBin (Mul | Div | FloorDiv | Mod) _ _ => 7
  | EBin Pow _ _ => 8
  | EFilter _ _ _ | ETest _ _ _ => 9
  | EUn _ _ => 10
  | EGetattr _ _ | EGetitem _ _ | ESlice _ _ _ _ | ECall _ _ _ => 11
  | EConst _ | EName _ | EList _ | ETuple _ | EDict _ => 12
  end.

Definition binop_tok (op : binop) : optok :=
  match op with Add => OAdd | Sub => OSub | Mul => OMul | Div => ODiv | FloorDiv => OFloorDiv | Mod => OMod | Pow => OPow end.
Definition binop_lvl (op : binop) : nat :=
  match op with Add | Sub => 5 | Mul | Div | FloorDiv | Mod => 7 | Pow => 8 end.
Definition cmp_toks (c : cmpop) : list tok :=
  match c with
  | CEq => [KOp OEq] | CNe => [KOp ONe] | CLt => [KOp OLt] | CLe => [KOp OLe] | CGt => [KOp OGt] | CGe => [KOp OGe]
  | CIn => [KName k_in] | CNotIn => [KName k_not; KName k_in]
  end.
Definition const_tok (v : value) : tok :=
  match v with
  | VInt z => KInt z
  | VStr s => KStr s
  | VBool true => KName k_true
  | VBool false => KName k_false
  | _ => KName k_none
  end.

(* separated by commas *)
Fixpoint commas (xs : list (list tok)) : list tok :=
  match xs with
  | [] => []
  | x :: r => match r with [] => x | _ => x ++ KOp OComma :: commas r end
  end.

Fixpoint tildes (xs : list (list tok)) : list tok :=
  match xs with
  | [] => []
  | x :: r => match r with [] => x | _ => x ++ KOp OTilde :: tildes r end
  end.

Definition paren (ts : list tok) : list tok := KOp OLParen :: ts ++ [KOp ORParen].

(* raw e: the tokens of e itself; pr L e: e where level >= L is required *)
Fixpoint raw (e : expr) : list tok :=
  let pr := fun (L : nat) (x : expr) => if Nat.leb L (lvl x) then raw x else paren (raw x) in
  let opt := fun (o : option expr) => match o with Some x => pr 0 x | None => [] end in
  let args := fun (xs : list expr) (kw : list (str * expr)) =>
    commas (map (pr 0) xs ++ map (fun p : str * expr => KName (fst p) :: KOp OAssign :: pr 0 (snd p)) kw) in
  match e with
  | EConst v => [const_tok v]
  | EName x => [KName x]
  | EBin op a b => pr (binop_lvl op) a ++ KOp (binop_tok op) :: pr (S (binop_lvl op)) b
  | EUn op a => KOp (match op with Neg => OSub | Pos => OAdd end) :: pr 10 a
  | ENot a => KName k_not :: pr 3 a
  | EAnd a b => pr 2 a ++ KName k_and :: pr 3 b
  | EOr a b => pr 1 a ++ KName k_or :: pr 2 b
  | EConcat es => tildes (map (pr 7) es)
  | ECompare a ops => pr 5 a ++ flat_map (fun p : cmpop * expr => cmp_toks (fst p) ++ pr 5 (snd p)) ops
  | ECond t a b =>
      pr 1 a ++ KName k_if :: pr 1 t ++ match b with Some b => KName k_else :: pr 0 b | None => [] end
  | EGetattr a name => pr 11 a ++ [KOp ODot; KName name]
  | EGetitem a k => pr 11 a ++ KOp OLBracket :: pr 0 k ++ [KOp ORBracket]
  | ESlice a lo hi st =>
      pr 11 a ++ KOp OLBracket :: opt lo ++ KOp OColon :: opt hi
        ++ match st with Some s => KOp OColon :: pr 0 s | None => [] end ++ [KOp ORBracket]
  | EList es => KOp OLBracket :: commas (map (pr 0) es) ++ [KOp ORBracket]
  | ETuple es =>
      match es with
      | [x] => KOp OLParen :: pr 0 x ++ [KOp OComma; KOp ORParen]
      | _ => KOp OLParen :: commas (map (pr 0) es) ++ [KOp ORParen]
      end
  | EDict kvs =>
      KOp OLBrace :: commas (map (fun p : expr * expr => pr 0 (fst p) ++ KOp OColon :: pr 0 (snd p)) kvs) ++ [KOp ORBrace]
  | ECall f xs kw => pr 11 f ++ KOp OLParen :: args xs kw ++ [KOp ORParen]
  | EFilter a name xs =>
      pr 9 a ++ KOp OPipe :: KName name :: match xs with [] => [] | _ => KOp OLParen :: args xs [] ++ [KOp ORParen] end
  | ETest a name xs => pr 9 a ++ KName k_is :: KName name :: KOp OLParen :: args xs [] ++ [KOp ORParen]
  end.

Definition pr (L : nat) (x : expr) : list tok := if Nat.leb L (lvl x) then raw x else paren (raw x).
Definition unparse (e : expr) : list tok := raw e.

(* printable normal form: what the parser can produce from such a print *)
Definition reserved (s : str) : bool :=
  str_eqb s k_true || str_eqb s k_false || str_eqb s k_none || str_eqb s k_True || str_eqb s k_False || str_eqb s k_None
  || str_eqb s k_if || str_eqb s k_else || str_eqb s k_or || str_eqb s k_and || str_eqb s k_not || str_eqb s k_in || str_eqb s k_is.

Fixpoint wf (e : expr) : bool :=
  let wo := fun o : option expr => match o with Some x => wf x | None => true end in
  match e with
  | EConst v => match v with VInt z => Z.leb 0 z | VStr _ | VBool _ | VNone => true | _ => false end
  | EName x => negb (reserved x)
  | EBin _ a b | EAnd a b | EOr a b | EGetitem a b => wf a && wf b
  | EUn _ a | ENot a | EGetattr a _ => wf a
  | EConcat es => Nat.leb 2 (length es) && forallb wf es
  | ECompare a ops => wf a && negb (match ops with [] => true | _ => false end) && forallb (fun p : cmpop * expr => wf (snd p)) ops
  | ECond t a b => wf t && wf a && wo b
  | ESlice a lo hi st => wf a && wo lo && wo hi && wo st
  | EList es | ETuple es => forallb wf es
  | EDict kvs => forallb (fun p : expr * expr => wf (fst p) && wf (snd p)) kvs
  | ECall f xs kw => wf f && forallb wf xs && forallb (fun p : str * expr => wf (snd p)) kw
  | EFilter a _ xs => wf a && forallb wf xs
  | ETest a name xs => negb (str_eqb name k_not) && wf a && forallb wf xs
  end.

(* the level a token continues (None: it continues nothing) *)
Definition cont_level (t : tok) : option nat :=
  match t with
  | KName s =>
      if str_eqb s k_if || str_eqb s k_else then Some 0
      else if str_eqb s k_or then Some 1
      else if str_eqb s k_and then Some 2
      else if str_eqb s k_in || str_eqb s k_not then Some 4
      else if str_eqb s k_is then Some 9
      else None
  | KOp o =>
      match o with
      | OEq | ONe | OLt | OLe | OGt | OGe => Some 4
      | OAdd | OSub => Some 5
      | OTilde => Some 6
      | OMul | ODiv | OFloorDiv | OMod => Some 7
      | OPow => Some 8
      | OPipe => Some 9
      | OLParen | ODot | OLBracket => Some 11
      | _ => None
      end
  | KStr _ => Some 12
  | _ => None
  end.
(* nc L r: the first token of r continues no level >= L *)
Definition nc (L : nat) (r : list tok) : bool :=
  match r with
  | [] => true
  | t :: _ => match cont_level t with Some j => Nat.ltb j L | None => true end
  end.
