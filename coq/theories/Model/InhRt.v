(* C04 — the three runtime methods behind super() as stand-alone model functions (the forms the
   translator gen/inh_translate.py proves equal to the current source of runtime.Context.super,
   BlockReference.super and BlockReference.__call__), and how Model/Inh.exec_item composes them. *)
From Coq Require Import List NArith Bool Arith.
Import ListNotations.
From JV Require Import Model.Inh.

Inductive pyexn := PyKeyError | PyIndexError | PyValueError.
Inductive rt :=
| RUndef                                         (* environment.undefined(...) *)
| RRef (n : name) (st : list fid) (d : nat)      (* BlockReference(name, context, stack, depth) *)
| RCall (f : fid) (markup : bool)                (* concat(stack[depth](context)), wrapped in Markup or not *)
| RAsync                                         (* self._async_call() *)
| RExc (e : pyexn).

(* Context.super(name, current) *)
Definition ctx_super (B : blocks) (n : name) (cur : fid) : rt :=
  match assoc n B with
  | None => RUndef                                                  (* KeyError is a LookupError *)
  | Some st =>
      match index_of cur st with
      | None => RExc PyValueError                                   (* not a LookupError: propagates *)
      | Some i => match nth_error st (i + 1) with
                  | None => RUndef                                  (* IndexError is a LookupError *)
                  | Some _ => RRef n st (i + 1)
                  end
      end
  end.
(* BlockReference.super *)
Definition bref_super1 (n : name) (st : list fid) (d : nat) : rt :=
  if Nat.leb (length st) (d + 1) then RUndef else RRef n st (d + 1).
(* BlockReference.__call__ *)
Definition bref_call (is_async autoescape : bool) (st : list fid) (d : nat) : rt :=
  if is_async then RAsync
  else match nth_error st d with None => RExc PyIndexError | Some f => RCall f autoescape end.

(* super.super. ... (k attribute accesses); getattr on Undefined raises later, as calling it does *)
Fixpoint super_chain (k : nat) (r : rt) : rt :=
  match k with
  | O => r
  | S k' => match r with RRef n st d => super_chain k' (bref_super1 n st d) | other => other end
  end.

(* {{ super.super...() }} inside block_b of template j, sync mode, autoescape off *)
Definition super_item (call : fid -> vars -> res) (B : blocks) (j : nat) (b : name) (ctx : vars) (k : nat) : res :=
  match super_chain k (ctx_super B b (j, b)) with
  | RUndef => Err EUndefined
  | RRef _ st d => match bref_call false false st d with
                   | RCall f _ => call f ctx
                   | _ => Err EInternal
                   end
  | _ => Err EInternal
  end.
