(* Exact model of jinja2/idtracking.py (Symbols, RootVisitor, FrameSymbolVisitor) and of the
   places where compiler.py creates a frame and analyses a node (C03, C30, C32).

   A Symbols object's [parent] chain is passed explicitly: [chain = self :: parents].
   The two dictionaries are insertion-ordered association lists with Python's assignment
   semantics; [stores] is a set.  Every iteration over a set takes its order from the
   parameter [ord] (C30 proves that the result does not depend on it). *)
From Coq Require Import List NArith ZArith Bool.
Import ListNotations.
From JV Require Import Model.ScopeAst.

Definition sym_new (parents : list symbols) : symbols :=
  mkSym (match parents with [] => 0 | p :: _ => S (s_level p) end) [] [] [].

(* Symbols._define_ref *)
Definition define_ref (s : symbols) (x : name) (l : loadk) : symbols :=
  let id := (s_level s, x) in
  mkSym (s_level s) (dset N.eqb x id (s_refs s)) (dset ident_eqb id l (s_loads s)) (s_stores s).

(* Symbols.find_ref over self :: parents *)
Fixpoint find_ref (chain : list symbols) (x : name) : option ident :=
  match chain with
  | [] => None
  | s :: r => match dget N.eqb x (s_refs s) with Some id => Some id | None => find_ref r x end
  end.

(* Symbols.find_load *)
Fixpoint find_load (chain : list symbols) (id : ident) : option loadk :=
  match chain with
  | [] => None
  | s :: r => match dget ident_eqb id (s_loads s) with Some l => Some l | None => find_load r id end
  end.

Definition add_store (s : symbols) (x : name) : symbols :=
  mkSym (s_level s) (s_refs s) (s_loads s) (nadd x (s_stores s)).

(* Symbols.store *)
Definition sym_store (parents : list symbols) (s : symbols) (x : name) : symbols :=
  let s := add_store s x in
  if dhas N.eqb x (s_refs s) then s
  else match find_ref parents x with
       | Some outer => define_ref s x (LAlias outer)
       | None => define_ref s x LUndef
       end.

(* Symbols.declare_parameter *)
Definition sym_param (s : symbols) (x : name) : symbols :=
  define_ref (add_store s x) x LParam.

(* Symbols.load *)
Definition sym_load (parents : list symbols) (s : symbols) (x : name) : symbols :=
  match find_ref (s :: parents) x with
  | Some _ => s
  | None => define_ref s x (LResolve x)
  end.

Definition sym_loads (parents : list symbols) (s : symbols) (xs : list name) : symbols :=
  fold_left (sym_load parents) xs s.

Section Ord.
  (* iteration order of a set (the elements of [l] in some order) *)
  Variable ord : list name -> list name.

  (* Symbols.branch_update *)
  Definition branch_update (parents : list symbols) (s : symbols) (branches : list symbols) : symbols :=
    let stores := ndiff (fold_left (fun acc b => nunion acc (s_stores b)) branches []) (s_stores s) in
    let s1 := fold_left (fun acc b =>
                mkSym (s_level acc) (dupdate N.eqb (s_refs acc) (s_refs b))
                      (dupdate ident_eqb (s_loads acc) (s_loads b))
                      (nunion (s_stores acc) (s_stores b))) branches s in
    fold_left (fun acc x =>
      match find_ref (acc :: parents) x with
      | None => acc      (* assert target is not None: unreachable *)
      | Some target =>
          let l := match find_ref parents x with Some outer => LAlias outer | None => LResolve x end in
          mkSym (s_level acc) (s_refs acc) (dset ident_eqb target l (s_loads acc)) (s_stores acc)
      end) (ord stores) s1.

  (* FrameSymbolVisitor.visit over one statement / a list of statements *)
  Fixpoint fsv (parents : list symbols) (s : symbols) (st : stmt) : symbols :=
    let fix fsv_list (s : symbols) (l : list stmt) : symbols :=
      match l with [] => s | x :: r => fsv_list (fsv parents s x) r end in
    match st with
    | SOut es => sym_loads parents s (exprs_names es)
    | SIf t body elifs els =>
        let s0 := sym_loads parents s (expr_names t) in
        let b1 := fsv_list s0 body in          (* original_symbols.copy() visited by the branch *)
        let b2 := fsv_list s0 elifs in
        let b3 := fsv_list s0 els in
        branch_update parents s0 [b1; b2; b3]
    | SFor _ it _ _ _ => sym_loads parents s (expr_names it)
    | SSet x e => sym_store parents (sym_loads parents s (expr_names e)) x
    | SSetAttr x _ e => sym_load parents (sym_loads parents s (expr_names e)) x
    | SNsNew x kvs => sym_store parents (sym_loads parents s (n_namespace :: exprs_names (map snd kvs))) x
    | SSetBlock x _ => sym_store parents s x
    | SWith bs _ => sym_loads parents s (exprs_names (map snd bs))
    | SFilter _ _ => s
    | SMacro m _ _ => sym_store parents s m
    | SCallOut f args => sym_loads parents s (f :: exprs_names args)
    | SCallBlock _ f args _ => sym_loads parents s (f :: exprs_names args)
    end.
  Fixpoint fsv_list (parents : list symbols) (s : symbols) (l : list stmt) : symbols :=
    match l with [] => s | x :: r => fsv_list parents (fsv parents s x) r end.

  Definition sym_params (s : symbols) (ps : list name) : symbols := fold_left sym_param ps s.
  Definition sym_stores (parents : list symbols) (s : symbols) (xs : list name) : symbols :=
    fold_left (sym_store parents) xs s.

  (* ---------------- Symbols.analyze_node = RootVisitor, per frame-creating construct *)
  Definition an_template (body : list stmt) (s : symbols) : symbols := fsv_list [] s body.
  Definition an_for_body parents (target : name) (body : list stmt) (s : symbols) : symbols :=
    fsv_list parents (sym_param s target) body.
  Definition an_for_else parents (els : list stmt) (s : symbols) : symbols := fsv_list parents s els.
  Definition an_for_test parents (target : name) (test : option expr) (s : symbols) : symbols :=
    let s := sym_param s target in
    match test with Some t => sym_loads parents s (expr_names t) | None => s end.
  Definition an_with parents (targets : list name) (body : list stmt) (s : symbols) : symbols :=
    fsv_list parents (sym_params s targets) body.   (* the parser gives with-targets ctx 'param' *)
  Definition an_body parents (body : list stmt) (s : symbols) : symbols := fsv_list parents s body.
      (* FilterBlock (the filter node loads nothing for upper / lower), AssignBlock, Scope *)
  Definition an_macro parents (params : list name) (body : list stmt) (s : symbols) : symbols :=
    fsv_list parents (sym_params s params) body.

  (* ---------------- compiler.find_undeclared (UndeclaredNameVisitor) *)
  (* every occurrence of a name in NodeVisitor order; Name nodes carry their ctx, the two
     occurrences that are not Name nodes (a macro's name, the object of an NSRef) are
     tagged so that [all_names] can drop them *)
  Inductive nctx := CLoad | CStore | CParam | CMacroName | CNsRef.
  Fixpoint occs (st : stmt) : list (name * nctx) :=
    let ld xs := map (fun x => (x, CLoad)) xs in
    let fix go (l : list stmt) := match l with [] => [] | x :: r => occs x ++ go r end in
    match st with
    | SOut es => ld (exprs_names es)
    | SIf t b ei el => ld (expr_names t) ++ go b ++ go ei ++ go el
    | SFor tg it te b el =>
        (tg, CStore) :: ld (expr_names it) ++ go b ++ go el ++
        (match te with Some t => ld (expr_names t) | None => [] end)
    | SSet x e => (x, CStore) :: ld (expr_names e)
    | SSetAttr x _ e => (x, CNsRef) :: ld (expr_names e)
    | SNsNew x kvs => (x, CStore) :: ld (n_namespace :: exprs_names (map snd kvs))
    | SSetBlock x b => (x, CStore) :: go b
    | SWith bs b => map (fun p => (fst p, CParam)) bs ++ ld (exprs_names (map snd bs)) ++ go b
    | SFilter _ b => go b
    | SMacro m ps b => (m, CMacroName) :: map (fun p => (p, CParam)) ps ++ go b
    | SCallOut f args => ld (f :: exprs_names args)
    | SCallBlock ps f args b => ld (f :: exprs_names args) ++ map (fun p => (p, CParam)) ps ++ go b
    end.
  Definition occs_l (l : list stmt) : list (name * nctx) := flat_map occs l.
  Definition is_name_node (oc : name * nctx) : bool :=
    match snd oc with CMacroName | CNsRef => false | _ => true end.
  Definition all_names_l (l : list stmt) : list (name * nctx) := filter is_name_node (occs_l l).

  Definition is_load (c : nctx) : bool := match c with CLoad => true | _ => false end.
  (* state (names, undeclared, stopped) *)
  Fixpoint undecl_go (names undeclared : list name) (l : list (name * nctx)) : list name :=
    match l with
    | [] => undeclared
    | (x, c) :: r =>
        if is_load c && nmem x names then
          let u := nadd x undeclared in
          (* VisitorExit when undeclared == names (as sets) *)
          if forallb (fun y => nmem y u) names && forallb (fun y => nmem y names) u then u
          else undecl_go names u r
        else undecl_go (ndiff names [x]) undeclared r
    end.
  Definition find_undeclared (body : list stmt) (names : list name) : list name :=
    undecl_go names [] (all_names_l body).

  (* ---------------- frames as the code generator creates them *)
  (* visit_For: loop frame *)
  Definition extended_loop (body : list stmt) : bool := nmem n_loop (find_undeclared body [n_loop]).
  Definition frame_for_body chain (target : name) (body : list stmt) : symbols :=
    let s := sym_new chain in
    let s := if extended_loop body then sym_param s n_loop else s in
    an_for_body chain target body s.
  Definition frame_for_else chain (els : list stmt) : symbols := an_for_else chain els (sym_new chain).
  Definition frame_for_test chain (target : name) (test : option expr) : symbols :=
    an_for_test chain target test (sym_new chain).
  Definition frame_with chain (targets : list name) (body : list stmt) : symbols :=
    an_with chain targets body (sym_new chain).
  Definition frame_body chain (body : list stmt) : symbols := an_body chain body (sym_new chain).
  (* macro_body: analyse, declare the special parameters, analyse again *)
  Definition macro_uses_caller (body : list stmt) : bool :=
    nmem n_caller (find_undeclared body [n_caller; n_kwargs; n_varargs]).
  Definition frame_macro chain (params : list name) (body : list stmt) : symbols :=
    let s := an_macro chain params body (sym_new chain) in
    let u := find_undeclared body [n_caller; n_kwargs; n_varargs] in
    let s := if nmem n_caller u then (if nmem n_caller params then s else sym_param s n_caller) else s in
    let s := if nmem n_kwargs u && negb (nmem n_kwargs params) then sym_param s n_kwargs else s in
    let s := if nmem n_varargs u && negb (nmem n_varargs params) then sym_param s n_varargs else s in
    an_macro chain params body s.
  (* visit_Template: root frame *)
  Definition frame_root (body : list stmt) : symbols :=
    let s := sym_new [] in
    let s := if nmem n_self (find_undeclared body [n_self]) then sym_param s n_self else s in
    an_template body s.

  (* every frame in the order the code generator enters it (enter_frame), with its chain *)
  Fixpoint frames_stmt (chain : list symbols) (st : stmt) : list (list symbols) :=
    let fix go (chain : list symbols) (l : list stmt) : list (list symbols) :=
      match l with [] => [] | x :: r => frames_stmt chain x ++ go chain r end in
    match st with
    | SOut _ | SSet _ _ | SSetAttr _ _ _ | SNsNew _ _ | SCallOut _ _ => []
    | SIf _ b ei el => go chain b ++ go chain ei ++ go chain el
    | SFor tg _ te b el =>
        let ft := frame_for_test chain tg te :: chain in
        let fb := frame_for_body chain tg b :: chain in
        let fe := frame_for_else chain el :: chain in
        (match te with Some _ => [ft] | None => [] end) ++ [fb] ++ go fb b ++
        (match el with [] => [] | _ => fe :: go fe el end)
    | SSetBlock _ b => let f := frame_body chain b :: chain in f :: go f b
    | SWith bs b => let f := frame_with chain (map fst bs) b :: chain in f :: go f b
    | SFilter _ b => let f := frame_body chain b :: chain in f :: go f b
    | SMacro _ ps b => let f := frame_macro chain ps b :: chain in f :: go f b
    | SCallBlock ps _ _ b => let f := frame_macro chain ps b :: chain in f :: go f b
    end.
  Fixpoint frames_list (chain : list symbols) (l : list stmt) : list (list symbols) :=
    match l with [] => [] | x :: r => frames_stmt chain x ++ frames_list chain r end.
  Definition frames_of (p : list stmt) : list (list symbols) :=
    let root := [frame_root p] in root :: frames_list root p.
End Ord.
