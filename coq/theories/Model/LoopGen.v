(* Model of the skeleton of jinja2.compiler.CodeGenerator.visit_For (C07): the sequence of frame
   operations and control-line emissions it performs for one For node, as abstract events, as a
   function of the node's fields and of the compilation mode.  What the loop body, the iterable, the
   target and the test emit themselves is not part of the skeleton (one event each).  Frames are
   named by the order in which visit_For creates them, temporaries by the order in which it asks
   for them.  Executable definitions only. *)
From Coq Require Import List Bool Arith.
Import ListNotations.

Record cfg := {
  recursive : bool;         (* node.recursive *)
  has_else : bool;          (* node.else_ non-empty *)
  has_test : bool;          (* node.test is not None *)
  mentions : bool;          (* find_undeclared(body, ("loop",)) finds `loop` *)
  scoped : bool;            (* some Block below the node is scoped *)
  is_async : bool;          (* environment.is_async *)
  pilb : bool;              (* frame.in_loop_body of the enclosing frame *)
  pbuf : bool }.            (* the enclosing frame writes into a buffer *)

Definition extended (c : cfg) : bool := recursive c || mentions c || scoped c.

Inductive role := Outer | LoopF | TestF | ElseF.
Inductive which := Target | Iter | Test.
Inductive bufk := BufNone | BufOwn | BufSame.     (* frame.buffer: none / some / the loop frame's own *)

Inductive line :=
| LDefFilter (t : nat)            (* def t(fiter): *)
| LDefLoop                        (* def loop(reciter, loop_render_func, depth=0): *)
| LFor (at_node : bool)           (* for / async for; at_node: the statement of the For node itself *)
| LIf | LYield | LTry | LLoopVars
| LRefMissing                     (* <loop ref> = missing *)
| LSet (t : nat) (v : bool)       (* t = 1 / t = 0 *)
| LIfT (t : nat)                  (* if t: *)
| LAssignCall (t u : nat)         (* t = u( *)
| LFinally (t : nat).             (* finally: await t.aclose() *)

Inductive wtok :=
| WIn | WFiter | WAiterFiter | WColon | WAiterOpen | WClose | WReciter | WTailRec | WTailExt
| WCallLoop | WAwaitCallLoop | WLoopArg | WCtx (async : bool) | WT (t : nat) | WTCall (t : nat).

Inductive ev :=
| Begin (p : bool) | End
| Temp | Indent | Outdent (n : nat)
| Enter (r : role) (lf ilb : bool) | Leave (r : role) (scope : bool)
| Block (body : bool) (r : role) (ilb : bool) (b : bufk)
| Visit (w : which) (r : role)
| Buffer (r : role) | ReturnBuffer (r : role) | StartWrite (r : role) | EndWrite
| Line (l : line) | W (w : wtok).

Definition opt (b : bool) (l : list ev) : list ev := if b then l else [].

Definition for_trace (c : cfg) : list ev :=
  let ext := extended c in
  let rec := recursive c in
  let asy := is_async c in
  let t_ind := if has_test c then 1 else 0 in
  let t_agen := t_ind + (if has_else c then 1 else 0) in
  let agen := has_test c && asy in
  let wrap := asy && negb ext in                       (* auto_aiter( ... ) around the iterable *)
  let else_ilb := if rec then false else pilb c in
  let body_buf := if rec then BufOwn else if pbuf c then BufOwn else BufNone in
  let else_buf := if rec then BufSame else if pbuf c then BufOwn else BufNone in
  [Begin (pilb c)]
  ++ opt (has_test c)
       [Temp; Line (LDefFilter 0); Indent; Enter TestF false (pilb c); Line (LFor false); Visit Target LoopF; W WIn;
        W (if asy then WAiterFiter else WFiter); W WColon; Indent; Line LIf; Visit Test TestF; W WColon; Indent;
        Line LYield; Visit Target LoopF; Outdent 3; Leave TestF true]
  ++ opt rec [Line LDefLoop; Indent; Buffer LoopF]
  ++ opt ext [Line LRefMissing]
  ++ opt (has_else c) [Temp; Line (LSet t_ind true)]
  ++ opt agen
       ([Temp; Line (LAssignCall t_agen 0)]
        ++ (if rec then [W WReciter]
            else opt (negb ext) [W WAiterOpen] ++ [Visit Iter Outer] ++ opt (negb ext) [W WClose])
        ++ [W WClose; Line LTry; Indent])
  ++ [Line (LFor true); Visit Target LoopF]
  ++ (if ext then [W (WCtx asy)] else [W WIn])
  ++ (if agen then [W (WT t_agen)]
      else opt (has_test c) [W (WTCall 0)]
           ++ (if rec then [W WReciter]
               else opt wrap [W WAiterOpen] ++ [Visit Iter Outer] ++ opt wrap [W WClose])
           ++ opt (has_test c) [W WClose])
  ++ [W (if rec then WTailRec else if ext then WTailExt else WColon)]
  ++ [Indent; Enter LoopF true true; Line LLoopVars]
  ++ opt (has_else c) [Line (LSet t_ind false)]
  ++ [Block true LoopF true body_buf; Outdent 1]
  ++ opt agen [Outdent 1; Line (LFinally t_agen)]
  ++ [Leave LoopF (rec && negb (has_else c))]
  ++ opt (has_else c)
       [Line (LIfT t_ind); Indent; Enter ElseF false else_ilb; Block false ElseF else_ilb else_buf; Leave ElseF false;
        Outdent 1]
  ++ opt rec
       ([ReturnBuffer LoopF; Outdent 1; StartWrite Outer; W (if asy then WAwaitCallLoop else WCallLoop)]
        (* the iterable is handed to loop(...) as it is, also in async mode (a48aab6): AsyncLoopContext or the
           loop filter function adapts it, a sized iterable keeps its len() *)
        ++ [Visit Iter Outer; W WLoopArg; EndWrite])
  ++ [End].
