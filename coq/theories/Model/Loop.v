(* Model of jinja2.runtime.LoopContext / AsyncLoopContext (C07) as a state machine, and of the
   parts of the compiled loop skeleton the property speaks about (else branch, recursion depth).
   Executable definitions only; proofs live in Proofs/LoopProofs.v.
   One model serves both classes: the async class is the same code with awaits. *)
From Coq Require Import List NArith ZArith Bool.
Import ListNotations.
Open Scope Z_scope.

Definition item := N.

(* does len(iterable) work?  list / tuple: yes; iterator, generator, async iterable, and the
   loop-filter generator the compiler wraps around a filtered iterable: no *)
Inductive kind := Sized | Unsized.

Record st := {
  iterable : list item;      (* self._iterable, only len() of it is ever taken *)
  rem : list item;           (* what self._iterator still yields *)
  after : option item;       (* self._after, None = missing *)
  lenc : option Z;           (* self._length *)
  before : option item;      (* self._before *)
  current : option item;     (* self._current *)
  index0 : Z;                (* self.index0, -1 before the first __next__ *)
  last_changed : option (list N);   (* self._last_changed_value, None = missing *)
  depth0 : Z }.

Definition init (xs : list item) (d0 : Z) : st :=
  {| iterable := xs; rem := xs; after := None; lenc := None; before := None; current := None;
     index0 := -1; last_changed := None; depth0 := d0 |}.

Definition zlen {A} (l : list A) : Z := Z.of_nat (length l).

(* property length *)
Definition m_length (k : kind) (s : st) : st * Z :=
  match lenc s with
  | Some n => (s, n)
  | None =>
      match k with
      | Sized =>
          let n := zlen (iterable s) in
          ({| iterable := iterable s; rem := rem s; after := after s; lenc := Some n; before := before s;
              current := current s; index0 := index0 s; last_changed := last_changed s; depth0 := depth0 s |}, n)
      | Unsized =>
          (* iterable = list(self._iterator); self._iterator = iter(iterable);
             self._length = len(iterable) + self.index + (self._after is not missing) *)
          let l := rem s in
          let n := zlen l + (index0 s + 1) + (match after s with Some _ => 1 | None => 0 end) in
          ({| iterable := iterable s; rem := l; after := after s; lenc := Some n; before := before s;
              current := current s; index0 := index0 s; last_changed := last_changed s; depth0 := depth0 s |}, n)
      end
  end.

(* _peek_next *)
Definition m_peek (s : st) : st * option item :=
  match after s with
  | Some x => (s, Some x)
  | None =>
      match rem s with
      | [] => (s, None)              (* next(self._iterator, missing) = missing; _after stays missing *)
      | x :: r =>
          ({| iterable := iterable s; rem := r; after := Some x; lenc := lenc s; before := before s;
              current := current s; index0 := index0 s; last_changed := last_changed s; depth0 := depth0 s |},
           Some x)
      end
  end.

(* __next__ / __anext__ : None = StopIteration *)
Definition m_next (s : st) : option (item * st) :=
  let adv (rv : item) (r : list item) :=
    Some (rv, {| iterable := iterable s; rem := r; after := None; lenc := lenc s; before := current s;
                 current := Some rv; index0 := index0 s + 1; last_changed := last_changed s;
                 depth0 := depth0 s |}) in
  match after s with
  | Some x => adv x (rem s)
  | None => match rem s with [] => None | x :: r => adv x r end
  end.

Inductive query :=
| QLength | QIndex0 | QIndex | QRevindex | QRevindex0 | QFirst | QLast
| QPrevitem | QNextitem
| QCycle (args : list N)
| QChanged (v : option (list N))   (* Some c: changed called with the values c, any number, also none; None: changed(<current item>) *)
| QDepth | QDepth0.

Inductive answer :=
| ANum (z : Z) | ABool (b : bool) | AItem (x : item)
| ANoPrev                          (* undefined("there is no previous item") *)
| ANoNext                          (* undefined("there is no next item") *)
| ATypeError.                      (* cycle() without arguments *)

Fixpoint list_eqb (a b : list N) : bool :=
  match a, b with
  | [], [] => true
  | x :: a', y :: b' => N.eqb x y && list_eqb a' b'
  | _, _ => false
  end.

Definition m_query (k : kind) (s : st) (q : query) : st * answer :=
  match q with
  | QLength => let '(s', n) := m_length k s in (s', ANum n)
  | QIndex0 => (s, ANum (index0 s))
  | QIndex => (s, ANum (index0 s + 1))
  | QRevindex0 => let '(s', n) := m_length k s in (s', ANum (n - (index0 s' + 1)))
  | QRevindex => let '(s', n) := m_length k s in (s', ANum (n - index0 s'))
  | QFirst => (s, ABool (index0 s =? 0))
  | QLast => let '(s', o) := m_peek s in (s', ABool (match o with None => true | Some _ => false end))
  | QPrevitem =>
      if index0 s =? 0 then (s, ANoPrev)
      else (s, match before s with Some x => AItem x | None => ANoPrev end)
  | QNextitem => let '(s', o) := m_peek s in (s', match o with Some x => AItem x | None => ANoNext end)
  | QCycle args =>
      match args with
      | [] => (s, ATypeError)
      | _ => (s, match nth_error args (Z.to_nat (index0 s mod zlen args)) with
                 | Some a => AItem a | None => ATypeError end)
      end
  | QChanged v =>
      let value := match v with Some c => c | None => match current s with Some x => [x] | None => [] end end in
      let same := match last_changed s with Some l => list_eqb l value | None => false end in
      if same then (s, ABool false)
      else ({| iterable := iterable s; rem := rem s; after := after s; lenc := lenc s; before := before s;
               current := current s; index0 := index0 s; last_changed := Some value; depth0 := depth0 s |},
            ABool true)
  | QDepth => (s, ANum (depth0 s + 1))
  | QDepth0 => (s, ANum (depth0 s))
  end.

Fixpoint m_queries (k : kind) (s : st) (qs : list query) : st * list answer :=
  match qs with
  | [] => (s, [])
  | q :: r => let '(s1, a) := m_query k s q in let '(s2, l) := m_queries k s1 r in (s2, a :: l)
  end.

(* the loop: for item, loop in LoopContext(...): <queries of this iteration> *)
Fixpoint run_go (fuel : nat) (k : kind) (s : st) (script : list (list query))
  : option (list (item * list answer)) :=
  match fuel with
  | O => None
  | S fuel' =>
      match m_next s with
      | None => Some []
      | Some (x, s1) =>
          let '(s2, ans) := m_queries k s1 (hd [] script) in
          match run_go fuel' k s2 (tl script) with
          | Some l => Some ((x, ans) :: l)
          | None => None
          end
      end
  end.

Definition run (k : kind) (d0 : Z) (xs : list item) (script : list (list query)) :=
  run_go (S (length xs)) k (init xs d0) script.

(* compiled skeleton of {% for x in xs if p(x) %}body{% else %}e{% endfor %}: the filter
   generator feeds the loop, an iteration indicator decides the else branch *)
Record loop_out := { visited : list (item * list answer); else_taken : bool }.
Definition run_for (k : kind) (filtered : bool) (p : item -> bool) (d0 : Z) (xs : list item)
           (script : list (list query)) : option loop_out :=
  let src := if filtered then filter p xs else xs in
  let k' := if filtered then Unsized else k in
  match run k' d0 src script with
  | Some l => Some {| visited := l; else_taken := match l with [] => true | _ => false end |}
  | None => None
  end.

(* loop controls (jinja2.ext.loopcontrols): `continue` skips the rest of the body — the queries
   listed for an iteration are those that run before it — and `break` ends the loop after the
   iteration.  The iteration indicator is cleared when the body is ENTERED (code after /repo
   commit 6e4d8bf), so a body that never reaches its end still counts as an iteration. *)
Inductive ctl := Go | Continue | Break.

Fixpoint run_ctl_go (fuel : nat) (k : kind) (s : st) (script : list (list query)) (ctls : list ctl)
         (indicator : bool) : option (list (item * list answer) * bool) :=
  match fuel with
  | O => None
  | S fuel' =>
      match m_next s with
      | None => Some ([], indicator)
      | Some (x, s1) =>
          let indicator1 := false in                      (* t_n = 0 at the top of the body *)
          let '(s2, ans) := m_queries k s1 (hd [] script) in
          match hd Go ctls with
          | Break => Some ([(x, ans)], indicator1)
          | _ => match run_ctl_go fuel' k s2 (tl script) (tl ctls) indicator1 with
                 | Some (l, i) => Some ((x, ans) :: l, i)
                 | None => None
                 end
          end
      end
  end.

Definition run_for_ctl (k : kind) (filtered : bool) (p : item -> bool) (d0 : Z) (xs : list item)
           (script : list (list query)) (ctls : list ctl) : option loop_out :=
  let src := if filtered then filter p xs else xs in
  let k' := if filtered then Unsized else k in
  match run_ctl_go (S (length src)) k' (init src d0) script ctls true with
  | Some (l, i) => Some {| visited := l; else_taken := i |}       (* if t_n: <else body> *)
  | None => None
  end.

(* recursive loops: loop(children) = self._recurse(children, self._recurse, depth=self.depth);
   each node reports loop.depth0 of the LoopContext it is visited by *)
Inductive tree := Node (label : N) (children : list tree).

Fixpoint rec_loop (d0 : Z) (t : tree) : list (N * Z) :=
  match t with
  | Node l cs =>
      let s := init [] d0 in
      (l, depth0 s) :: flat_map (rec_loop (depth0 s + 1)) cs
  end.
Definition rec_forest (d0 : Z) (f : list tree) : list (N * Z) := flat_map (rec_loop d0) f.
