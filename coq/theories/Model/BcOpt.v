(* C27 — the compile-relevant options of an environment, as classes, for the shared-cache model
   (Model/Bc.v hrun takes the options of an environment as a number; [enc] is that number). *)
From Coq Require Import List NArith Bool.
Import ListNotations.
From JV Require Import Model.Bc.
Open Scope N_scope.

Record copts := {
  o_autoescape : bool;          (* autoescape: escaping calls are compiled in *)
  o_sandboxed : bool;           (* SandboxedEnvironment: calls go through environment.call *)
  o_async : bool;               (* enable_async: the root render function is an async generator *)
  o_trim_blocks : bool;
  o_lstrip_blocks : bool;
  o_keep_trailing_newline : bool;
  o_optimized : bool }.

Inductive oclass := KAutoescape | KSandboxed | KAsync | KTrim | KLstrip | KKeepNewline | KOptimized.
Definition oclasses : list oclass := [KAutoescape; KSandboxed; KAsync; KTrim; KLstrip; KKeepNewline; KOptimized].

Definition b2n (b : bool) : N := if b then 1 else 0.
Definition enc (o : copts) : N :=
  b2n (o_autoescape o) + 2 * b2n (o_sandboxed o) + 4 * b2n (o_async o) + 8 * b2n (o_trim_blocks o)
  + 16 * b2n (o_lstrip_blocks o) + 32 * b2n (o_keep_trailing_newline o) + 64 * b2n (o_optimized o).

Definition flip (k : oclass) (o : copts) : copts :=
  match k with
  | KAutoescape => {| o_autoescape := negb (o_autoescape o); o_sandboxed := o_sandboxed o; o_async := o_async o; o_trim_blocks := o_trim_blocks o; o_lstrip_blocks := o_lstrip_blocks o; o_keep_trailing_newline := o_keep_trailing_newline o; o_optimized := o_optimized o |}
  | KSandboxed => {| o_autoescape := o_autoescape o; o_sandboxed := negb (o_sandboxed o); o_async := o_async o; o_trim_blocks := o_trim_blocks o; o_lstrip_blocks := o_lstrip_blocks o; o_keep_trailing_newline := o_keep_trailing_newline o; o_optimized := o_optimized o |}
  | KAsync => {| o_autoescape := o_autoescape o; o_sandboxed := o_sandboxed o; o_async := negb (o_async o); o_trim_blocks := o_trim_blocks o; o_lstrip_blocks := o_lstrip_blocks o; o_keep_trailing_newline := o_keep_trailing_newline o; o_optimized := o_optimized o |}
  | KTrim => {| o_autoescape := o_autoescape o; o_sandboxed := o_sandboxed o; o_async := o_async o; o_trim_blocks := negb (o_trim_blocks o); o_lstrip_blocks := o_lstrip_blocks o; o_keep_trailing_newline := o_keep_trailing_newline o; o_optimized := o_optimized o |}
  | KLstrip => {| o_autoescape := o_autoescape o; o_sandboxed := o_sandboxed o; o_async := o_async o; o_trim_blocks := o_trim_blocks o; o_lstrip_blocks := negb (o_lstrip_blocks o); o_keep_trailing_newline := o_keep_trailing_newline o; o_optimized := o_optimized o |}
  | KKeepNewline => {| o_autoescape := o_autoescape o; o_sandboxed := o_sandboxed o; o_async := o_async o; o_trim_blocks := o_trim_blocks o; o_lstrip_blocks := o_lstrip_blocks o; o_keep_trailing_newline := negb (o_keep_trailing_newline o); o_optimized := o_optimized o |}
  | KOptimized => {| o_autoescape := o_autoescape o; o_sandboxed := o_sandboxed o; o_async := o_async o; o_trim_blocks := o_trim_blocks o; o_lstrip_blocks := o_lstrip_blocks o; o_keep_trailing_newline := o_keep_trailing_newline o; o_optimized := negb (o_optimized o) |}
  end.

Definition bools : list bool := [false; true].
Definition all_copts : list copts :=
  flat_map (fun a => flat_map (fun s => flat_map (fun y => flat_map (fun t => flat_map (fun l => flat_map (fun k => map (fun p =>
    {| o_autoescape := a; o_sandboxed := s; o_async := y; o_trim_blocks := t; o_lstrip_blocks := l; o_keep_trailing_newline := k; o_optimized := p |})
    bools) bools) bools) bools) bools) bools) bools.

(* two environments e0 (options o) and e1 (options differing in class k) share a cache: e0 loads, then e1 loads *)
Definition stale_witness (H : N -> N) (k : oclass) (o : copts) : bool :=
  let opts_of := fun e => if e =? 0 then enc o else enc (flip k o) in
  match snd (hrun H opts_of (world0 (fun _ => 7)) [HLoad 0 1; HLoad 1 1]) with
  | [Some c0; Some c1] => (snd c1 =? enc o) && negb (enc o =? enc (flip k o))      (* e1 is served e0's code, which is not its own *)
  | _ => false
  end.
