(* M — compile-time evaluation: nodes.py as_const per node kind, optimizer.Optimizer,
   compiler.optimizeconst, compiler._output_child_to_const.  Definitions only.
   The model follows /repo AFTER the two fix: commits of C08 (Concat.as_const is
   Markup-aware and refuses volatile contexts; output children are not folded in a
   volatile frame). *)
From Coq Require Import List NArith ZArith Bool.
Import ListNotations.
From JV Require Import Model.ExprAst Model.ExprPrim Spec.ExprSpec Model.ExprTarget.

(* as_const: a constant, nodes.Impossible, or "the model cannot tell" (float arithmetic,
   printf, ... : the real engine may fold, the model does not know the value) *)
Inductive fres := FConst (v : value) | FImp | FOpq.

(* except Exception: raise Impossible *)
Definition of_res (r : res value) : fres :=
  match r with Ok v => FConst v | Err EOpaque => FOpq | Err _ => FImp end.

(* _FilterTestCommon.as_const and _output_child_to_const (fix 530e0cd): a value that does not read back as itself
   (undefined, objects; sets in the real engine) is not folded *)
Definition guard_safe (f : fres) : fres :=
  match f with FConst v => if safe_repr v then FConst v else FImp | o => o end.

Inductive lres := LConst (vs : list value) | LImp | LOpq.

(* [x.as_const(eval_ctx) for x in nodes]: the first element that is not constant decides *)
Fixpoint consts (f : expr -> fres) (l : list expr) : lres :=
  match l with
  | [] => LConst []
  | x :: r => match f x with
              | FConst v => match consts f r with LConst vs => LConst (v :: vs) | o => o end
              | FImp => LImp
              | FOpq => LOpq
              end
  end.

Definition aco (f : expr -> fres) (o : option expr) (k : option value -> fres) : fres :=
  match o with
  | None => k None
  | Some x => match f x with FConst v => k (Some v) | o => o end
  end.

(* Compare.as_const: the loop over the operands *)
Fixpoint cmp_consts (f : expr -> fres) (v : value) (l : list (cmpop * expr)) : fres :=
  match l with
  | [] => FConst v
  | (op, x) :: r =>
      match f x with
      | FConst vb =>
          match prim_cmp op v vb with
          | Ok t => match r with
                    | [] => FConst t
                    | _ => if truth t then cmp_consts f vb r else FConst (VBool false)
                    end
          | Err EOpaque => FOpq
          | Err _ => FImp
          end
      | o => o
      end
  end.

Inductive pres2 := PConst (ps : list (value * value)) | PImp | POpq.
Fixpoint pair_consts (f : expr -> fres) (l : list (expr * expr)) : pres2 :=
  match l with
  | [] => PConst []
  | (k, x) :: r =>
      match f k with
      | FConst vk =>
          match f x with
          | FConst vx => match pair_consts f r with PConst ps => PConst ((vk, vx) :: ps) | o => o end
          | FImp => PImp
          | FOpq => POpq
          end
      | FImp => PImp
      | FOpq => POpq
      end
  end.

(* the recursion is on a fuel argument (as in eval); as_const below supplies the depth of
   the expression, which is always enough *)
Fixpoint as_const_n (O : oracles) (c : cfg) (m : nat) (e : expr) : fres :=
  match m with
  | O => FImp
  | S m =>
  let acl := consts (as_const_n O c m) in
  match e with
  | EConst v => FConst v
  | EName _ => FImp
  | EBin op a b =>
      if sandboxed c && ibin c op then FImp else
      match as_const_n O c m a with
      | FConst va => match as_const_n O c m b with FConst vb => of_res (prim_bin op va vb) | o => o end
      | o => o
      end
  | EUn op a =>
      if sandboxed c && iun c op then FImp else
      match as_const_n O c m a with FConst va => of_res (prim_un op va) | o => o end
  | ENot a => match as_const_n O c m a with FConst va => FConst (VBool (negb (truth va))) | o => o end
  | EAnd a b => match as_const_n O c m a with FConst va => if truth va then as_const_n O c m b else FConst va | o => o end
  | EOr a b => match as_const_n O c m a with FConst va => if truth va then FConst va else as_const_n O c m b | o => o end
  | EConcat es =>
      if volatile c then FImp else
      match acl es with
      | LConst vs => of_res (if autoescape c then markup_join vs else str_join vs)
      | LImp => FImp | LOpq => FOpq
      end
  | ECompare a ops =>
      match as_const_n O c m a with
      | FConst va => cmp_consts (as_const_n O c m) va ops
      | o => o
      end
  | ECond t a b =>
      match as_const_n O c m t with
      | FConst vt => if truth vt then as_const_n O c m a
                     else match b with Some b => as_const_n O c m b | None => FImp end
      | o => o
      end
  | EGetattr a name =>
      match as_const_n O c m a with FConst va => of_res (env_getattr c O va name) | o => o end
  | EGetitem a k =>
      match as_const_n O c m a with
      | FConst va => match as_const_n O c m k with FConst vk => of_res (env_getitem c O va vk) | o => o end
      | o => o
      end
  | ESlice a lo hi st =>
      (* Getitem.as_const subscripts directly when the argument is a slice, as the generated
         code does (after the fix: commit of C08; it used to go through environment.getitem,
         whose except clause turned TypeError / LookupError into an undefined constant) *)
      match as_const_n O c m a with
      | FConst va =>
          aco (as_const_n O c m) lo (fun vlo => aco (as_const_n O c m) hi (fun vhi => aco (as_const_n O c m) st (fun vst =>
            of_res (py_slice va vlo vhi vst))))
      | o => o
      end
  | EList es => match acl es with LConst vs => FConst (VList vs) | LImp => FImp | LOpq => FOpq end
  | ETuple es => match acl es with LConst vs => FConst (VTuple vs) | LImp => FImp | LOpq => FOpq end
  | EDict kvs =>
      match pair_consts (as_const_n O c m) kvs with
      | PConst ps => match mk_dict [] ps with Ok d => FConst (VDict d) | Err _ => FImp end   (* except Exception -> Impossible (fix cf88736) *)
      | PImp => FImp
      | POpq => FOpq
      end
  | ECall _ _ _ => FImp
  | EFilter a name args =>
      if volatile c then FImp else
      match filter_kind name with
      | None => FImp
      | Some FContext => FImp
      | Some _ =>
          if is_async c && filter_async_variant name then FImp else
          match acl args with
          | LConst vargs =>
              match as_const_n O c m a with
              | FConst va => guard_safe (of_res (apply_filter (autoescape c) name va vargs))
              | o => o
              end
          | LImp => FImp | LOpq => FOpq
          end
      end
  | ETest a name args =>
      if volatile c then FImp else
      if negb (test_known name) then FImp else
      match acl args with
      | LConst vargs =>
          match as_const_n O c m a with
          | FConst va => guard_safe (of_res (apply_test name va vargs))
          | o => o
          end
      | LImp => FImp | LOpq => FOpq
      end
  end
  end.

Definition as_const (O : oracles) (c : cfg) (e : expr) : fres := as_const_n O c (depth e) e.

(* Optimizer.generic_visit: children first, then Const.from_untrusted(node.as_const()) *)
Definition fold (O : oracles) (c : cfg) (e : expr) : expr :=
  match as_const O c e with
  | FConst v => if safe_repr v then EConst v else e
  | _ => e
  end.

Fixpoint optimize (O : oracles) (c : cfg) (e : expr) : expr :=
  let oo := option_map (optimize O c) in
  match e with
  | EConst v => EConst v
  | EName x => EName x
  | EBin op a b => fold O c (EBin op (optimize O c a) (optimize O c b))
  | EUn op a => fold O c (EUn op (optimize O c a))
  | ENot a => fold O c (ENot (optimize O c a))
  | EAnd a b => fold O c (EAnd (optimize O c a) (optimize O c b))
  | EOr a b => fold O c (EOr (optimize O c a) (optimize O c b))
  | EConcat es => fold O c (EConcat (map (optimize O c) es))
  | ECompare a ops => fold O c (ECompare (optimize O c a) (map (fun p : cmpop * expr => (fst p, optimize O c (snd p))) ops))
  | ECond t a b => fold O c (ECond (optimize O c t) (optimize O c a) (oo b))
  | EGetattr a name => fold O c (EGetattr (optimize O c a) name)
  | EGetitem a k => fold O c (EGetitem (optimize O c a) (optimize O c k))
  | ESlice a lo hi st => fold O c (ESlice (optimize O c a) (oo lo) (oo hi) (oo st))
  | EList es => fold O c (EList (map (optimize O c) es))
  | ETuple es => fold O c (ETuple (map (optimize O c) es))
  | EDict kvs => fold O c (EDict (map (fun p : expr * expr => (optimize O c (fst p), optimize O c (snd p))) kvs))
  | ECall f args kw =>
      ECall (optimize O c f) (map (optimize O c) args) (map (fun p : str * expr => (fst p, optimize O c (snd p))) kw)
  | EFilter a name args => fold O c (EFilter (optimize O c a) name (map (optimize O c) args))
  | ETest a name args => fold O c (ETest (optimize O c a) name (map (optimize O c) args))
  end.

(* compiler.optimizeconst: the optimizer runs unless disabled or the frame is volatile *)
Definition opt_on (c : cfg) : bool := optimized c && negb (volatile c).

(* visit_List / visit_Tuple / visit_Dict / visit_Const / visit_Name are not decorated: the
   optimizer first runs at the outermost decorated nodes below them *)
Fixpoint pre_opt_on (O : oracles) (c : cfg) (e : expr) : expr :=
  match e with
  | EList es => EList (map (pre_opt_on O c) es)
  | ETuple es => ETuple (map (pre_opt_on O c) es)
  | EDict kvs => EDict (map (fun p : expr * expr => (pre_opt_on O c (fst p), pre_opt_on O c (snd p))) kvs)
  | _ => optimize O c e
  end.

Definition pre_opt (O : oracles) (c : cfg) (e : expr) : expr :=
  if opt_on c then pre_opt_on O c e else e.

(* the code the compiler emits for an expression *)
Definition gen_opt (O : oracles) (c : cfg) (e : expr) : target := gen c (pre_opt O c e).

(* visit_Output for one {{ e }} child: either constant text written into the template
   module at compile time, or code evaluated at run time *)
Inductive out_code := OutConst (s : str) | OutRun (t : target).

Definition output_child (O : oracles) (c : cfg) (e : expr) : out_code :=
  if volatile c then OutRun (gen_opt O c e) else
  match as_const O c e with
  | FConst v =>
      if negb (safe_repr v) then OutRun (gen_opt O c e) else
      match (if autoescape c then escape v else Ok v) with
      | Ok v' => match to_str v' with Some s => OutConst s | None => OutRun (gen_opt O c e) end
      | Err _ => OutRun (gen_opt O c e)
      end
  | _ => OutRun (gen_opt O c e)
  end.

(* the text {{ e }} contributes to the rendering *)
Definition render_child (O : oracles) (c : cfg) (n : nat) (e : expr) (rho : env) : M str :=
  match output_child O c e with
  | OutConst s => ret s
  | OutRun t => v <- py_eval O c n t rho ;; lift (out_text c v)
  end.
