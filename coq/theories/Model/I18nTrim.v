(* C33 (second part): trimmed blocks at the level of block tokens, and extract_from_ast over a
   generic AST.  Executable definitions only.

   Tokens: a block is a sequence of characters and {{ name }} references; a reference is not
   whitespace.  trim_toks is the documented reading of `trimmed` (strip, then every whitespace
   run containing a line break becomes one space) on tokens; I18nTrimProofs shows that the
   scanner trim_ws of I18nModel (= ext._trim_whitespace on the FORMAT STRING) computes the
   format string of the trimmed token sequence. *)
From Coq Require Import List NArith Bool.
From JV Require Import Model.EscMarkup Model.I18nModel.
Import ListNotations.
Open Scope N_scope.

Inductive tok := Ch (c : N) | Var (nm : str).

Definition tok_ws (t : tok) : bool := match t with Ch c => is_ws c | Var _ => false end.
Definition tok_nl (t : tok) : bool := match t with Ch c => is_nl c | Var _ => false end.

Fixpoint lstrip_t (ts : list tok) : list tok :=
  match ts with [] => [] | t :: r => if tok_ws t then lstrip_t r else ts end.
Definition strip_t (ts : list tok) : list tok := rev (lstrip_t (rev (lstrip_t ts))).
Definition flush_t (run : list tok) (nl : bool) : list tok := if nl then [Ch 32] else rev run.
Fixpoint collapse_t (run : list tok) (nl : bool) (ts : list tok) : list tok :=
  match ts with
  | [] => flush_t run nl
  | t :: r => if tok_ws t then collapse_t (t :: run) (nl || tok_nl t) r
              else flush_t run nl ++ t :: collapse_t [] false r
  end.
Definition trim_toks (ts : list tok) : list tok := collapse_t [] false (strip_t ts).

Definition tok_fmt (t : tok) : str :=
  match t with
  | Ch c => if c =? PCT then [PCT; PCT] else [c]
  | Var nm => PCT :: LPAR :: nm ++ [RPAR; CH_s]
  end.
Definition fmt_toks (ts : list tok) : str := flat_map tok_fmt ts.

Definition piece_toks (p : piece) : list tok :=
  match p with PText s => map Ch s | PVar nm => [Var nm] end.
Definition toks_of_block (b : list piece) : list tok := flat_map piece_toks b.
Definition tok_piece (t : tok) : piece := match t with Ch c => PText [c] | Var nm => PVar nm end.
Definition block_of_toks (ts : list tok) : list piece := map tok_piece ts.

(* the block a trimmed block stands for *)
Definition trim_block (b : list piece) : list piece := block_of_toks (trim_toks (toks_of_block b)).

Definition nows (s : str) : bool := forallb (fun c => negb (is_ws c)) s.
Definition names_nows (b : list piece) : bool :=
  forallb (fun p => match p with PText _ => true | PVar nm => nows nm end) b.

(* ------------------------------------------------------------------ generic AST *)
(* nodes.Call(node, args, kwargs, dyn_args, dyn_kwargs); kwargs are the Keyword nodes;
   dyn = the present ones of dyn_args, dyn_kwargs; ANode = any other node with its children in
   iter_child_nodes order; AConstStr = Const holding a str *)
Inductive ast :=
| ACall (callee : ast) (args : list ast) (kwargs : list ast) (dyn : list ast)
| AName (nm : str)
| AConstStr (s : str)
| ANode (children : list ast).

Definition self_call (x : ast) : list ast := match x with ACall _ _ _ _ => [x] | _ => [] end.

(* Node.find_all(Call): for child in iter_child_nodes(): if Call: yield child; yield from child.find_all(Call) *)
Fixpoint find_calls (t : ast) : list ast :=
  let fix go (l : list ast) : list ast :=
    match l with [] => [] | x :: r => self_call x ++ find_calls x ++ go r end in
  match t with
  | ACall c a k d => self_call c ++ find_calls c ++ go a ++ go k ++ go d
  | ANode l => go l
  | AName _ => []
  | AConstStr _ => []
  end.

Definition children (t : ast) : list ast :=
  match t with ACall c a k d => c :: a ++ k ++ d | ANode l => l | _ => [] end.

Definition gettext_functions : list str :=
  [[95]; [103;101;116;116;101;120;116]; [110;103;101;116;116;101;120;116];
   [112;103;101;116;116;101;120;116]; [110;112;103;101;116;116;101;120;116]].
Definition is_gettext (nm : str) : bool := existsb (str_eqb nm) gettext_functions.

Definition arg_string (a : ast) : option str := match a with AConstStr s => Some s | _ => None end.

(* one result of extract_from_ast (babel style): function name, one slot per argument *)
Definition entry (c : ast) : option (str * list (option str)) :=
  match c with
  | ACall (AName nm) args kw dyn =>
      if is_gettext nm
      then Some (nm, map arg_string args ++ map (fun _ => None) kw ++ map (fun _ => None) dyn)
      else None
  | _ => None
  end.

Fixpoint filter_map {A B : Type} (f : A -> option B) (l : list A) : list B :=
  match l with [] => [] | x :: r => match f x with Some y => y :: filter_map f r | None => filter_map f r end end.

Definition extract (t : ast) : list (str * list (option str)) := filter_map entry (find_calls t).

(* the node _make_node builds for a trans block: Output([ (MarkSafeIfAutoescape(call)) % dict ])
   resp. Output([call(..., **variables)]); the count expression and the variable expressions are
   arbitrary sub-ASTs *)
Definition s_gettext : str := [103;101;116;116;101;120;116].
Definition call_name (c : call) : str :=
  (match c_plur c with Some _ => [110] | None => [] end) ++
  (match c_ctx c with Some _ => [112] | None => [] end) ++ s_gettext.
Definition call_args (c : call) (count : ast) : list ast :=
  (match c_ctx c with Some x => [AConstStr x] | None => [] end) ++ [AConstStr (c_sing c)] ++
  (match c_plur c with Some p => [AConstStr p; count] | None => [] end).
Definition trans_node (newstyle : bool) (c : call) (count : ast) (varexprs : list ast) : ast :=
  if newstyle then ANode [ACall (AName (call_name c)) (call_args c count) (map (fun e => ANode [e]) varexprs) []]
  else ANode [ANode [ANode [ACall (AName (call_name c)) (call_args c count) [] []]; ANode varexprs]].
