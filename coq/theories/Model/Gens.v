(* C36 — async rendering closes the generators it opens.

   A render is a tree of async generators.  Items are what a frame does while it is the running
   frame; children are created at sites that are guarded (try/finally: await gen.aclose(), or
   async with aclosing(gen)) or not:
     Await        an await of data: the place where a cancellation is delivered
     Emit         the frame yields a chunk that travels, through the re-yield loops of its
                  ancestors, to the consumer of the render: the place where the consumer may stop
     Point        any other place where evaluating data may raise
     Sub g c      create a child generator and re-yield everything it yields
                  (async for event in gen: yield event): block, include, parent template root,
                  the root generator under generate_async; the child runs c in its own frame
     Side g b     create a child generator that yields *elements* (the loop-filter function t_N)
                  and run the loop body b in the current frame for them, the child being suspended
     Collect c    iterate a child generator to the end inside an async comprehension
                  (render_async, make_module_async, super() / self.block()): nothing its frames
                  yield reaches the consumer, and the comprehension has no body that could raise
                  while the child is suspended
   Executable definitions only; proofs live in Proofs/GensProofs.v. *)
From Coq Require Import List NArith Bool Arith.
Import ListNotations.

Inductive item :=
| Await | Emit | Point
| Sub (g : bool) (c : list item)
| Side (g : bool) (b : list item)
| Collect (c : list item).

(* a live generator frame on the path from the root of the render to the running frame:
   the guard of the site that created it and the guards of the element-yielding children that
   are suspended below it *)
Record frame := { link : bool; sides : list bool }.

(* head = the current (innermost) frame *)
Definition path := list frame.

Definition add_side (g : bool) (p : path) : path :=
  match p with
  | [] => []
  | f :: r => {| link := link f; sides := g :: sides f |} :: r
  end.

Inductive ptkind := PAwait | PEmit | PPoint.

Definition absorb (k : ptkind) : ptkind := match k with PEmit => PPoint | _ => k end.

(* all interruption points of a frame body, in execution order, each with the configuration
   of live generators at that moment *)
Fixpoint points_item (p : path) (i : item) : list (ptkind * path) :=
  match i with
  | Await => [(PAwait, p)]
  | Emit => [(PEmit, p)]
  | Point => [(PPoint, p)]
  | Sub g c =>
      (fix go (l : list item) : list (ptkind * path) :=
         match l with [] => [] | x :: r => points_item ({| link := g; sides := [] |} :: p) x ++ go r end) c
  | Side g b =>
      (fix go (l : list item) : list (ptkind * path) :=
         match l with [] => [] | x :: r => points_item (add_side g p) x ++ go r end) b
  | Collect c =>
      map (fun kp => (absorb (fst kp), snd kp))
        ((fix go (l : list item) : list (ptkind * path) :=
            match l with [] => [] | x :: r => points_item ({| link := true; sides := [] |} :: p) x ++ go r end) c)
  end.

Definition points (p : path) (t : list item) : list (ptkind * path) := flat_map (points_item p) t.

Definition count_false (l : list bool) : nat := length (filter negb l).

(* An exception that starts in the running frame (data raises, or CancelledError is thrown at
   an await) unwinds every frame of the path: a frame left by an exception is finished.  The
   suspended element-yielding children are closed only by a guard. *)
Definition leak_up (p : path) : nat := fold_right (fun f n => count_false (sides f) + n) 0 p.

Definition frames_below (p : list frame) : nat := fold_right (fun f n => 1 + length (sides f) + n) 0 p.

(* The consumer stops at a chunk: GeneratorExit is thrown into the outermost frame, which is
   suspended at its (re-)yield.  Frames are listed root first.  A frame that receives it closes
   its suspended children only through guards: an unguarded re-yield site leaves the child and
   everything below it suspended. *)
Fixpoint leak_down (root_first : list frame) : nat :=
  match root_first with
  | [] => 0
  | f :: r =>
      count_false (sides f) +
      match r with
      | [] => 0
      | c :: _ => if link c then leak_down r else frames_below r
      end
  end.

(* the operations of the property *)
Inductive op :=
| Complete                 (* run to the end *)
| RaiseAt (k : nat)        (* data raises at the k-th interruption point *)
| StopAfter (k : nat)      (* the consumer stops (aclose) at the k-th emitted chunk *)
| CancelAt (k : nat).      (* the task is cancelled at the k-th await *)

Definition is_kind (k : ptkind) (kp : ptkind * path) : bool :=
  match k, fst kp with PAwait, PAwait | PEmit, PEmit | PPoint, PPoint => true | _, _ => false end.

(* number of generators still open when the task ends *)
Definition leaked (top : path) (t : list item) (o : op) : nat :=
  match o with
  | Complete => 0
  | RaiseAt k => match nth_error (points top t) k with Some kp => leak_up (snd kp) | None => 0 end
  | StopAfter k => match nth_error (filter (is_kind PEmit) (points top t)) k with
                   | Some kp => leak_down (rev (snd kp)) | None => 0 end
  | CancelAt k => match nth_error (filter (is_kind PAwait) (points top t)) k with
                  | Some kp => leak_up (snd kp) | None => 0 end
  end.

(* every creation site of the tree is guarded *)
Fixpoint guarded_item (i : item) : bool :=
  match i with
  | Await | Emit | Point => true
  | Sub g c => g && (fix go (l : list item) : bool := match l with [] => true | x :: r => guarded_item x && go r end) c
  | Side g b => g && (fix go (l : list item) : bool := match l with [] => true | x :: r => guarded_item x && go r end) b
  | Collect c => (fix go (l : list item) : bool := match l with [] => true | x :: r => guarded_item x && go r end) c
  end.
Definition all_guarded (t : list item) : bool := forallb guarded_item t.

Definition frame_ok (f : frame) : bool := link f && forallb (fun b => b) (sides f).
Definition path_ok (p : path) : bool := forallb frame_ok p.

(* the consumer of the whole render: the generator of generate_async, closed by its caller *)
Definition top_path : path := [{| link := true; sides := [] |}].

(* number of generators the run creates (for the statement "opened = closed") *)
Fixpoint opened_item (i : item) : nat :=
  match i with
  | Await | Emit | Point => 0
  | Sub _ c | Collect c => 1 + (fix go (l : list item) : nat := match l with [] => 0 | x :: r => opened_item x + go r end) c
  | Side _ b => 1 + (fix go (l : list item) : nat := match l with [] => 0 | x :: r => opened_item x + go r end) b
  end.

(* the guards of all creation sites of a tree *)
Fixpoint guards_item (i : item) : list bool :=
  match i with
  | Await | Emit | Point => []
  | Sub g c => g :: (fix go (l : list item) : list bool := match l with [] => [] | x :: r => guards_item x ++ go r end) c
  | Side g b => g :: (fix go (l : list item) : list bool := match l with [] => [] | x :: r => guards_item x ++ go r end) b
  | Collect c => (fix go (l : list item) : list bool := match l with [] => [] | x :: r => guards_item x ++ go r end) c
  end.
Definition tree_guards (t : list item) : list bool := flat_map guards_item t.

(* rows of the table regenerated from the generated Python and from environment.py / runtime.py *)
Inductive skind := KSub | KSide | KCollect.
Definition site_ok (s : skind * bool) : bool := match fst s with KCollect => true | _ => snd s end.
Definition sites_ok (l : list (skind * bool)) : bool := forallb site_ok l.
