(* C27 — model of jinja2.bccache.  Executable definitions only.

   Bucket.load_bytecode     bccache.py:63-85  over an OUTCOME model of pickle.load / marshal.load (arguments
                            of the model; a toy instance below makes it runnable) and a HANDLER TABLE
                            (which exception classes the try around each call catches) that the check
                            regenerates from bccache.py with gen/bc_handlers.py
   FileSystemBytecodeCache.dump_bytecode  bccache.py:275-311 as steps over a crash-aware file system:
                            create temp file / write chunks / close / os.replace; a crash stops after any
                            step, a fault (exception) runs the handler that removes the temp file
   BaseLoader.load + BytecodeCache.get_bucket / set_bucket  as a history model over an abstract cache
                            key |-> (checksum, code), code = (source, options of the compiling environment) *)
From Coq Require Import List NArith Bool.
Import ListNotations.
Open Scope N_scope.

Definition bytes := list N.

Fixpoint bytes_eqb (a b : bytes) : bool :=
  match a, b with
  | [], [] => true
  | x :: a', y :: b' => (x =? y) && bytes_eqb a' b'
  | _, _ => false
  end.

(* ---------------------------------------------------------------- exceptions and handlers *)
Inductive exn :=
| EEOF | EValue | EType | EUnpickling | EAttribute | EImport | EIndex | EKey | EUnicodeDecode
| EMemory | EOverflow | EOtherException
| ENotException.            (* KeyboardInterrupt, SystemExit, ...: BaseException but not Exception *)

Definition exn_tag (e : exn) : N :=
  match e with
  | EEOF => 0 | EValue => 1 | EType => 2 | EUnpickling => 3 | EAttribute => 4 | EImport => 5 | EIndex => 6
  | EKey => 7 | EUnicodeDecode => 8 | EMemory => 9 | EOverflow => 10 | EOtherException => 11 | ENotException => 12
  end.
Definition exn_eqb (a b : exn) : bool := exn_tag a =? exn_tag b.

(* a name in an except clause *)
Inductive hclass := HBaseException | HException | HClass (e : exn) | HLookupError | HArithmeticError.

(* isinstance(e, h) in CPython's class lattice, for the classes above *)
Definition is_instance (e : exn) (h : hclass) : bool :=
  match h with
  | HBaseException => true
  | HException => negb (exn_eqb e ENotException)
  | HClass c => exn_eqb e c || (exn_eqb e EUnicodeDecode && exn_eqb c EValue)
  | HLookupError => exn_eqb e EIndex || exn_eqb e EKey
  | HArithmeticError => exn_eqb e EOverflow
  end.
Definition catches (hs : list hclass) (e : exn) : bool := existsb (is_instance e) hs.

(* handler table of load_bytecode: classes caught around pickle.load and around marshal.load
   ([] = the call is not inside a try) *)
Record htable := { h_pickle : list hclass; h_marshal : list hclass }.

(* ---------------------------------------------------------------- load_bytecode *)
Inductive pres := POk (checksum : N) (rest : bytes) | PExn (e : exn).
Inductive mres := MOk (code : N) | MExn (e : exn).
Inductive lres := Hit (code : N) | Miss | Raise (e : exn).

Definition load_bytecode (magic : bytes) (pickle_load : bytes -> pres) (marshal_load : bytes -> mres)
    (tbl : htable) (want : N) (data : bytes) : lres :=
  let n := length magic in
  if negb (bytes_eqb (firstn n data) magic) then Miss                        (* magic != bc_magic *)
  else match pickle_load (skipn n data) with
       | PExn e => if catches (h_pickle tbl) e then Miss else Raise e
       | POk c rest =>
           if negb (c =? want) then Miss                                      (* checksum mismatch *)
           else match marshal_load rest with
                | MExn e => if catches (h_marshal tbl) e then Miss else Raise e
                | MOk code => Hit code
                end
       end.

(* write_bytecode: magic, pickled checksum, marshalled code *)
Definition entry (magic : bytes) (pk : N -> bytes) (mk : N -> bytes) (checksum code : N) : bytes :=
  magic ++ pk checksum ++ mk code.

(* ---------------------------------------------------------------- a toy framing (runnable instance) *)
(* pickle: 200 <value> 201, marshal: 210 <value> 211; a proper prefix is EOF, anything else malformed *)
Definition toy_pk (c : N) : bytes := [200; c; 201].
Definition toy_mk (c : N) : bytes := [210; c; 211].
Definition exn_of_tag (t : N) : exn :=
  match t with
  | 0 => EEOF | 1 => EValue | 2 => EType | 3 => EUnpickling | 4 => EAttribute | 5 => EImport | 6 => EIndex
  | 7 => EKey | 8 => EUnicodeDecode | 9 => EMemory | 10 => EOverflow | _ => EOtherException
  end.
(* a first byte 100 + t stands for "a corrupt pickle on which pickle.load raises the class with tag t" *)
Definition toy_pickle_load (b : bytes) : pres :=
  match b with
  | [] => PExn EEOF
  | x :: r => if x =? 200 then
                match r with
                | [] => PExn EEOF
                | c :: r2 => match r2 with
                             | [] => PExn EUnpickling                          (* "pickle data was truncated" *)
                             | y :: rest => if y =? 201 then POk c rest else PExn EUnpickling
                             end
                end
              else if (100 <=? x) && (x <=? 111) then PExn (exn_of_tag (x - 100))
              else PExn EUnpickling
  end.
Definition toy_marshal_load (b : bytes) : mres :=
  match b with
  | [] => MExn EEOF
  | x :: r => if x =? 210 then
                match r with
                | [] => MExn EEOF
                | c :: r2 => match r2 with
                             | [] => MExn EEOF
                             | y :: _ => if y =? 211 then MOk c else MExn EValue
                             end
                end
              else if x =? 120 then MExn EEOF
              else if x =? 122 then MExn EType
              else MExn EValue
  end.
Definition toy_load (magic : bytes) (tbl : htable) (want : N) (data : bytes) : lres :=
  load_bytecode magic toy_pickle_load toy_marshal_load tbl want data.

(* ---------------------------------------------------------------- crash-aware file system *)
Definition fname := N.
Definition fsys := fname -> option bytes.
Definition fupd (s : fsys) (f : fname) (v : option bytes) : fsys := fun g => if g =? f then v else s g.

Inductive wstep :=
| WCreate                   (* tempfile.NamedTemporaryFile(..., delete=False) *)
| WWrite (chunk : bytes)    (* data reaching the temp file *)
| WClose
| WReplace.                 (* os.replace(tmp, name) — atomic *)

Definition exec_step (real tmp : fname) (s : fsys) (w : wstep) : fsys :=
  match w with
  | WCreate => fupd s tmp (Some [])
  | WWrite c => fupd s tmp (Some (match s tmp with Some cur => cur ++ c | None => c end))
  | WClose => s
  | WReplace => fupd (fupd s real (s tmp)) tmp None
  end.

Definition dump_steps (chunks : list bytes) : list wstep :=
  (WCreate :: map WWrite chunks ++ [WClose]) ++ [WReplace].

(* the process dies after k steps: nothing else happens *)
Definition crash_after (real tmp : fname) (s0 : fsys) (chunks : list bytes) (k : nat) : fsys :=
  fold_left (exec_step real tmp) (firstn k (dump_steps chunks)) s0.
(* step k+1 raises: the except branch removes the temp file (remove_silent) *)
Definition fault_after (real tmp : fname) (s0 : fsys) (chunks : list bytes) (k : nat) : fsys :=
  fupd (crash_after real tmp s0 chunks k) tmp None.

(* ---------------------------------------------------------------- histories over a shared cache *)
Definition code := (N * N)%type.                 (* compile source options = (source, options) *)
Record world := {
  srcs : N -> N;                                 (* template name |-> current source *)
  bcache : N -> option (N * code) }.             (* cache key (= name) |-> (checksum, code) *)

Inductive hop :=
| HLoad (e : N) (n : N)        (* environment e loads template n through the shared cache *)
| HModify (n : N) (s : N)
| HClear.

Section History.
  Variable H : N -> N.                            (* sha1 of the source *)
  Variable opts_of : N -> N.                      (* compile-relevant options of environment e *)

  (* BaseLoader.load with a bytecode cache: get_bucket (load + checksum test), compile on a
     miss, set_bucket *)
  Definition hload (w : world) (e n : N) : world * code :=
    let s := srcs w n in
    let fresh := (s, opts_of e) in
    let store := ({| srcs := srcs w; bcache := fun k => if k =? n then Some (H s, fresh) else bcache w k |}, fresh) in
    match bcache w n with
    | Some (ck, c) => if ck =? H s then (w, c) else store
    | None => store
    end.

  Definition hstep (w : world) (o : hop) : world * option code :=
    match o with
    | HLoad e n => let '(w', c) := hload w e n in (w', Some c)
    | HModify n s => ({| srcs := fun k => if k =? n then s else srcs w k; bcache := bcache w |}, None)
    | HClear => ({| srcs := srcs w; bcache := fun _ => None |}, None)
    end.

  Fixpoint hrun (w : world) (h : list hop) : world * list (option code) :=
    match h with
    | [] => (w, [])
    | o :: r => let '(w', x) := hstep w o in let '(w'', xs) := hrun w' r in (w'', x :: xs)
    end.
End History.

Definition world0 (s0 : N -> N) : world := {| srcs := s0; bcache := fun _ => None |}.
