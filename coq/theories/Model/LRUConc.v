(* Concurrent use of LRUCache (C26): every operation the template and lexer caches rely on
   (get, __getitem__, __setitem__, __delitem__, __contains__, clear) runs inside one critical
   section of _wlock.  The micro-step decomposition keeps the one intermediate state in which
   the mapping is neither the old nor the new one: between the eviction/removal and the
   insertion of __setitem__. *)
From Coq Require Import List NArith Bool.
Import ListNotations.
From JV Require Import Model.LRU.
Open Scope N_scope.

(* first half of __setitem__: remove the key from the queue, or evict the oldest entry *)
Definition setitem_phase1 (k : key) (s : lru) : lru :=
  match lookup k (mapping s) with
  | Some _ => match qremove k (queue s) with
              | Some q' => {| cap := cap s; mapping := mapping s; queue := q' |}
              | None => s
              end
  | None =>
      if mlen (mapping s) =? cap s then
        match queue s with
        | old :: q' => {| cap := cap s; mapping := mdel old (mapping s); queue := q' |}
        | [] => s
        end
      else s
  end.
(* second half: self._append(key); self._mapping[key] = value *)
Definition setitem_phase2 (k : key) (v : val) (s : lru) : lru :=
  {| cap := cap s; mapping := mset k v (mapping s); queue := queue s ++ [k] |}.

Definition is_exn (x : out) : bool := match x with OExn _ => true | _ => false end.

Definition decomp (o : op) (s : lru) : list (lru -> lru) :=
  match o with
  | SetItem k v =>
      if is_exn (snd (setitem s k v)) then [fun _ => fst (setitem s k v)]
      else [setitem_phase1 k; setitem_phase2 k v]
  | _ => [fun s' => fst (step s' o)]
  end.

(* operations the property quantifies over for the concurrent half *)
Definition conc_op (o : op) : bool :=
  match o with
  | Get _ _ | GetItem _ | SetItem _ _ | DelItem _ | Contains _ | Clear => true
  | _ => false
  end.
