(* C10: the vocabulary of TemplateStream's methods the model Model/Stream.v was written against
   (locals renamed v0, v1, ... in order of first occurrence).  The current source's vocabulary is
   regenerated on every run by gen/stream_facts.py and compared with this table in both directions:
   the buffer is flushed by the COUNT of non-empty pieces only (no len(), no size thresholds, no
   further state), buffer sizes <= 1 raise ValueError, dump feeds one incremental encoder and falls
   back from writelines to write item by item. *)
From Coq Require Import List String Bool.
Import ListNotations.
Open Scope string_scope.

Definition fact_eqb (a b : string * string * string) : bool :=
  String.eqb (fst (fst a)) (fst (fst b)) && String.eqb (snd (fst a)) (snd (fst b)) && String.eqb (snd a) (snd b).

Definition expected_facts : list (string * string * string) := [
  ("__init__", "call", "self.disable_buffering");
  ("__init__", "store", "self._gen");
  ("__iter__", "return", "self");
  ("__next__", "call", "self._next");
  ("__next__", "return", "self._next()");
  ("_buffered_generator", "call", "concat");
  ("_buffered_generator", "call", "next");
  ("_buffered_generator", "call", "v3");
  ("_buffered_generator", "cmp", "Lt v2 v0");
  ("_buffered_generator", "const", "0");
  ("_buffered_generator", "const", "1");
  ("_buffered_generator", "const", "True");
  ("_buffered_generator", "del", "v1[:]");
  ("_buffered_generator", "except", "StopIteration");
  ("_buffered_generator", "if", "not v2");
  ("_buffered_generator", "if", "v4");
  ("_buffered_generator", "return", "");
  ("_buffered_generator", "store", "v1");
  ("_buffered_generator", "store", "v2");
  ("_buffered_generator", "store", "v2 Add");
  ("_buffered_generator", "store", "v3");
  ("_buffered_generator", "store", "v4");
  ("_buffered_generator", "while", "True");
  ("_buffered_generator", "while", "v2 < v0");
  ("_buffered_generator", "yield", "concat(v1)");
  ("disable_buffering", "call", "partial");
  ("disable_buffering", "const", "False");
  ("disable_buffering", "store", "self._next");
  ("disable_buffering", "store", "self.buffered");
  ("dump", "call", "codecs.getincrementalencoder");
  ("dump", "call", "codecs.getincrementalencoder(v1)");
  ("dump", "call", "hasattr");
  ("dump", "call", "isinstance");
  ("dump", "call", "open");
  ("dump", "call", "v4.close");
  ("dump", "call", "v4.write");
  ("dump", "call", "v4.writelines");
  ("dump", "call", "v5");
  ("dump", "call", "v6.encode");
  ("dump", "cmp", "Is v1 None");
  ("dump", "cmp", "IsNot v1 None");
  ("dump", "const", "False");
  ("dump", "const", "True");
  ("dump", "for", "v8 in v7");
  ("dump", "for", "v9 in self");
  ("dump", "if", "hasattr(v4, 'writelines')");
  ("dump", "if", "isinstance(v0, str)");
  ("dump", "if", "v1 is None");
  ("dump", "if", "v1 is not None");
  ("dump", "if", "v3");
  ("dump", "store", "v1");
  ("dump", "store", "v3");
  ("dump", "store", "v4");
  ("dump", "store", "v6");
  ("dump", "store", "v7");
  ("dump", "str", "");
  ("dump", "str", "strict");
  ("dump", "str", "utf-8");
  ("dump", "str", "wb");
  ("dump", "str", "writelines");
  ("dump", "yield", "v6.encode('', final=True)");
  ("dump", "yield", "v6.encode(v9)");
  ("enable_buffering", "call", "ValueError");
  ("enable_buffering", "call", "partial");
  ("enable_buffering", "call", "self._buffered_generator");
  ("enable_buffering", "cmp", "LtE v0 1");
  ("enable_buffering", "const", "1");
  ("enable_buffering", "const", "5");
  ("enable_buffering", "const", "True");
  ("enable_buffering", "if", "v0 <= 1");
  ("enable_buffering", "raise", "ValueError");
  ("enable_buffering", "store", "self._next");
  ("enable_buffering", "store", "self.buffered")
].
