(* Model of jinja2.utils.LRUCache (C26, used by C25).  Executable definitions only.
   _mapping (a dict) is modelled by what the class observes of it: lookup, membership,
   insert/overwrite, delete and len — a finite map as a lookup function plus its size.
   _queue is the deque as a list, left end (oldest) first. *)
From Coq Require Import List NArith Bool.
Import ListNotations.
Open Scope N_scope.

Definition key := N.
Definition val := N.



Inductive exn := KeyError | IndexError | ValueErr.
Inductive out :=
| ONone                       (* returns None *)
| OVal (v : val)
| OBool (b : bool)
| ONat (n : N)
| OKeys (ks : list key)
| OVals (vs : list val)
| OItems (kvs : list (key * val))
| OExn (e : exn).

Record dict := { dget : key -> option val; dsize : N }.
Definition dempty : dict := {| dget := fun _ => None; dsize := 0 |}.
Definition lookup (k : key) (m : dict) : option val := dget m k.
(* del d[k] on a present key *)
Definition mdel (k : key) (m : dict) : dict :=
  {| dget := fun k' => if k' =? k then None else dget m k';
     dsize := match dget m k with Some _ => dsize m - 1 | None => dsize m end |}.
(* d[k] = v *)
Definition mset (k : key) (v : val) (m : dict) : dict :=
  {| dget := fun k' => if k' =? k then Some v else dget m k';
     dsize := match dget m k with Some _ => dsize m | None => dsize m + 1 end |}.
Definition mlen (m : dict) : N := dsize m.

Record lru := { cap : N; mapping : dict; queue : list key }.
(* deque.remove(x): removes the first occurrence, None = ValueError *)
Fixpoint qremove (k : key) (q : list key) : option (list key) :=
  match q with
  | [] => None
  | x :: r => if k =? x then Some r else
                match qremove k r with Some r' => Some (x :: r') | None => None end
  end.
Fixpoint mem (k : key) (q : list key) : bool :=
  match q with [] => false | x :: r => (k =? x) || mem k r end.

Definition init (c : N) : lru := {| cap := c; mapping := dempty; queue := [] |}.

(* __getitem__ *)
Definition getitem (s : lru) (k : key) : lru * out :=
  match lookup k (mapping s) with
  | None => (s, OExn KeyError)
  | Some rv =>
      match rev (queue s) with
      | [] => (s, OExn IndexError)                    (* self._queue[-1] on an empty deque *)
      | lastk :: _ =>
          if lastk =? k then (s, OVal rv)
          else
            let q1 := match qremove k (queue s) with Some q' => q' | None => queue s end in
            ({| cap := cap s; mapping := mapping s; queue := q1 ++ [k] |}, OVal rv)
      end
  end.

(* __setitem__ *)
Definition setitem (s : lru) (k : key) (v : val) : lru * out :=
  match lookup k (mapping s) with
  | Some _ =>
      match qremove k (queue s) with
      | None => (s, OExn ValueErr)                    (* unguarded self._remove(key) *)
      | Some q' => ({| cap := cap s; mapping := mset k v (mapping s); queue := q' ++ [k] |}, ONone)
      end
  | None =>
      if mlen (mapping s) =? cap s then
        match queue s with
        | [] => (s, OExn IndexError)                  (* popleft on an empty deque *)
        | old :: q' =>
            match lookup old (mapping s) with
            | None => ({| cap := cap s; mapping := mapping s; queue := q' |}, OExn KeyError)
            | Some _ =>
                ({| cap := cap s; mapping := mset k v (mdel old (mapping s)); queue := q' ++ [k] |}, ONone)
            end
        end
      else ({| cap := cap s; mapping := mset k v (mapping s); queue := queue s ++ [k] |}, ONone)
  end.

(* __delitem__ *)
Definition delitem (s : lru) (k : key) : lru * out :=
  match lookup k (mapping s) with
  | None => (s, OExn KeyError)
  | Some _ =>
      let q1 := match qremove k (queue s) with Some q' => q' | None => queue s end in
      ({| cap := cap s; mapping := mdel k (mapping s); queue := q1 |}, ONone)
  end.

(* get(key, default) : self[key] except KeyError -> default *)
Definition get (s : lru) (k : key) (d : val) : lru * out :=
  match getitem s k with
  | (s', OExn KeyError) => (s', OVal d)
  | r => r
  end.

(* setdefault(key, default) *)
Definition setdefault (s : lru) (k : key) (d : val) : lru * out :=
  match getitem s k with
  | (s', OExn KeyError) =>
      match setitem s' k d with
      | (s'', ONone) => (s'', OVal d)
      | r => r
      end
  | r => r
  end.

Definition clear (s : lru) : lru * out := ({| cap := cap s; mapping := dempty; queue := [] |}, ONone).
Definition contains (s : lru) (k : key) : lru * out :=
  (s, OBool (match lookup k (mapping s) with Some _ => true | None => false end)).
Definition len (s : lru) : lru * out := (s, ONat (mlen (mapping s))).

(* items(): [(key, mapping[key]) for key in queue] reversed; a key missing from the
   mapping raises KeyError *)
Fixpoint items_go (m : dict) (q : list key) : option (list (key * val)) :=
  match q with
  | [] => Some []
  | k :: r => match lookup k m, items_go m r with
              | Some v, Some l => Some ((k, v) :: l)
              | _, _ => None
              end
  end.
Definition items (s : lru) : lru * out :=
  (s, match items_go (mapping s) (queue s) with Some l => OItems (rev l) | None => OExn KeyError end).
Definition values (s : lru) : lru * out :=
  (s, match items_go (mapping s) (queue s) with Some l => OVals (map snd (rev l)) | None => OExn KeyError end).
Definition keys (s : lru) : lru * out := (s, OKeys (rev (queue s))).      (* list(self) = reversed(queue) *)
Definition iter_reversed (s : lru) : lru * out := (s, OKeys (queue s)).   (* __reversed__ *)

(* copy(): a new cache with the same capacity, mapping and queue.  Pickling: state dict
   {capacity, _mapping, _queue} restored by __setstate__ — the same three components. *)
Definition copy (s : lru) : lru := {| cap := cap s; mapping := mapping s; queue := queue s |}.

Inductive op :=
| Get (k : key) (d : val) | GetItem (k : key) | SetItem (k : key) (v : val) | DelItem (k : key)
| SetDefault (k : key) (d : val) | Contains (k : key) | Len | Clear
| Keys | Values | Items | Reversed | Copy | Pickle.

Definition step (s : lru) (o : op) : lru * out :=
  match o with
  | Get k d => get s k d
  | GetItem k => getitem s k
  | SetItem k v => setitem s k v
  | DelItem k => delitem s k
  | SetDefault k d => setdefault s k d
  | Contains k => contains s k
  | Len => len s
  | Clear => clear s
  | Keys => keys s
  | Values => values s
  | Items => items s
  | Reversed => iter_reversed s
  | Copy => (copy s, ONone)       (* continue on the copy *)
  | Pickle => (copy s, ONone)     (* continue on the unpickled object *)
  end.

Fixpoint run (s : lru) (ops : list op) : lru * list out :=
  match ops with
  | [] => (s, [])
  | o :: r => let '(s', x) := step s o in let '(s'', xs) := run s' r in (s'', x :: xs)
  end.
