(* snapshot of the class tables of /repo (gen/undef_tables.py); the check regenerates them on every run -- do not edit *)
From Coq Require Import List NArith Bool.
Import ListNotations.
From JV Require Import Model.Undef.
Open Scope N_scope.

Definition tables : tables := [
  ((Named BU), mkC None false [
      (m_init, mkM KInit 1);
      (m_message, mkM KMessage 2);
      (m_fail, mkM KFail 3);
      (m_getattr, mkM KGetattrFail 4);
      (m_add, mkM KFail 3);
      (m_radd, mkM KFail 3);
      (m_sub, mkM KFail 3);
      (m_rsub, mkM KFail 3);
      (m_mul, mkM KFail 3);
      (m_rmul, mkM KFail 3);
      (m_other, mkM KFail 3);
      (m_other, mkM KFail 3);
      (m_truediv, mkM KFail 3);
      (m_rtruediv, mkM KFail 3);
      (m_floordiv, mkM KFail 3);
      (m_rfloordiv, mkM KFail 3);
      (m_mod, mkM KFail 3);
      (m_rmod, mkM KFail 3);
      (m_pos, mkM KFail 3);
      (m_neg, mkM KFail 3);
      (m_call, mkM KFail 3);
      (m_getitem, mkM KFail 3);
      (m_lt, mkM KFail 3);
      (m_le, mkM KFail 3);
      (m_gt, mkM KFail 3);
      (m_ge, mkM KFail 3);
      (m_int, mkM KFail 3);
      (m_float, mkM KFail 3);
      (m_other, mkM KFail 3);
      (m_pow, mkM KFail 3);
      (m_rpow, mkM KFail 3);
      (m_eq, mkM KEqType 5);
      (m_ne, mkM KNeNotEq 6);
      (m_hash, mkM KHashType 7);
      (m_str, mkM (KRetConst VStrEmpty) 8);
      (m_len, mkM (KRetConst VInt0) 9);
      (m_iter, mkM KIterEmpty 10);
      (m_aiter, mkM KAiterEmpty 11);
      (m_bool, mkM (KRetConst VFalse) 12);
      (m_repr, mkM (KRetConst VStrOther) 13)]);
  ((Named BC), mkC (Some (Named BU)) false [
      (m_html, mkM KEscStrOfSelf 14);
      (m_getattr, mkM KGetattrSelf 15);
      (m_getitem, mkM KRetSelf 16)]);
  ((Named BD), mkC (Some (Named BU)) false [
      (m_str, mkM KDebugStr 17)]);
  ((Named BS), mkC (Some (Named BU)) false [
      (m_iter, mkM KFail 3);
      (m_aiter, mkM KFail 3);
      (m_str, mkM KFail 3);
      (m_len, mkM KFail 3);
      (m_eq, mkM KFail 3);
      (m_ne, mkM KFail 3);
      (m_bool, mkM KFail 3);
      (m_hash, mkM KFail 3);
      (m_contains, mkM KFail 3)]);
  ((Logging BU), mkC (Some (Named BU)) true [
      (m_fail, mkM KFailLogged 18);
      (m_str, mkM (KLogSuper m_str) 19);
      (m_iter, mkM (KLogSuper m_iter) 20);
      (m_aiter, mkM (KLogSuper m_aiter) 21);
      (m_bool, mkM (KLogSuper m_bool) 22)]);
  ((Logging BC), mkC (Some (Named BC)) true [
      (m_fail, mkM KFailLogged 23);
      (m_str, mkM (KLogSuper m_str) 24);
      (m_iter, mkM (KLogSuper m_iter) 25);
      (m_aiter, mkM (KLogSuper m_aiter) 26);
      (m_bool, mkM (KLogSuper m_bool) 27)]);
  ((Logging BD), mkC (Some (Named BD)) true [
      (m_fail, mkM KFailLogged 28);
      (m_str, mkM (KLogSuper m_str) 29);
      (m_iter, mkM (KLogSuper m_iter) 30);
      (m_aiter, mkM (KLogSuper m_aiter) 31);
      (m_bool, mkM (KLogSuper m_bool) 32)]);
  ((Logging BS), mkC (Some (Named BS)) true [
      (m_fail, mkM KFailLogged 33);
      (m_str, mkM (KLogSuper m_str) 34);
      (m_iter, mkM (KLogSuper m_iter) 35);
      (m_aiter, mkM (KLogSuper m_aiter) 36);
      (m_bool, mkM (KLogSuper m_bool) 37)])
].
Definition facts : facts := mkF TNotIsUndefined TIsUndefined DUndefinedOrFalsy.
Example name_ids_agree : m_other = 0 /\ m_str = 1 /\ m_repr = 2 /\ m_bool = 3 /\ m_len = 4 /\ m_iter = 5 /\ m_contains = 6 /\ m_eq = 7 /\ m_ne = 8 /\ m_hash = 9 /\ m_lt = 10 /\ m_le = 11 /\ m_gt = 12 /\ m_ge = 13 /\ m_add = 14 /\ m_radd = 15 /\ m_sub = 16 /\ m_rsub = 17 /\ m_mul = 18 /\ m_rmul = 19 /\ m_truediv = 20 /\ m_rtruediv = 21 /\ m_floordiv = 22 /\ m_rfloordiv = 23 /\ m_mod = 24 /\ m_rmod = 25 /\ m_pow = 26 /\ m_rpow = 27 /\ m_pos = 28 /\ m_neg = 29 /\ m_int = 30 /\ m_float = 31 /\ m_index = 32 /\ m_call = 33 /\ m_getitem = 34 /\ m_getattr = 35 /\ m_fail = 36 /\ m_message = 37 /\ m_init = 38 /\ m_html = 39 /\ m_aiter = 40 /\ m_copy = 41 /\ m_deepcopy = 42 /\ m_reduce_ex = 43 /\ m_reduce = 44 /\ m_getstate = 45 /\ m_setstate = 46 /\ m_getnewargs_ex = 47 /\ m_getnewargs = 48 /\ m_trunc = 49.
Proof. repeat split; reflexivity. Qed.

