(* Lexer family (C11 C39 C12 C13): strings, character classes, configuration record and the
   hand-written scanners that do what the compiled rules of jinja2.lexer do.
   Executable definitions only; proofs live in Proofs/Lex*.v.
   Characters are code points [N]; counts of consumed characters are [nat] (structural). *)
From Coq Require Import List NArith Bool Arith.
Import ListNotations.
Open Scope N_scope.

Definition str := list N.

(* ------------------------------------------------------------------ character classes *)
(* Py_UNICODE_ISSPACE: what re's \s, str.isspace and str.rstrip() use (probed on every run
   against the running interpreter over all code points). *)
Definition is_space (c : N) : bool :=
  ((9 <=? c) && (c <=? 13)) || ((28 <=? c) && (c <=? 32)) || (c =? 133) || (c =? 160)
  || (c =? 5760) || ((8192 <=? c) && (c <=? 8202)) || (c =? 8232) || (c =? 8233)
  || (c =? 8239) || (c =? 8287) || (c =? 12288).
(* [ \t\v] of the line statement rule *)
Definition is_hspace (c : N) : bool := (c =? 32) || (c =? 9) || (c =? 11).
(* [^\S\r\n] of the line comment rule *)
Definition is_lcspace (c : N) : bool := is_space c && negb (c =? 10) && negb (c =? 13).
Definition is_nl (c : N) : bool := c =? 10.
Definition not_nl (c : N) : bool := negb (c =? 10).

(* the ASCII instances used by the extracted executable for \d and the identifier class
   (the theorems are stated for arbitrary classes: they are fields of the configuration) *)
Definition ascii_digit (c : N) : bool := (48 <=? c) && (c <=? 57).
Definition ascii_word (c : N) : bool :=
  ascii_digit c || ((65 <=? c) && (c <=? 90)) || ((97 <=? c) && (c <=? 122)) || (c =? 95).

(* ------------------------------------------------------------------ list helpers *)
Fixpoint eqstr (a b : str) : bool :=
  match a, b with
  | [], [] => true
  | x :: a', y :: b' => (x =? y) && eqstr a' b'
  | _, _ => false
  end.

(* d is a prefix of s *)
Fixpoint prefixb (d s : str) : bool :=
  match d with
  | [] => true
  | x :: d' => match s with y :: s' => (x =? y) && prefixb d' s' | [] => false end
  end.

(* length of the longest prefix whose characters satisfy p *)
Fixpoint span (p : N -> bool) (s : str) : nat :=
  match s with c :: r => if p c then S (span p r) else 0%nat | [] => 0%nat end.

Fixpoint count_nl (s : str) : N :=
  match s with c :: r => (if c =? 10 then 1 else 0) + count_nl r | [] => 0 end.

Definition nonempty (s : str) : bool := match s with [] => false | _ => true end.

(* last character, as Python's  m.group()[-1:]  *)
Fixpoint last_opt (s : str) : option N :=
  match s with [] => None | [c] => Some c | _ :: r => last_opt r end.

(* str.rstrip(): number of characters kept *)
Fixpoint rstrip_n (t : str) : nat :=
  match t with
  | [] => 0%nat
  | c :: r => match rstrip_n r with
              | O => if is_space c then 0%nat else 1%nat
              | S k => S (S k)
              end
  end.

(* text.rfind("\n") + 1 *)
Fixpoint after_last_nl (t : str) : nat :=
  match t with
  | [] => 0%nat
  | c :: r => match after_last_nl r with
              | O => if c =? 10 then 1%nat else 0%nat
              | S k => S (S k)
              end
  end.

(* ------------------------------------------------------------------ configuration *)
Record cfg := mkcfg {
  c_bs : str; c_be : str;            (* block_start_string / block_end_string *)
  c_vs : str; c_ve : str;            (* variable_*                           *)
  c_cs : str; c_ce : str;            (* comment_*                            *)
  c_lsp : option str;                (* line_statement_prefix                *)
  c_lcp : option str;                (* line_comment_prefix                  *)
  c_trim : bool; c_lstrip : bool;    (* trim_blocks / lstrip_blocks          *)
  c_nlseq : str;                     (* newline_sequence                     *)
  c_keep : bool;                     (* keep_trailing_newline                *)
  c_digit : N -> bool;               (* \d                                   *)
  c_word : N -> bool                 (* the _identifier.pattern class        *)
}.

(* ------------------------------------------------------------------ whitespace-control signs *)
Inductive sign := SgNone | SgMinus | SgPlus.

(* (\-|\+|) *)
Definition scan_sign (s : str) : sign * nat :=
  match s with
  | c :: _ => if c =? 45 then (SgMinus, 1%nat) else if c =? 43 then (SgPlus, 1%nat) else (SgNone, 0%nat)
  | [] => (SgNone, 0%nat)
  end.

(* ------------------------------------------------------------------ root alternatives *)
Inductive tagk := KRaw | KComment | KBlock | KVar | KLs | KLc.

(* e(start)(\-|\+|)   -- matched length and sign *)
Definition alt_plain (d s : str) : option (nat * sign) :=
  if prefixb d s then
    let '(sg, k) := scan_sign (skipn (length d) s) in Some ((length d + k)%nat, sg)
  else None.

Definition at_bol (prev : option N) : bool :=
  match prev with None => true | Some c => c =? 10 end.

(* ^[ \t\v]*e(prefix)(\-|\+|) *)
Definition alt_ls (d : str) (prev : option N) (s : str) : option (nat * sign) :=
  if at_bol prev then
    let w := span is_hspace s in
    match alt_plain d (skipn w s) with
    | Some (n, sg) => Some ((w + n)%nat, sg)
    | None => None
    end
  else None.

(* (?:^|(?<=\S))[^\S\r\n]*e(prefix)(\-|\+|) *)
Definition alt_lc (d : str) (prev : option N) (s : str) : option (nat * sign) :=
  if at_bol prev || match prev with Some c => negb (is_space c) | None => false end then
    let w := span is_lcspace s in
    match alt_plain d (skipn w s) with
    | Some (n, sg) => Some ((w + n)%nat, sg)
    | None => None
    end
  else None.

Definition kw_raw : str := [114; 97; 119].
Definition kw_endraw : str := [101; 110; 100; 114; 97; 119].

(* \n?  -- 1 when the text starts with a line break *)
Definition nl_head (s : str) : nat :=
  match s with x :: _ => if x =? 10 then 1%nat else 0%nat | [] => 0%nat end.

(* the end-of-tag alternations, tried in this order at one position:
     (?:\+E | \-E\s* | E\n?)      plus_ok = true,  trimnl = trim_blocks   (block, comment, endraw)
     (?:\-E\s* | E)               plus_ok = false, trimnl = false         (variable, raw begin)  *)
Definition end_alts (plus_ok trimnl : bool) (e s : str) : option nat :=
  match s with
  | c :: r =>
      if plus_ok && (c =? 43) && prefixb e r then Some (S (length e))
      else if (c =? 45) && prefixb e r then Some (S (length e + span is_space (skipn (length e) r)))
      else if prefixb e s then
        Some (length e + (if trimnl then nl_head (skipn (length e) s) else 0%nat))%nat
      else None
  | [] => if prefixb e [] then Some (length e) else None
  end.

(* (?P<raw_begin>BS(\-|\+|)\s*raw\s*(?:\-BE\s*|BE)) *)
Definition alt_raw (c : cfg) (s : str) : option (nat * sign) :=
  if prefixb (c_bs c) s then
    let n0 := length (c_bs c) in
    let s1 := skipn n0 s in
    let '(sg, k) := scan_sign s1 in
    let s2 := skipn k s1 in
    let w1 := span is_space s2 in
    let s3 := skipn w1 s2 in
    if prefixb kw_raw s3 then
      let s4 := skipn 3 s3 in
      let w2 := span is_space s4 in
      match end_alts false false (c_be c) (skipn w2 s4) with
      | Some e => Some ((n0 + k + w1 + 3 + w2 + e)%nat, sg)
      | None => None
      end
    else None
  else None.

(* BS(\-|\+|)\s*endraw\s*(?:\+BE|\-BE\s*|BE\n?)   -- the end of a raw block *)
Definition alt_endraw (c : cfg) (s : str) : option (nat * sign) :=
  if prefixb (c_bs c) s then
    let n0 := length (c_bs c) in
    let s1 := skipn n0 s in
    let '(sg, k) := scan_sign s1 in
    let s2 := skipn k s1 in
    let w1 := span is_space s2 in
    let s3 := skipn w1 s2 in
    if prefixb kw_endraw s3 then
      let s4 := skipn 6 s3 in
      let w2 := span is_space s4 in
      match end_alts true (c_trim c) (c_be c) (skipn w2 s4) with
      | Some e => Some ((n0 + k + w1 + 6 + w2 + e)%nat, sg)
      | None => None
      end
    else None
  else None.

(* compile_rules: (len, token name, pattern) sorted in reverse.  The token names compare
   variable_begin > linestatement_begin > linecomment_begin > comment_begin > block_begin. *)
Definition rank (k : tagk) : nat :=
  match k with KVar => 5 | KLs => 4 | KLc => 3 | KComment => 2 | KBlock => 1 | KRaw => 0 end%nat.

Definition rule_before (a b : tagk * str) : bool :=   (* a sorts before b in the reversed order *)
  let la := length (snd a) in let lb := length (snd b) in
  (lb <? la)%nat || ((la =? lb)%nat && (rank (fst b) <? rank (fst a))%nat).

Fixpoint rule_insert (a : tagk * str) (l : list (tagk * str)) : list (tagk * str) :=
  match l with
  | [] => [a]
  | b :: r => if rule_before a b then a :: l else b :: rule_insert a r
  end.

Definition compile_rules (c : cfg) : list (tagk * str) :=
  let base := [(KComment, c_cs c); (KBlock, c_bs c); (KVar, c_vs c)] in
  let l1 := match c_lsp c with Some p => base ++ [(KLs, p)] | None => base end in
  let l2 := match c_lcp c with Some p => l1 ++ [(KLc, p)] | None => l1 end in
  fold_right rule_insert [] l2.

Definition try_alt (c : cfg) (prev : option N) (s : str) (r : tagk * str) : option (nat * sign) :=
  match fst r with
  | KLs => alt_ls (snd r) prev s
  | KLc => alt_lc (snd r) prev s
  | KRaw => alt_raw c s
  | _ => alt_plain (snd r) s
  end.

Fixpoint try_alts (c : cfg) (rules : list (tagk * str)) (prev : option N) (s : str)
  : option (tagk * nat * sign) :=
  match rules with
  | [] => None
  | r :: rs => match try_alt c prev s r with
               | Some (n, sg) => Some (fst r, n, sg)
               | None => try_alts c rs prev s
               end
  end.

(* all alternatives of the root rule at one position: raw first, then the sorted rules *)
Definition root_alts (c : cfg) (rules : list (tagk * str)) (prev : option N) (s : str)
  : option (tagk * nat * sign) :=
  match alt_raw c s with
  | Some (n, sg) => Some (KRaw, n, sg)
  | None => try_alts c rules prev s
  end.

(* (.*?)(?: alternatives )  -- leftmost position at which an alternative matches *)
Fixpoint find_tag (c : cfg) (rules : list (tagk * str)) (prev : option N) (s : str)
  : option (nat * tagk * nat * sign) :=
  match root_alts c rules prev s with
  | Some (k, n, sg) => Some (0%nat, k, n, sg)
  | None =>
      match s with
      | [] => None
      | x :: r => match find_tag c rules (Some x) r with
                  | Some (p, k, n, sg) => Some (S p, k, n, sg)
                  | None => None
                  end
      end
  end.

(* (.*?)( end alternation )  in the comment state *)
Fixpoint find_end (plus_ok trimnl : bool) (e s : str) : option (nat * nat) :=
  match end_alts plus_ok trimnl e s with
  | Some n => Some (0%nat, n)
  | None =>
      match s with
      | [] => None
      | _ :: r => match find_end plus_ok trimnl e r with
                  | Some (p, n) => Some (S p, n)
                  | None => None
                  end
      end
  end.

(* (.*?)( endraw tag ) in the raw state *)
Fixpoint find_endraw (c : cfg) (s : str) : option (nat * nat * sign) :=
  match alt_endraw c s with
  | Some (n, sg) => Some (0%nat, n, sg)
  | None =>
      match s with
      | [] => None
      | _ :: r => match find_endraw c r with
                  | Some (p, n, sg) => Some (S p, n, sg)
                  | None => None
                  end
      end
  end.

(* \s*(\n|$)  under re.M: all the whitespace when it reaches the end of the source, else
   up to and including the last line break inside the whitespace run, else no match *)
Definition ls_end (s : str) : option nat :=
  let w := span is_space s in
  if (w =? length s)%nat then Some w
  else match after_last_nl (firstn w s) with
       | O => None
       | S k => Some (S k)
       end.

(* ------------------------------------------------------------------ tag_rules *)
(* (\d+_)*\d+   -- 0 when there is no match *)
Fixpoint digitpart (dg : N -> bool) (after_digit : bool) (s : str) : nat :=
  match s with
  | [] => 0%nat
  | c :: r =>
      if dg c then S (digitpart dg true r)
      else if after_digit && (c =? 95) then
        match r with
        | d :: _ => if dg d then S (digitpart dg false r) else 0%nat
        | [] => 0%nat
        end
      else 0%nat
  end.

Definition is_e (c : N) : bool := (c =? 101) || (c =? 69).

(* e[+\-]?(\d+_)*\d+   -- 0 when there is no match *)
Definition exp_part (dg : N -> bool) (s : str) : nat :=
  match s with
  | c :: r =>
      if is_e c then
        let '(k, r') := match r with
                        | x :: r'' => if (x =? 43) || (x =? 45) then (1%nat, r'') else (0%nat, r)
                        | [] => (0%nat, r)
                        end in
        match digitpart dg false r' with
        | O => 0%nat
        | S d => S (k + S d)
        end
      else 0%nat
  | [] => 0%nat
  end.

(* \.(\d+_)*\d+ *)
Definition frac_part (dg : N -> bool) (s : str) : nat :=
  match s with
  | c :: r => if c =? 46 then match digitpart dg false r with O => 0%nat | S f => S (S f) end else 0%nat
  | [] => 0%nat
  end.

(* float_re, with its look-behind (?<!\.) *)
Definition scan_float (dg : N -> bool) (prev : option N) (s : str) : option nat :=
  if match prev with Some p => p =? 46 | None => false end then None else
  match digitpart dg false s with
  | O => None
  | S i =>
      let s1 := skipn (S i) s in
      let fr := frac_part dg s1 in
      match exp_part dg (skipn fr s1) with
      | S ex => Some (S (i + fr + S ex))
      | O => match fr with O => None | S f => Some (S (i + S f)) end
      end
  end.

(* (_?[class])*  -- greedy *)
Fixpoint uloop (p : N -> bool) (s : str) : nat :=
  match s with
  | [] => 0%nat
  | c :: r =>
      if p c then S (uloop p r)
      else if c =? 95 then
        match r with
        | d :: r' => if p d then S (S (uloop p r')) else 0%nat
        | [] => 0%nat
        end
      else 0%nat
  end.

Definition is_bin (c : N) : bool := (c =? 48) || (c =? 49).
Definition is_oct (c : N) : bool := (48 <=? c) && (c <=? 55).
Definition is_hexd (dg : N -> bool) (c : N) : bool :=
  dg c || ((97 <=? c) && (c <=? 102)) || ((65 <=? c) && (c <=? 70)).
Definition is_zero (c : N) : bool := c =? 48.

(* integer_re (re.IGNORECASE) *)
Definition scan_int (dg : N -> bool) (s : str) : option nat :=
  match s with
  | [] => None
  | c :: r =>
      let radix (cls : N -> bool) (l u : N) : option nat :=
        match r with
        | x :: r' => if (c =? 48) && ((x =? l) || (x =? u)) then
                       match uloop cls r' with O => None | S k => Some (S (S (S k))) end
                     else None
        | [] => None
        end in
      match radix is_bin 98 66 with
      | Some n => Some n
      | None =>
      match radix is_oct 111 79 with
      | Some n => Some n
      | None =>
      match radix (is_hexd dg) 120 88 with
      | Some n => Some n
      | None =>
          if (49 <=? c) && (c <=? 57) then Some (S (uloop dg r))
          else if c =? 48 then Some (S (uloop is_zero r))
          else None
      end end end
  end.

(* string_re: body after the opening quote, up to and including the closing quote *)
Fixpoint str_body (q : N) (s : str) : option nat :=
  match s with
  | [] => None
  | c :: r =>
      if c =? q then Some 1%nat
      else if c =? 92 then
        match r with
        | _ :: r' => match str_body q r' with Some n => Some (S (S n)) | None => None end
        | [] => None
        end
      else match str_body q r with Some n => Some (S n) | None => None end
  end.

Definition scan_string (s : str) : option nat :=
  match s with
  | c :: r => if (c =? 39) || (c =? 34) then
                match str_body c r with Some n => Some (S n) | None => None end
              else None
  | [] => None
  end.

(* operator_re: the two-character operators first *)
Definition ops2 : list (N * N) := [(47, 47); (42, 42); (61, 61); (33, 61); (62, 61); (60, 61)].
Definition ops1 : list N :=
  [43; 45; 47; 42; 37; 126; 91; 93; 40; 41; 123; 125; 62; 60; 61; 46; 58; 124; 44; 59].

Definition scan_op (s : str) : option nat :=
  match s with
  | a :: r =>
      if match r with
         | b :: _ => existsb (fun p => (fst p =? a) && (snd p =? b)) ops2
         | [] => false
         end then Some 2%nat
      else if existsb (fun x => x =? a) ops1 then Some 1%nat
      else None
  | [] => None
  end.

Definition scan_ws (s : str) : option nat :=
  match span is_space s with O => None | S k => Some (S k) end.

Definition scan_name (wd : N -> bool) (s : str) : option nat :=
  match span wd s with O => None | S k => Some (S k) end.

(* ------------------------------------------------------------------ concrete configurations *)
(* jinja2.defaults with ASCII character classes *)
Definition cfg_default (trim lstrip keep : bool) (nlseq : str) : cfg :=
  mkcfg [123; 37] [37; 125] [123; 123] [125; 125] [123; 35] [35; 125] None None
        trim lstrip nlseq keep ascii_digit ascii_word.
(* <% %>  <%= %>  <!-- -->  : a start string that is a prefix of another *)
Definition cfg_angle (trim lstrip keep : bool) (nlseq : str) : cfg :=
  mkcfg [60; 37] [37; 62] [60; 37; 61] [37; 62] [60; 33; 45; 45] [45; 45; 62] None None
        trim lstrip nlseq keep ascii_digit ascii_word.
(* default delimiters + line statements '#' and line comments '##' *)
Definition cfg_line (trim lstrip keep : bool) (nlseq : str) : cfg :=
  mkcfg [123; 37] [37; 125] [123; 123] [125; 125] [123; 35] [35; 125] (Some [35]) (Some [35; 35])
        trim lstrip nlseq keep ascii_digit ascii_word.
(* $% %$  ${ }  $# #$ : three start strings sharing their first character *)
Definition cfg_dollar (trim lstrip keep : bool) (nlseq : str) : cfg :=
  mkcfg [36; 37] [37; 36] [36; 123] [125] [36; 35] [35; 36] None None
        trim lstrip nlseq keep ascii_digit ascii_word.
