(* Concrete instances used by the extracted executable (the correspondence runs): the probe
   callables, the recording-and-perturbing sandbox hooks, configuration builder. *)
From Coq Require Import List NArith ZArith Bool.
Import ListNotations.
From JV Require Import Model.ExprAst Model.ExprPrim Spec.ExprSpec Model.ExprTarget Model.ExprFold.

(* probe callables: f0 raises; fN returns (N, [args], [(key, value) ...]) *)
Definition concrete_oracles : oracles := {|
  builtin_attr := fun _ _ => None;
  call_fun := fun id args kw =>
    if N.eqb id 0 then Err ECallErr
    else Ok (VTuple [VInt (Z.of_N id); VList args; VList (map (fun p : str * value => VTuple [VStr (fst p); snd p]) kw)])
|}.

(* the default hooks (SandboxedEnvironment.call_binop: the operator table) *)
Definition default_bin (op : binop) (a b : value) : res value := prim_bin op a b.
Definition default_un (op : unop) (a : value) : res value := prim_un op a.

(* the perturbing hooks of the C20 harness: integer results are shifted by 1000 *)
Definition perturb (r : res value) : res value :=
  match r with Ok (VInt z) => Ok (VInt (z + 1000)) | o => o end.
Definition perturb_bin (op : binop) (a b : value) : res value := perturb (prim_bin op a b).
Definition perturb_un (op : unop) (a : value) : res value := perturb (prim_un op a).

Definition mk_cfg (sb : bool) (ib : list binop) (iu : list unop) (asy ae vol rtae opt pert : bool) : cfg := {|
  sandboxed := sb;
  ibin := fun op => existsb (binop_eqb op) ib;
  iun := fun op => existsb (unop_eqb op) iu;
  is_async := asy;
  autoescape := ae;
  volatile := vol;
  rt_autoescape := rtae;
  optimized := opt;
  hook_bin := if pert then perturb_bin else default_bin;
  hook_un := if pert then perturb_un else default_un;
|}.

Definition run_spec (c : cfg) (n : nat) (e : expr) (rho : env) := eval concrete_oracles c n e rho [].
Definition run_py (c : cfg) (n : nat) (e : expr) (rho : env) := py_eval concrete_oracles c n (gen_opt concrete_oracles c e) rho [].
Definition run_render (c : cfg) (n : nat) (e : expr) (rho : env) := render_child concrete_oracles c n e rho [].
Definition run_spec_text (c : cfg) (n : nat) (e : expr) (rho : env) :=
  (v <- eval concrete_oracles c n e rho ;; lift (out_text c v)) [].
Definition run_gen (c : cfg) (e : expr) := output_child concrete_oracles c e.
Definition run_gen_expr (c : cfg) (e : expr) := gen_opt concrete_oracles c e.
Definition run_fold (c : cfg) (e : expr) := as_const concrete_oracles c e.
