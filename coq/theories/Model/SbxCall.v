(* Model of the call gate of the sandbox (C18): SandboxedEnvironment.is_safe_callable,
   SandboxedEnvironment.call, and a definitional evaluator of routing-level targets (Model/SbxGen)
   that records, in an event log, every safety check and every invocation of a callable.
   Executable definitions only. *)
From Coq Require Import List Bool String.
Import ListNotations.
From JV Require Import Model.SbxGen.
Open Scope list_scope.

(* a callable object of the context: identity plus the two marker attributes the default
   predicate reads (unsafe_callable set by @unsafe, alters_data by the Django convention);
   [c_format]: the object is a bound str.format / str.format_map method (of a str or Markup),
   wherever it came from — also when the host put it into the render data;
   [c_call_unsafe] / [c_call_alters]: the same two markers found on type(obj).__call__ (a callable
   instance whose class decorates __call__). *)
Record callable := mkCallable { c_id : nat; c_unsafe : bool; c_alters : bool; c_format : bool;
                                c_call_unsafe : bool; c_call_alters : bool;
                                c_icall_unsafe : bool; c_icall_alters : bool }.
(* [c_icall_*]: the markers on the INSTANCE's own __call__ attribute (Context.call uses that attribute when it is
   decorated with pass_context / pass_eval_context / pass_environment) *)

Inductive cval :=
  | CVData (n : nat)
  | CVCallable (c : callable)
  | CVWrap (c : callable)        (* the sandboxing wrapper of the bound format method c (wrap_str_format) *)
  | CVUndef.

(* SandboxedEnvironment.is_safe_callable(obj) — the default predicate *)
Definition is_safe_callable_default (c : callable) : bool :=
  negb (c_unsafe c || c_alters c || c_call_unsafe c || c_call_alters c || c_icall_unsafe c || c_icall_alters c).

(* functools.partial objects: the partial's own markers and, recursively, the callable it wraps
       if isinstance(obj, partial) and not self.is_safe_callable(obj.func): return False *)
Inductive wcallable := WPlain (c : callable) | WPartial (own : callable) (inner : wcallable).
Fixpoint is_safe_wcallable (w : wcallable) : bool :=
  match w with
  | WPlain c => is_safe_callable_default c
  | WPartial own inner => is_safe_wcallable inner && is_safe_callable_default own
  end.
(* the marked callables a (possibly wrapped) callable ends up running *)
Fixpoint w_runs (w : wcallable) : list callable :=
  match w with WPlain c => [c] | WPartial own inner => own :: w_runs inner end.

Inductive event :=
  | EvCheck (c : callable) (verdict : bool)     (* is_safe_callable(c) was evaluated *)
  | EvInvoke (c : callable)                     (* c(...) ran natively (inside Context.call) *)
  | EvFormat (c : callable).                    (* the sandboxed formatter ran on c's format string instead *)

Inductive outcome := OVal (v : cval) | OSecurityError | OOtherError.

Definition res := (list event * outcome)%type.

Section Eval.
  (* the safety predicate in force: the default or an override in a subclass *)
  Variable policy : callable -> bool.
  (* what the world does: all arbitrary *)
  Variable invoke_result : callable -> list cval -> cval.
  Variable format_result : callable -> list cval -> cval.
  Variable env : string -> cval.
  Variable attr_of : cval -> string -> cval.
  Variable item_of : list cval -> cval.
  Variable filter_res : string -> list cval -> cval.
  Variable test_res : string -> list cval -> cval.
  Variable op_res : string -> list cval -> cval.

  (* def call(__self, __context, __obj, *args, **kwargs):
         if not __self.is_safe_callable(__obj):
             raise SecurityError(...)
         fmt = __self.wrap_str_format(__obj)
         if fmt is not None:
             __obj = fmt          # a bound str.format from anywhere is routed through the sandboxed formatter
         return __context.call(__obj, *args, **kwargs) *)
  Definition sandbox_call (f : cval) (args : list cval) : res :=
    match f with
    | CVCallable c =>
        if policy c then
          if c_format c then ([EvCheck c true; EvFormat c], OVal (format_result c args))
          else ([EvCheck c true; EvInvoke c], OVal (invoke_result c args))
        else ([EvCheck c false], OSecurityError)
    | CVWrap c => ([EvFormat c], OVal (format_result c args))
                                      (* the wrapper is a plain function without markers *)
    | _ => ([], OOtherError)          (* not callable: TypeError / UndefinedError inside Context.call *)
    end.

  (* context.call(f, ...) or f(...): no check *)
  Definition direct_call (f : cval) (args : list cval) : res :=
    match f with
    | CVCallable c => ([EvInvoke c], OVal (invoke_result c args))
    | CVWrap c => ([EvFormat c], OVal (format_result c args))
    | _ => ([], OOtherError)
    end.

  (* left-to-right evaluation of sub-results; the first error aborts (later logs are dropped) *)
  Fixpoint seq (rs : list res) : list event * (list cval + outcome) :=
    match rs with
    | [] => ([], inl [])
    | (l, OVal v) :: r =>
        match seq r with
        | (l', inl vs) => (l ++ l', inl (v :: vs))
        | (l', inr e) => (l ++ l', inr e)
        end
    | (l, e) :: _ => (l, inr e)
    end.

  Definition pure (s : list event * (list cval + outcome)) (f : list cval -> cval) : res :=
    match s with
    | (l, inl vs) => (l, OVal (f vs))
    | (l, inr e) => (l, e)
    end.

  Definition apply (call : cval -> list cval -> res) (s : list event * (list cval + outcome)) : res :=
    match s with
    | (l, inl (fv :: vs)) => let (l2, o) := call fv vs in (l ++ l2, o)
    | (l, inl []) => (l, OOtherError)
    | (l, inr e) => (l, e)
    end.

  Fixpoint eval (t : texpr) : res :=
    let opt := fun (o : option texpr) => match o with Some x => [eval x] | None => [] end in
    match t with
    | TVar n => ([], OVal (env n))
    | TConst _ => ([], OVal (CVData 0))
    | TEnvGetattr e a => pure (seq [eval e]) (fun vs => attr_of (hd CVUndef vs) a)
    | TEnvGetitem e i => pure (seq [eval e; eval i]) item_of
    | TSlice e lo hi st => pure (seq (eval e :: opt lo ++ opt hi ++ opt st)) item_of
    | TEnvCall f args kw star dstar =>
        apply sandbox_call (seq (eval f :: map eval args ++ map (fun p => eval (snd p)) kw ++ opt star ++ opt dstar))
    | TCtxCall f args kw star dstar =>
        apply direct_call (seq (eval f :: map eval args ++ map (fun p => eval (snd p)) kw ++ opt star ++ opt dstar))
    | TFilter n e args kw => pure (seq (eval e :: map eval args ++ map (fun p => eval (snd p)) kw)) (filter_res n)
    | TTest n e args => pure (seq (eval e :: map eval args)) (test_res n)
    | TOp op es => pure (seq (map eval es)) (op_res op)
    | TAwait e => eval e
    | TRawAttr e a => pure (seq [eval e]) (fun vs => attr_of (hd CVUndef vs) a)
    | TRawSub e i => pure (seq [eval e; eval i]) item_of
    | TDirectCall f args => apply direct_call (seq (eval f :: map eval args))
    end.
End Eval.

(* extraction interface: the gate alone, with the default or a table-given policy *)
Definition gate_events (policy_verdict : bool) (c : callable) : res :=
  sandbox_call (fun _ => policy_verdict) (fun _ _ => CVData 1) (fun _ _ => CVData 2) (CVCallable c) [].

(* What running a callable runs inside: a wrapper object built by the host (functools.partial(f),
   a closure) is itself unmarked and runs f.  [ran runs_inside log]: everything that ran. *)
Definition ran (runs_inside : callable -> list callable) (l : list event) : list callable :=
  flat_map (fun e => match e with EvInvoke c => c :: runs_inside c | _ => [] end) l.
