(* C35 -- model of compiler.CodeGenerator's line bookkeeping (write / newline / writeline,
   _new_lines, _last_line, _write_debug_info, _first_write, code_lineno, debug_info) and of
   Template.get_corresponding_lineno.  The generator is seen as a trace of write / newline
   events (writeline = newline; write); what is written is irrelevant as long as it contains
   no line break.  Executable definitions only. *)
From Coq Require Import List NArith Bool.
Import ListNotations.
Open Scope N_scope.

Inductive ev :=
| EWrite                                   (* self.write(x), x without line breaks *)
| ENewline (node : option N) (extra : N).  (* self.newline(node, extra); node = Some node.lineno *)

Record st := mkSt {
  code_line : N;            (* code_lineno *)
  new_lines : N;            (* _new_lines *)
  last_line : N;            (* _last_line *)
  wdi : option N;           (* _write_debug_info *)
  first : bool;             (* _first_write *)
  dbg : list (N * N)        (* debug_info, NEWEST FIRST: (template line, code line) *)
}.

Definition init : st := mkSt 1 0 0 None true [].

Definition step (s : st) (e : ev) : st :=
  match e with
  | EWrite =>
      if new_lines s =? 0 then s
      else if first s then mkSt (code_line s) 0 (last_line s) (wdi s) false (dbg s)
      else
        let c := code_line s + new_lines s in
        match wdi s with
        | Some l => mkSt c 0 (last_line s) None false ((l, c) :: dbg s)
        | None => mkSt c 0 (last_line s) None false (dbg s)
        end
  | ENewline node extra =>
      let nl := N.max (new_lines s) (1 + extra) in
      match node with
      | Some l => if l =? last_line s then mkSt (code_line s) nl (last_line s) (wdi s) (first s) (dbg s)
                  else mkSt (code_line s) nl l (Some l) (first s) (dbg s)
      | None => mkSt (code_line s) nl (last_line s) (wdi s) (first s) (dbg s)
      end
  end.

Definition run (s : st) (evs : list ev) : st := fold_left step evs s.

(* Template.get_corresponding_lineno: scan the pairs from the newest *)
Fixpoint corresponding (d : list (N * N)) (c : N) : N :=
  match d with
  | [] => 1
  | (tl, cl) :: r => if cl <=? c then tl else corresponding r c
  end.

(* the run with, for every write, the code line it lands on (what the harness compares with
   the real generator's code_lineno after each write) *)
Fixpoint run_lines (s : st) (evs : list ev) : st * list N :=
  match evs with
  | [] => (s, [])
  | e :: r =>
      let s' := step s e in
      let '(sf, ls) := run_lines s' r in
      (sf, match e with EWrite => code_line s' :: ls | _ => ls end)
  end.

(* the template line of the most recent node handed to newline *)
Fixpoint last_node (acc : option N) (evs : list ev) : option N :=
  match evs with
  | [] => acc
  | ENewline (Some l) _ :: r => last_node (Some l) r
  | _ :: r => last_node acc r
  end.

(* ---- token line numbers (lexer.tokeniter: lineno += value.count("\n") after each token) *)
Definition count_nl (s : list N) : N := N.of_nat (length (filter (N.eqb 10) s)).
Fixpoint token_lines (line : N) (toks : list (list N)) : list N :=
  match toks with
  | [] => []
  | t :: r => line :: token_lines (line + count_nl t) r
  end.

(* ---- parser errors over token streams (lexer.TokenStream.expect, parser.Parser.fail) *)
Record token := mkTok { t_line : N; t_eof : bool }.      (* lineno; type is TOKEN_EOF *)
Inductive presult := PNext | PSyntaxError (line : N).
(* TokenStream.expect(expr): [matches] = self.current.test(expr) *)
Definition expect (current : token) (matches : bool) : presult :=
  if matches then PNext else PSyntaxError (t_line current).
(* Parser.fail(msg, lineno=None) *)
Definition fail (current : token) (lineno : option N) : presult :=
  PSyntaxError (match lineno with Some l => l | None => t_line current end).
