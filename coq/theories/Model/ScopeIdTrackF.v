(* Block set with a filter: {% set x | f(args) %}body{% endset %}.
   RootVisitor.visit_AssignBlock visits the body and then (since /repo commit 6c2621d) the filter node,
   so the names in the filter arguments are analysed for the block's frame — before the code generator
   creates the frames inside the body.  Modelled next to the statement AST (which has no filter field)
   for the K-sym tie: a template  pre ++ [the filtered block set].
   Since /repo's fix "names in the filter arguments of a set block are read by the enclosing frame before the
   target is stored" FrameSymbolVisitor.visit_AssignBlock visits the filter (then the target) in the ENCLOSING
   frame too, like visit_FilterBlock: root_setblock_f. *)
From Coq Require Import List NArith ZArith Bool.
Import ListNotations.
From JV Require Import Model.ScopeAst Model.ScopeIdTrack.

Section F.
  Variable ord : list name -> list name.
  Definition frame_setblock_f (chain : list symbols) (body : list stmt) (args : list expr) : symbols :=
    sym_loads chain (fsv_list ord chain (sym_new chain) body) (exprs_names args).
  (* every frame in enter_frame order *)
  Definition root_setblock_f (pre : list stmt) (x : name) (args : list expr) (body : list stmt) : symbols :=
    let s := sym_new [] in
    let s := if nmem n_self (find_undeclared (pre ++ [SSetBlock x body]) [n_self]) then sym_param s n_self else s in
    sym_store [] (sym_loads [] (fsv_list ord [] s pre) (exprs_names args)) x.
  Definition frames_setblock_f (pre : list stmt) (x : name) (args : list expr) (body : list stmt) : list (list symbols) :=
    let root := [root_setblock_f pre x args body] in
    let f := frame_setblock_f root body args :: root in
    root :: frames_list ord root pre ++ f :: frames_list ord f body.
End F.
