(* Block set with a filter: {% set x | f(args) %}body{% endset %}.
   RootVisitor.visit_AssignBlock visits the body and then (since /repo commit 6c2621d) the filter node,
   so the names in the filter arguments are analysed for the block's frame — before the code generator
   creates the frames inside the body.  Modelled next to the statement AST (which has no filter field)
   for the K-sym tie: a template  pre ++ [the filtered block set]. *)
From Coq Require Import List NArith ZArith Bool.
Import ListNotations.
From JV Require Import Model.ScopeAst Model.ScopeIdTrack.

Section F.
  Variable ord : list name -> list name.
  Definition frame_setblock_f (chain : list symbols) (body : list stmt) (args : list expr) : symbols :=
    sym_loads chain (fsv_list ord chain (sym_new chain) body) (exprs_names args).
  (* every frame in enter_frame order *)
  Definition frames_setblock_f (pre : list stmt) (x : name) (args : list expr) (body : list stmt) : list (list symbols) :=
    let root := [frame_root ord (pre ++ [SSetBlock x body])] in
    let f := frame_setblock_f root body args :: root in
    root :: frames_list ord root pre ++ f :: frames_list ord f body.
End F.
