(* C14 -- model of jinja2's literal recognisers and value conversions:
     lexer.integer_re / float_re / string_re (hand-written scanners with the regexes' ordered
     alternation and greedy groups), the rule order of the tag rules (float before integer, the
     look-behind "not preceded by a dot"), lexer.wrap's conversions
       int(value.replace("_", ""), 0)          literal_eval(value.replace("_", ""))
       normalize_newlines(body).encode("ascii", "backslashreplace").decode("unicode-escape")
     and the concatenation of adjacent string tokens in parser.parse_primary.
   Executable definitions only. *)
From Coq Require Import List NArith ZArith Bool.
Import ListNotations.
Open Scope N_scope.

Definition str := list N.

(* ------------------------------------------------------------------ characters *)
Definition is_digit (c : N) : bool := (48 <=? c) && (c <=? 57).
Definition digit_val (c : N) : option N :=
  if is_digit c then Some (c - 48)
  else if (97 <=? c) && (c <=? 102) then Some (c - 87)
  else if (65 <=? c) && (c <=? 70) then Some (c - 55)
  else None.
(* value of c as a digit of the given base (base 1 = "the digit 0 only") *)
Definition dval (base : N) (c : N) : option N :=
  match digit_val c with Some d => if d <? base then Some d else None | None => None end.
Definition prefix_base (c : N) : option N :=
  if (c =? 98) || (c =? 66) then Some 2
  else if (c =? 111) || (c =? 79) then Some 8
  else if (c =? 120) || (c =? 88) then Some 16
  else None.
Definition US : N := 95.   (* _ *)

(* ------------------------------------------------------------------ integer_re *)
(* length of the longest prefix made of groups "_?d" -- what the greedy group matches *)
Fixpoint scan_us (base : N) (s : str) : nat :=
  match s with
  | [] => O
  | c :: r =>
      match dval base c with
      | Some _ => S (scan_us base r)
      | None =>
          if c =? US then
            match r with
            | d :: r' => match dval base d with Some _ => S (S (scan_us base r')) | None => O end
            | [] => O
            end
          else O
      end
  end.

(* integer_re.match(s): length of the match.  Ordered alternation (IGNORECASE):
   0b(_?[01])+  |  0o(_?[0-7])+  |  0x(_?[0-9a-f])+  |  [1-9](_?[0-9])...  |  0(_?0)... *)
Definition lex_integer (s : str) : option nat :=
  match s with
  | [] => None
  | c0 :: r0 =>
      if c0 =? 48 then
        let zero := Some (S (scan_us 1 r0)) in
        match r0 with
        | c1 :: r1 =>
            match prefix_base c1 with
            | Some b => let n := scan_us b r1 in if Nat.ltb 0 n then Some (S (S n)) else zero
            | None => zero
            end
        | [] => zero
        end
      else if is_digit c0 then Some (S (scan_us 10 r0))
      else None
  end.

Definition remove_us (s : str) : str := filter (fun c => negb (c =? US)) s.

(* positional value of a digit string in a base; None if a character is not a digit *)
Fixpoint digits_val (base : N) (acc : Z) (s : str) : option Z :=
  match s with
  | [] => Some acc
  | c :: r => match dval base c with
              | Some d => digits_val base (acc * Z.of_N base + Z.of_N d)%Z r
              | None => None end
  end.

Inductive conv (A : Type) := Ok (a : A) | SyntaxErr.
Arguments Ok {A} _. Arguments SyntaxErr {A}.

(* int(t, 0) on an underscore-free spelling: prefix selects the base, a decimal spelling
   must not have leading zeros unless it is all zeros, and (CPython >= 3.11) a decimal
   spelling longer than the digit limit is refused (ValueError -> TemplateSyntaxError) *)
Definition int0 (limit : N) (t : str) : conv Z :=
  match t with
  | [] => SyntaxErr
  | c0 :: r0 =>
      let dec :=
        if (0 <? limit) && (limit <? N.of_nat (length t)) then SyntaxErr
        else match digits_val 10 0%Z t with
             | Some v => if (c0 =? 48) && negb (Z.eqb v 0) then SyntaxErr else Ok v
             | None => SyntaxErr end in
      if c0 =? 48 then
        match r0 with
        | c1 :: r1 =>
            match prefix_base c1 with
            | Some b => match r1 with
                        | [] => SyntaxErr
                        | _ => match digits_val b 0%Z r1 with Some v => Ok v | None => SyntaxErr end
                        end
            | None => dec
            end
        | [] => dec
        end
      else dec
  end.

Definition jinja_int (limit : N) (s : str) : conv Z := int0 limit (remove_us s).

(* ------------------------------------------------------------------ float_re *)
(* the digit part "digits, possibly _ separated" = d(_?d)... : length of the longest such prefix, 0 if none *)
Definition scan_digitpart (s : str) : nat :=
  match s with
  | c :: r => if is_digit c then S (scan_us 10 r) else O
  | [] => O
  end.

Definition is_e (c : N) : bool := (c =? 101) || (c =? 69).
Definition is_sign (c : N) : bool := (c =? 43) || (c =? 45).

(* a dot followed by a digit part at the head of s: its length, 0 if it does not match *)
Definition scan_frac (s : str) : nat :=
  match s with
  | c :: r => if c =? 46 then match scan_digitpart r with O => O | n => S n end else O
  | [] => O
  end.
(* e, optional sign, digit part *)
Definition scan_exp (s : str) : nat :=
  match s with
  | c :: r =>
      if is_e c then
        match r with
        | x :: r' => if is_sign x then match scan_digitpart r' with O => O | n => S (S n) end
                     else match scan_digitpart r with O => O | n => S n end
        | [] => O
        end
      else O
  | [] => O
  end.

(* float_re.match at a position whose preceding character is [prev]: not preceded by a dot;
   digit part; then EITHER optional fraction + exponent OR a required fraction *)
Definition lex_float (prev : option N) (s : str) : option nat :=
  if match prev with Some p => p =? 46 | None => false end then None
  else
    match scan_digitpart s with
    | O => None
    | n1 =>
        let r1 := skipn n1 s in
        let f := scan_frac r1 in
        match scan_exp (skipn f r1) with
        | S k => Some (n1 + f + S k)%nat                    (* first alternative *)
        | O => match f with O => None | _ => Some (n1 + f)%nat end   (* second alternative *)
        end
    end.

(* the rule order of Lexer.tag_rules: float_re is tried before integer_re *)
Inductive numkind := KFloatTok | KIntTok.
Definition lex_number (prev : option N) (s : str) : option (numkind * nat) :=
  match lex_float prev s with
  | Some n => Some (KFloatTok, n)
  | None => match lex_integer s with Some n => Some (KIntTok, n) | None => None end
  end.

(* value of a float token: literal_eval(value.replace("_", "")) -- decimal -> double is
   external; the spelling handed over is what the model fixes *)
Section Float.
  Variable F : Type.
  Variable dec2float : str -> F.
  Definition jinja_float (s : str) : F := dec2float (remove_us s).
End Float.

(* ------------------------------------------------------------------ string_re *)
(* string_re (re.S): after the opening quote q, characters other than q and backslash, or
   backslash followed by any character, up to the first unescaped q *)
Fixpoint scan_body (q : N) (esc : bool) (s : str) : option nat :=   (* length incl. the closing quote *)
  match s with
  | [] => None
  | c :: r =>
      if esc then option_map S (scan_body q false r)
      else if c =? 92 then option_map S (scan_body q true r)
      else if c =? q then Some 1%nat
      else option_map S (scan_body q false r)
  end.
Definition is_quote (c : N) : bool := (c =? 39) || (c =? 34).
Definition lex_string (s : str) : option nat :=
  match s with
  | q :: r => if is_quote q then option_map S (scan_body q false r) else None
  | [] => None
  end.

(* ------------------------------------------------------------------ string conversion *)
(* newline_re.sub(newline_sequence, body):  \r\n | \r | \n  ->  nl *)
Fixpoint normalize (nl : str) (s : str) : str :=
  match s with
  | [] => []
  | 13 :: r => nl ++ match r with 10 :: r' => normalize nl r' | _ => normalize nl r end
  | 10 :: r => nl ++ normalize nl r
  | c :: r => c :: normalize nl r
  end.

Definition hexdig (k : N) : N := if k <? 10 then 48 + k else 87 + k.   (* lower case *)
Definition hex2 (c : N) : str := [hexdig (c / 16 mod 16); hexdig (c mod 16)].
Definition hex4 (c : N) : str := hex2 (c / 256) ++ hex2 c.
Definition hex8 (c : N) : str := hex4 (c / 65536) ++ hex4 c.

(* str.encode("ascii", "backslashreplace"), one character *)
Definition bsr_char (c : N) : str :=
  if c <? 128 then [c]
  else if c <? 256 then [92; 120] ++ hex2 c
  else if c <? 65536 then [92; 117] ++ hex4 c
  else [92; 85] ++ hex8 c.
Definition bsr (s : str) : str := flat_map bsr_char s.

(* bytes.decode("unicode-escape") as a state machine over the (ASCII) bytes *)
Inductive ustate :=
| UNormal
| UEsc                                   (* after a backslash *)
| UOct (more : nat) (acc : N)            (* inside an octal escape, up to [more] more digits *)
| UHex (more : nat) (acc : N).           (* inside \xHH / \uHHHH / \UHHHHHHHH *)
Inductive uerr := ETruncated | EIllegal | EUnsupportedName.

Definition is_oct (c : N) : bool := (48 <=? c) && (c <=? 55).

Definition simple_escape (c : N) : option str :=
  if c =? 10 then Some []                (* backslash-newline: line continuation *)
  else if c =? 92 then Some [92] else if c =? 39 then Some [39] else if c =? 34 then Some [34]
  else if c =? 97 then Some [7] else if c =? 98 then Some [8] else if c =? 102 then Some [12]
  else if c =? 110 then Some [10] else if c =? 114 then Some [13] else if c =? 116 then Some [9]
  else if c =? 118 then Some [11]
  else None.

(* one input byte: new state and emitted characters *)
Definition ustep (st : ustate) (c : N) : ustate * str + uerr :=
  let normal (c : N) : ustate * str + uerr :=
    if c =? 92 then inl (UEsc, []) else inl (UNormal, [c]) in
  match st with
  | UNormal => normal c
  | UEsc =>
      match simple_escape c with
      | Some out => inl (UNormal, out)
      | None =>
          if is_oct c then inl (UOct 2 (c - 48), [])
          else if c =? 120 then inl (UHex 2 0, [])
          else if c =? 117 then inl (UHex 4 0, [])
          else if c =? 85 then inl (UHex 8 0, [])
          else if c =? 78 then inr EUnsupportedName          (* \N{...}: needs the Unicode name table *)
          else inl (UNormal, [92; c])                        (* unknown escape: kept *)
      end
  | UOct more acc =>
      match more with
      | O => match normal c with inl (st', out) => inl (st', acc :: out) | inr e => inr e end
      | S k =>
          if is_oct c then
            match k with
            | O => inl (UNormal, [acc * 8 + (c - 48)])
            | _ => inl (UOct k (acc * 8 + (c - 48)), [])
            end
          else match normal c with inl (st', out) => inl (st', acc :: out) | inr e => inr e end
      end
  | UHex more acc =>
      match digit_val c with
      | None => inr ETruncated
      | Some d =>
          let acc' := acc * 16 + d in
          match more with
          | S O | O => if acc' <? 1114112 then inl (UNormal, [acc']) else inr EIllegal
          | S k => inl (UHex k acc', [])
          end
      end
  end.

Fixpoint ufeed (st : ustate) (s : str) : ustate * str + uerr :=
  match s with
  | [] => inl (st, [])
  | c :: r =>
      match ustep st c with
      | inr e => inr e
      | inl (st', out) =>
          match ufeed st' r with
          | inr e => inr e
          | inl (st'', out') => inl (st'', out ++ out')
          end
      end
  end.

Definition ufinish (st : ustate) : str + uerr :=
  match st with
  | UNormal => inl []
  | UEsc => inr ETruncated                 (* "\ at end of string" *)
  | UOct _ acc => inl [acc]
  | UHex _ _ => inr ETruncated
  end.

Definition unicode_escape (s : str) : str + uerr :=
  match ufeed UNormal s with
  | inr e => inr e
  | inl (st, out) => match ufinish st with inl t => inl (out ++ t) | inr e => inr e end
  end.

(* _backslash_non_ascii_re.sub: an unescaped backslash in front of a non-ASCII character is doubled
   (backslashes are read in pairs from the left, so "unescaped" = at an odd position of its run);
   [esc] = the previous character was an unescaped backslash *)
Fixpoint protect_go (esc : bool) (s : str) : str :=
  match s with
  | [] => []
  | c :: r =>
      if esc then (if 128 <=? c then 92 :: c :: protect_go false r else c :: protect_go false r)
      else if c =? 92 then 92 :: protect_go true r
      else c :: protect_go false r
  end.
Definition protect (s : str) : str := protect_go false s.

(* _line_continuation_re.sub: a backslash-newline pair whose backslash is not itself escaped is removed
   (backslashes are read in pairs from the left) *)
Fixpoint uncontinue (s : str) : str :=
  match s with
  | [] => []
  | c :: r =>
      if c =? 92 then
        match r with
        | d :: r' => if d =? 10 then uncontinue r' else c :: d :: uncontinue r'
        | [] => [c]
        end
      else c :: uncontinue r
  end.

(* the value of a string token with body [body] (the text between the quotes).  Lexer.tokeniter has
   already turned every line break of the source into LF ([normalize [10]]); then continuations are
   removed, the remaining line breaks become the newline_sequence, lone backslashes before non-ASCII
   characters are protected, and the encode / decode pair unescapes *)
Definition convert (nl : str) (body : str) : str + uerr :=
  unicode_escape (bsr (protect (normalize nl (uncontinue (normalize [10] body))))).

(* parser.parse_primary: adjacent string tokens are joined *)
Definition parse_strings (values : list str) : str := concat values.

(* ------------------------------------------------------------------ spellings of a value *)
(* ways of writing the code point list v between quotes q *)
Inductive style := SRepr | SUni | SHex | SOct.

Definition esc_u (c : N) : str := if c <? 65536 then [92; 117] ++ hex4 c else [92; 85] ++ hex8 c.
Definition oct3 (c : N) : str := [48 + c / 64 mod 8; 48 + c / 8 mod 8; 48 + c mod 8].

Definition enc_char (st : style) (q : N) (c : N) : str :=
  match st with
  | SRepr =>
      if c =? 92 then [92; 92]
      else if c =? q then [92; q]
      else if c =? 10 then [92; 110] else if c =? 13 then [92; 114] else if c =? 9 then [92; 116]
      else if (c <? 32) || (c =? 127) then [92; 120] ++ hex2 c
      else [c]                                   (* printable ASCII and every non-ASCII character raw *)
  | SUni => esc_u c
  | SHex => if c <? 256 then [92; 120] ++ hex2 c else esc_u c
  | SOct => if c <? 512 then 92 :: oct3 c else esc_u c
  end.
Definition encode (st : style) (q : N) (v : str) : str := flat_map (enc_char st q) v.
Definition literal (st : style) (q : N) (v : str) : str := q :: encode st q v ++ [q].
