(* Model of the attribute policy of jinja2.sandbox (C17, C19):
     is_internal_attribute, SandboxedEnvironment.is_safe_attribute.
   Executable definitions only.

   Attribute names are Coq [string]s (byte strings; the harness passes the UTF-8 encoding of
   the Python name, under which [str.startswith("_")] is prefix on bytes).  This deviates from
   the [list N] convention of the other models on purpose: the tables below and the hand-written
   specification Spec/SbxMutators.v must be readable as method names. *)
From Coq Require Import List Bool String Ascii.
Import ListNotations.
Open Scope string_scope.

Definition mem_s (a : string) (l : list string) : bool := existsb (String.eqb a) l.

(* The branch of the isinstance chain of is_internal_attribute an object falls into.
   The chain is if/elif, so exactly one branch applies, in this order. *)
Inductive okind :=
  | KFunction      (* types.FunctionType *)
  | KMethod        (* types.MethodType *)
  | KType          (* type *)
  | KCode | KTraceback | KFrame
  | KGenerator     (* types.GeneratorType *)
  | KCoroutine     (* types.CoroutineType *)
  | KAsyncGen      (* types.AsyncGeneratorType *)
  | KOther.        (* everything else: instances of ordinary classes, builtin containers, str, ... *)

(* UNSAFE_*_ATTRIBUTES, regenerated from sandbox.py by gen/sbx_tables.py *)
Record tables := mkTables {
  t_function : list string;
  t_method : list string;
  t_generator : list string;
  t_coroutine : list string;
  t_asyncgen : list string }.

Definition starts_underscore (a : string) : bool := prefix "_" a.
Definition starts_dunder (a : string) : bool := prefix "__" a.

(* sandbox.is_internal_attribute(obj, attr) *)
Definition is_internal_attribute (tb : tables) (k : okind) (attr : string) : bool :=
  let hit :=
    match k with
    | KFunction => mem_s attr (t_function tb)
    | KMethod => mem_s attr (t_function tb) || mem_s attr (t_method tb)
    | KType => String.eqb attr "mro"
    | KCode | KTraceback | KFrame => true
    | KGenerator => mem_s attr (t_generator tb)
    | KCoroutine => mem_s attr (t_coroutine tb)
    | KAsyncGen => mem_s attr (t_asyncgen tb)
    | KOther => false
    end in
  if hit then true else starts_dunder attr.

(* SandboxedEnvironment.is_safe_attribute(obj, attr, value) *)
Definition is_safe_attribute (tb : tables) (k : okind) (attr : string) : bool :=
  negb (starts_underscore attr || is_internal_attribute tb k attr).
