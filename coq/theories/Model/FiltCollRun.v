(* C22 — value-level model of the collection filters: the value universe the tie drives
   through Environment.call_filter, attribute paths (make_attrgetter /
   make_multi_attrgetter / _prepare_attribute_parts / Environment.getitem), keys and their
   comparison, the exception branches, and one entry point per filter, sync and async.
   Executable definitions only. *)
From Coq Require Import List NArith ZArith Bool.
Import ListNotations.
From JV Require Import Model.FiltColl.

(* ------------------------------------------------------------------ values *)
Inductive pkey := KS (s : str) | KI (n : N).          (* an attribute-path part / a dict key *)
Inductive value :=
| VInt (z : Z) | VStr (s : str) | VNone | VUndef
| VList (l : list value)
| VDict (ks : list pkey) (vs : list value).            (* insertion-ordered, parallel lists *)

Fixpoint str_eqb (a b : str) : bool :=
  match a, b with
  | [], [] => true
  | x :: a', y :: b' => (x =? y)%N && str_eqb a' b'
  | _, _ => false
  end.
Definition pkey_eqb (a b : pkey) : bool :=
  match a, b with
  | KS x, KS y => str_eqb x y
  | KI x, KI y => (x =? y)%N
  | _, _ => false
  end.

(* keys of the modelled domain are atoms; containers are AtOther (outside the domain of the
   ordering filters, unhashable for unique) *)
Inductive atom := AtInt (z : Z) | AtStr (s : str) | AtNone | AtUndef | AtOther.
Definition atom_of (v : value) : atom :=
  match v with
  | VInt z => AtInt z | VStr s => AtStr s | VNone => AtNone | VUndef => AtUndef
  | _ => AtOther
  end.
(* == on atoms: Undefined() == Undefined() and None == None hold in Python *)
Definition atom_eqb (a b : atom) : bool :=
  match a, b with
  | AtInt x, AtInt y => (x =? y)%Z
  | AtStr x, AtStr y => str_eqb x y
  | AtNone, AtNone => true
  | AtUndef, AtUndef => true
  | _, _ => false
  end.
(* code-point lexicographic order of str *)
Fixpoint str_leb (a b : str) : bool :=
  match a, b with
  | [], _ => true
  | _ :: _, [] => false
  | x :: a', y :: b' => if (x <? y)%N then true else if (y <? x)%N then false else str_leb a' b'
  end.
Definition atom_rank (a : atom) : N :=
  match a with AtInt _ => 0 | AtStr _ => 1 | AtNone => 2 | AtUndef => 3 | AtOther => 4 end%N.
(* a total preorder extending Python's < on ints and on strs (mixed kinds are ordered by
   rank only to keep the function total: the entry points reject such inputs first) *)
Definition atom_leb (a b : atom) : bool :=
  match a, b with
  | AtInt x, AtInt y => (x <=? y)%Z
  | AtStr x, AtStr y => str_leb x y
  | _, _ => (atom_rank a <=? atom_rank b)%N
  end.
(* Python list comparison: first position that differs decides, else the shorter is smaller *)
Fixpoint lex_leb (a b : list atom) : bool :=
  match a, b with
  | [], _ => true
  | _ :: _, [] => false
  | x :: a', y :: b' => if atom_eqb x y then lex_leb a' b' else atom_leb x y
  end.
Fixpoint lex_eqb (a b : list atom) : bool :=
  match a, b with
  | [], [] => true
  | x :: a', y :: b' => atom_eqb x y && lex_eqb a' b'
  | _, _ => false
  end.

(* ------------------------------------------------------------------ small string helpers *)
(* str.lower on the characters the tie uses: ASCII and Latin-1 upper case letters *)
Definition lower_char (c : N) : N :=
  if ((65 <=? c) && (c <=? 90))%N then (c + 32)%N
  else if ((192 <=? c) && (c <=? 222) && negb (c =? 215))%N then (c + 32)%N
  else c.
Definition upper_char (c : N) : N :=
  if ((97 <=? c) && (c <=? 122))%N then (c - 32)%N
  else if ((224 <=? c) && (c <=? 254) && negb (c =? 247))%N then (c - 32)%N
  else c.
Definition lower (s : str) : str := map lower_char s.
Definition upper (s : str) : str := map upper_char s.

Fixpoint dec_go (fuel : nat) (n : N) (acc : str) : str :=
  match fuel with
  | O => acc
  | S f => let acc' := (48 + n mod 10)%N :: acc in
           if (n / 10 =? 0)%N then acc' else dec_go f (n / 10)%N acc'
  end.
Definition show_N (n : N) : str := dec_go (S (N.size_nat n)) n [].
Definition show_Z (z : Z) : str :=
  match z with Zneg p => 45%N :: show_N (Npos p) | _ => show_N (Z.to_N z) end.

(* str.split(c) *)
Fixpoint split_on (c : N) (cur : str) (s : str) : list str :=
  match s with
  | [] => [rev cur]
  | x :: r => if (x =? c)%N then rev cur :: split_on c [] r else split_on c (x :: cur) r
  end.
Definition is_digit (c : N) : bool := ((48 <=? c) && (c <=? 57))%N.
(* str.isdigit on ASCII text *)
Definition isdigit (s : str) : bool := match s with [] => false | _ => forallb is_digit s end.
Definition int_of_digits (s : str) : N := fold_left (fun acc c => (acc * 10 + (c - 48))%N) s 0%N.

(* ------------------------------------------------------------------ attribute paths *)
Inductive attr := ANone | AStr (s : str) | AInt (n : N).

(* _prepare_attribute_parts *)
Definition part_of (x : str) : pkey := if isdigit x then KI (int_of_digits x) else KS x.
Definition prepare_parts (a : attr) : list pkey :=
  match a with
  | ANone => []
  | AStr s => map part_of (split_on 46 [] s)
  | AInt n => [KI n]
  end.

Fixpoint dict_get (k : pkey) (ks : list pkey) (vs : list value) : option value :=
  match ks, vs with
  | k' :: ks', v :: vs' => if pkey_eqb k k' then Some v else dict_get k ks' vs'
  | _, _ => None
  end.

(* Environment.getitem(obj, part):  obj[part]; on AttributeError/TypeError/LookupError fall
   back to getattr for a string part, else undefined.  Attribute names of the modelled
   domain are not names of Python methods of dict/list/str/int, so the getattr fall-back
   finds nothing.  Subscripting an Undefined raises UndefinedError. *)
Definition getitem (v : value) (p : pkey) : res value :=
  match v with
  | VUndef => Err UndefinedError
  | VDict ks vs => Ok (match dict_get p ks vs with Some x => x | None => VUndef end)
  | VList l => Ok (match p with KI n => nth (N.to_nat n) l VUndef | KS _ => VUndef end)
  | VStr s => Ok (match p with
                  | KI n => match nth_error s (N.to_nat n) with Some c => VStr [c] | None => VUndef end
                  | KS _ => VUndef
                  end)
  | VInt _ | VNone => Ok VUndef
  end.

Definition is_undef (v : value) : bool := match v with VUndef => true | _ => false end.
(* `default is not None` *)
Definition norm_default (d : option value) : option value :=
  match d with Some VNone => None | _ => d end.

(* the loop of make_attrgetter's closure *)
Fixpoint getter_go (parts : list pkey) (default : option value) (item : value) : res value :=
  match parts with
  | [] => Ok item
  | p :: r =>
      match getitem item p with
      | Err e => Err e
      | Ok it =>
          let it' := match default with Some d => if is_undef it then d else it | None => it end in
          getter_go r default it'
      end
  end.
Definition attrgetter (a : attr) (post : value -> value) (default : option value) (item : value) : res value :=
  match getter_go (prepare_parts a) (norm_default default) item with
  | Ok v => Ok (post v)
  | Err e => Err e
  end.

Definition ignore_case (v : value) : value := match v with VStr s => VStr (lower s) | _ => v end.
Definition post_of (case_sensitive : bool) : value -> value :=
  if case_sensitive then (fun v => v) else ignore_case.

Fixpoint mapM {X Y : Type} (f : X -> res Y) (l : list X) : res (list Y) :=
  match l with
  | [] => Ok []
  | x :: r => match f x with
              | Err e => Err e
              | Ok y => match mapM f r with Err e => Err e | Ok ys => Ok (y :: ys) end
              end
  end.

(* make_multi_attrgetter: "a,b.c" -> one path per comma-separated item; no default *)
Definition multi_paths (a : attr) : list (list pkey) :=
  match a with
  | AStr s => map (fun x => map part_of (split_on 46 [] x)) (split_on 44 [] s)
  | _ => [prepare_parts a]
  end.
Definition multi_attrgetter (a : attr) (post : value -> value) (item : value) : res (list value) :=
  mapM (fun parts => match getter_go parts None item with Ok v => Ok (post v) | Err e => Err e end)
       (multi_paths a).

(* ------------------------------------------------------------------ comparability *)
(* Which exception `sorted` / `min` / `max` raise on a key column, or none.  A comparison
   sort compares every element with some other one, so one incomparable kind among >= 2
   keys always surfaces.  Combinations whose first failing comparison depends on the
   sorting algorithm are outside the model (EModel). *)
Definition all_int (l : list atom) := forallb (fun a => match a with AtInt _ => true | _ => false end) l.
Definition all_str (l : list atom) := forallb (fun a => match a with AtStr _ => true | _ => false end) l.
Definition has (k : N) (l : list atom) := existsb (fun a => (atom_rank a =? k)%N) l.
Definition plain (l : list atom) := filter (fun a => (atom_rank a <=? 1)%N) l.

Definition column_check (col : list atom) : option exn :=
  match col with
  | [] | [_] => None
  | _ =>
      if all_int col || all_str col then None
      else if has 4 col then Some EModel
      else
        let p := plain col in
        let homog := all_int p || all_str p in
        match has 2 col, has 3 col with
        | false, false => Some TypeError                 (* ints mixed with strs *)
        | true, false => if homog then Some TypeError else Some EModel
        | false, true => if homog then Some UndefinedError else Some EModel
        | true, true => Some EModel
        end
  end.

Fixpoint columns_ok (width : nat) (rows : list (list atom)) : bool :=
  match width with
  | O => true
  | S w =>
      let col := map (fun r => match r with a :: _ => a | [] => AtOther end) rows in
      (all_int col || all_str col) && columns_ok w (map (@tl atom) rows)
  end.
Definition rows_check (rows : list (list atom)) : option exn :=
  match rows with
  | [] | [_] => None
  | r :: _ =>
      match r with
      | [_] =>
          (* keys are one-element lists: list comparison applies == first, and
             None == None, Undefined() == Undefined() hold, so equal keys never reach < *)
          let col := map (fun r => match r with a :: _ => a | [] => AtOther end) rows in
          if forallb (fun a => (atom_rank a =? 2)%N) col || forallb (fun a => (atom_rank a =? 3)%N) col
          then None else column_check col
      | _ => if columns_ok (length r) rows then None else Some EModel
      end
  end.

Definition vkey_leb (a b : value) : bool := atom_leb (atom_of a) (atom_of b).
Definition vkey_eqb (a b : value) : bool := atom_eqb (atom_of a) (atom_of b).
Definition mkey_leb (a b : list value) : bool := lex_leb (map atom_of a) (map atom_of b).
Definition flip {X} (f : X -> X -> bool) : X -> X -> bool := fun a b => f b a.

(* ------------------------------------------------------------------ the filters *)
Definition elems (v : value) : res (list value) :=
  match v with
  | VList l => Ok l
  | VStr s => Ok (map (fun c => VStr [c]) s)
  | _ => Err EModel
  end.

Definition opt_fill (f : option value) : option value := norm_default f.   (* fill_with is not None *)

Definition f_slice (n : Z) (fill : option value) (xs : list value) : res value :=
  match do_slice n (opt_fill fill) xs with
  | Ok ls => Ok (VList (map VList ls))
  | Err e => Err e
  end.
Definition f_batch (n : Z) (fill : option value) (xs : list value) : res value :=
  Ok (VList (map VList (do_batch n (opt_fill fill) xs))).

Definition hashable (v : value) : bool := match v with VList _ | VDict _ _ => false | _ => true end.

(* keyed items: the key is computed once per item, in order, errors in order *)
Definition keyed (get : value -> res value) (xs : list value) : res (list (value * value)) :=
  mapM (fun x => match get x with Ok k => Ok (k, x) | Err e => Err e end) xs.

Definition f_unique (cs : bool) (a : attr) (xs : list value) : res value :=
  match keyed (fun x => match attrgetter a (post_of cs) None x with
                        | Ok k => if hashable k then Ok k else Err TypeError
                        | Err e => Err e
                        end) xs with
  | Err e => Err e
  | Ok kxs => Ok (VList (map snd (do_unique vkey_eqb fst kxs)))
  end.

Definition mkeyed (a : attr) (cs : bool) (xs : list value) : res (list (list value * value)) :=
  mapM (fun x => match multi_attrgetter a (post_of cs) x with Ok k => Ok (k, x) | Err e => Err e end) xs.

Definition f_sort (reverse cs : bool) (a : attr) (xs : list value) : res value :=
  match mkeyed a cs xs with
  | Err e => Err e
  | Ok kxs =>
      match rows_check (map (fun kx => map atom_of (fst kx)) kxs) with
      | Some e => Err e
      | None => Ok (VList (map snd (sort_by fst (if reverse then flip mkey_leb else mkey_leb) kxs)))
      end
  end.

Definition single_check (kxs : list (value * value)) : option exn :=
  column_check (map (fun kx => atom_of (fst kx)) kxs).

Definition pkey_value (k : pkey) : value := match k with KS s => VStr s | KI n => VInt (Z.of_N n) end.
Fixpoint dict_items (ks : list pkey) (vs : list value) : list (value * value) :=
  match ks, vs with
  | k :: ks', v :: vs' => (pkey_value k, v) :: dict_items ks' vs'
  | _, _ => []
  end.

(* do_dictsort; by: 0 = "key", 1 = "value", anything else is rejected *)
Definition f_dictsort (cs : bool) (by_ : N) (reverse : bool) (v : value) : res value :=
  if negb ((by_ =? 0) || (by_ =? 1))%N then Err FilterArgumentError else
  match v with
  | VDict ks vs =>
      let items := dict_items ks vs in
      let kxs := map (fun it => (post_of cs (if (by_ =? 0)%N then fst it else snd it), it)) items in
      match single_check (map (fun kx => (fst kx, VNone)) kxs) with
      | Some e => Err e
      | None =>
          Ok (VList (map (fun kx => VList [fst (snd kx); snd (snd kx)])
                         (sort_by fst (if reverse then flip vkey_leb else vkey_leb) kxs)))
      end
  | _ => Err EModel
  end.

(* sync_do_groupby *)
Definition f_groupby (a : attr) (default : option value) (cs : bool) (xs : list value) : res value :=
  match keyed (attrgetter a (post_of cs) default) xs with
  | Err e => Err e
  | Ok kxs =>
      match single_check kxs with
      | Some e => Err e
      | None =>
          let groups := group_adj vkey_eqb fst (sort_by fst vkey_leb kxs) in
          (* case-insensitive: the displayed key is the raw key of the group's first item *)
          let shown (g : value * list (value * value)) : res value :=
            if cs then Ok (fst g)
            else match snd g with
                 | kx :: _ => attrgetter a (fun v => v) default (snd kx)
                 | [] => Err EModel
                 end in
          match mapM (fun g => match shown g with
                               | Ok k => Ok (VList [k; VList (map snd (snd g))])
                               | Err e => Err e
                               end) groups with
          | Ok gs => Ok (VList gs)
          | Err e => Err e
          end
      end
  end.

(* _min_or_max *)
Definition f_minmax (is_max : bool) (cs : bool) (a : attr) (xs : list value) : res value :=
  match xs with
  | [] => Ok VUndef
  | _ =>
      match keyed (attrgetter a (post_of cs) None) xs with
      | Err e => Err e
      | Ok kxs =>
          match single_check kxs with
          | Some e => Err e
          | None =>
              match kxs with
              | [] => Ok VUndef
              | first :: rest =>
                  Ok (snd ((if is_max then max_go else min_go) fst vkey_leb first rest))
              end
          end
      end
  end.

(* + as sum uses it *)
Definition vadd (a b : value) : res value :=
  match a, b with
  | VInt x, VInt y => Ok (VInt (x + y))
  | VList x, VList y => Ok (VList (x ++ y))
  | VUndef, _ | _, VUndef => Err UndefinedError
  | VStr x, VStr y => Ok (VStr (x ++ y))        (* unreachable from sum: both variants refuse a str start *)
  | _, _ => Err TypeError
  end.

Definition sum_getter (a : attr) : value -> res value :=
  match a with ANone => (fun v => Ok v) | _ => attrgetter a (fun v => v) None end.

(* sync_do_sum: sum(map(getter, iterable), start) *)
Fixpoint sum_go (get : value -> res value) (rv : value) (xs : list value) : res value :=
  match xs with
  | [] => Ok rv
  | x :: r => match get x with
              | Err e => Err e
              | Ok v => match vadd rv v with Err e => Err e | Ok rv' => sum_go get rv' r end
              end
  end.
(* the builtin sum() raises TypeError for a str start ("sum() can't sum strings") at once *)
Definition f_sum (a : attr) (start : value) (xs : list value) : res value :=
  match start with VStr _ => Err TypeError | _ => sum_go (sum_getter a) start xs end.

(* async do_sum (repo bfd2119):  values = [func(item) async for item in ...]; return sum(values, start)
   — every getter runs before the first addition.  A str start is refused (12b19c4).  [aug] is the
   regenerated flag "the accumulation is an augmented assignment on the alias of start" (false for the
   current source): then a list [start] would be extended in place.  Returns the result and the caller's
   [start] object after the call. *)
Definition is_list (v : value) : bool := match v with VList _ => true | _ => false end.
Fixpoint fold_add (rv : value) (vs : list value) : res value :=
  match vs with
  | [] => Ok rv
  | v :: r => match vadd rv v with Err e => Err e | Ok rv' => fold_add rv' r end
  end.
Definition f_sum_async (aug : bool) (a : attr) (start : value) (xs : list value) : res (value * value) :=
  match start with
  | VStr _ => Err TypeError
  | _ => match mapM (sum_getter a) xs with
         | Err e => Err e
         | Ok vs => match fold_add start vs with
                    | Err e => Err e
                    | Ok rv => Ok (rv, if aug && is_list start then rv else start)
                    end
         end
  end.

(* str() of the values the tie uses *)
Definition vstr (v : value) : res str :=
  match v with
  | VInt z => Ok (show_Z z)
  | VStr s => Ok s
  | VNone => Ok [78; 111; 110; 101]%N
  | VUndef => Ok []
  | _ => Err EModel
  end.

(* sync_do_join with autoescape off: str(d).join(map(str, value)) *)
Definition f_join (d : value) (a : attr) (xs : list value) : res value :=
  match vstr d with
  | Err e => Err e
  | Ok ds =>
      match mapM (fun x => match (match a with ANone => Ok x | _ => attrgetter a (fun v => v) None x end) with
                           | Ok v => vstr v
                           | Err e => Err e
                           end) xs with
      | Err e => Err e
      | Ok ss => Ok (VStr (join ds ss))
      end
  end.

Definition opt_undef (o : option value) : value := match o with Some v => v | None => VUndef end.

(* filters reachable through map("name") in the model *)
Inductive mfilter := MFLower | MFUpper | MFLength | MFAbs.
Definition apply_mfilter (f : mfilter) (v : value) : res value :=
  match f with
  | MFLower => match vstr v with Ok s => Ok (VStr (lower s)) | Err e => Err e end
  | MFUpper => match vstr v with Ok s => Ok (VStr (upper s)) | Err e => Err e end
  | MFLength => match v with
                | VStr s => Ok (VInt (Z.of_N (length_N s)))
                | VList l => Ok (VInt (Z.of_N (length_N l)))
                | VDict ks _ => Ok (VInt (Z.of_N (length_N ks)))
                | VUndef => Ok (VInt 0)
                | _ => Err TypeError
                end
  | MFAbs => match v with VInt z => Ok (VInt (Z.abs z)) | VUndef => Err UndefinedError | _ => Err TypeError end
  end.

Inductive mapspec := MapAttr (a : attr) (default : option value) | MapFilter (f : mfilter).
Definition map_fun (m : mapspec) : value -> res value :=
  match m with
  | MapAttr a d => attrgetter a (fun v => v) d
  | MapFilter f => apply_mfilter f
  end.

Fixpoint sequence {X : Type} (l : list (res X)) : res (list X) :=
  match l with
  | [] => Ok []
  | Ok x :: r => match sequence r with Ok xs => Ok (x :: xs) | Err e => Err e end
  | Err e :: _ => Err e
  end.

Definition f_map (m : mapspec) (xs : list value) : res value :=
  match sequence (map_loop (map_fun m) [] xs) with Ok l => Ok (VList l) | Err e => Err e end.

(* tests reachable through select / reject in the model *)
Inductive jtest := TTruth | TOdd | TEven | TNoneT | TDefined | TString | TNumber
                 | TEq (v : value) | TLt (z : Z) | TGt (z : Z).
Definition truthy (v : value) : bool :=
  match v with
  | VInt z => negb (z =? 0)%Z
  | VStr s => match s with [] => false | _ => true end
  | VNone | VUndef => false
  | VList l => match l with [] => false | _ => true end
  | VDict ks _ => match ks with [] => false | _ => true end
  end.
Fixpoint veqb (a b : value) : bool :=
  match a, b with
  | VInt x, VInt y => (x =? y)%Z
  | VStr x, VStr y => str_eqb x y
  | VNone, VNone => true
  | VUndef, VUndef => true
  | VList x, VList y =>
      (fix go (x y : list value) : bool :=
         match x, y with
         | [], [] => true
         | p :: x', q :: y' => veqb p q && go x' y'
         | _, _ => false
         end) x y
  | _, _ => false               (* dict equality is not used by the tie *)
  end.
Definition apply_test (t : jtest) (v : value) : res bool :=
  match t with
  | TTruth => Ok (truthy v)
  | TOdd => match v with VInt z => Ok (Z.odd z) | VUndef => Err UndefinedError | _ => Err TypeError end
  | TEven => match v with VInt z => Ok (Z.even z) | VUndef => Err UndefinedError | _ => Err TypeError end
  | TNoneT => Ok (match v with VNone => true | _ => false end)
  | TDefined => Ok (negb (is_undef v))
  | TString => Ok (match v with VStr _ => true | _ => false end)
  | TNumber => Ok (match v with VInt _ => true | _ => false end)
  | TEq w => Ok (veqb v w)
  | TLt z => match v with VInt x => Ok (x <? z)%Z | VUndef => Err UndefinedError | _ => Err TypeError end
  | TGt z => match v with VInt x => Ok (x >? z)%Z | VUndef => Err UndefinedError | _ => Err TypeError end
  end.

(* select_or_reject: decisions are computed item by item; an exception aborts the whole
   iteration.  [neg] = reject; [a] = Some attribute for selectattr / rejectattr. *)
Definition decide (t : jtest) (a : option attr) (x : value) : res bool :=
  match (match a with Some at_ => attrgetter at_ (fun v => v) None x | None => Ok x end) with
  | Err e => Err e
  | Ok v => apply_test t v
  end.
Definition f_select (neg : bool) (t : jtest) (a : option attr) (xs : list value) : res value :=
  match mapM (fun x => match decide t a x with Ok b => Ok (b, x) | Err e => Err e end) xs with
  | Err e => Err e
  | Ok bxs => Ok (VList (map snd (select_loop (if neg then negb else fun b => b) fst [] bxs)))
  end.

Definition f_first (v : value) : res value :=
  match elems v with Ok l => Ok (opt_undef (first_of l)) | Err e => Err e end.
Definition f_last (v : value) : res value :=
  match elems v with Ok l => Ok (opt_undef (last_of l)) | Err e => Err e end.
Definition f_reverse (v : value) : res value :=
  match v with
  | VStr s => Ok (VStr (reverse_loop [] s))
  | VList l => Ok (VList (reverse_loop [] l))
  | _ => Err EModel
  end.
Definition f_list (v : value) : res value :=
  match elems v with Ok l => Ok (VList (auto_to_list l)) | Err e => Err e end.
Definition f_length (v : value) : res value :=
  match v with
  | VStr s => Ok (VInt (Z.of_N (length_N s)))
  | VList l => Ok (VInt (Z.of_N (length_N l)))
  | VDict ks _ => Ok (VInt (Z.of_N (length_N ks)))
  | _ => Err EModel
  end.

(* ------------------------------------------------------------------ entry points *)
Inductive call :=
| CSlice (n : Z) (fill : option value)
| CBatch (n : Z) (fill : option value)
| CUnique (cs : bool) (a : attr)
| CSort (reverse cs : bool) (a : attr)
| CDictsort (cs : bool) (by_ : N) (reverse : bool)
| CGroupby (a : attr) (default : option value) (cs : bool)
| CMin (cs : bool) (a : attr) | CMax (cs : bool) (a : attr)
| CSum (a : attr) (start : value)
| CJoin (d : value) (a : attr)
| CMap (m : mapspec)
| CSelect (neg : bool) (t : jtest) (a : option attr)
| CFirst | CLast | CReverse | CList | CLength.

Definition with_elems (v : value) (k : list value -> res value) : res value :=
  match elems v with Ok l => k l | Err e => Err e end.

(* the sync implementations *)
Definition run_sync (c : call) (v : value) : res value :=
  match c with
  | CSlice n f => with_elems v (f_slice n f)
  | CBatch n f => with_elems v (f_batch n f)
  | CUnique cs a => with_elems v (f_unique cs a)
  | CSort r cs a => with_elems v (f_sort r cs a)
  | CDictsort cs b r => f_dictsort cs b r v
  | CGroupby a d cs => with_elems v (f_groupby a d cs)
  | CMin cs a => with_elems v (f_minmax false cs a)
  | CMax cs a => with_elems v (f_minmax true cs a)
  | CSum a s => with_elems v (f_sum a s)
  | CJoin d a => with_elems v (f_join d a)
  | CMap m => with_elems v (f_map m)
  | CSelect neg t a => with_elems v (f_select neg t a)
  | CFirst => f_first v
  | CLast => f_last v
  | CReverse => f_reverse v
  | CList => f_list v
  | CLength => f_length v
  end.

(* the async variants (@async_variant): most are `sync_f(await auto_to_list(value))`;
   groupby, sum, first, map and select/reject have their own bodies.  Filters without an
   async variant (batch sort dictsort min max last reverse length) are the sync function. *)
Definition run_async (aug : bool) (c : call) (v : value) : res (value * option value) :=
  let plain (r : res value) := match r with Ok x => Ok (x, None) | Err e => Err e end in
  match c with
  | CSlice n f => plain (with_elems v (fun l => f_slice n f (auto_to_list l)))
  | CUnique cs a => plain (with_elems v (fun l => f_unique cs a (auto_to_list l)))
  | CJoin d a => plain (with_elems v (fun l => f_join d a (auto_to_list l)))
  | CGroupby a d cs => plain (with_elems v (fun l => f_groupby a d cs (auto_to_list l)))
  | CSum a s =>
      match elems v with
      | Err e => Err e
      | Ok l => match f_sum_async aug a s l with
                | Ok (rv, s') => Ok (rv, Some s')
                | Err e => Err e
                end
      end
  | _ => plain (run_sync c v)
  end.
