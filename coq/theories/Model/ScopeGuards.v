(* Decidable guards of the C03 theorems (probed by the harness on every run). *)
From Coq Require Import List NArith ZArith Bool.
Import ListNotations.
From JV Require Import Model.ScopeAst Model.ScopeIdTrack.

Definition reserved : list name := [n_loop; n_caller; n_namespace; n_kwargs; n_varargs; n_self].

(* every name occurring in the program *)
Definition names_of (p : list stmt) : list name := map fst (occs_l p).

(* reserved names occur only as loads; self / kwargs / varargs never occur *)
Definition occ_ok (oc : name * nctx) : bool :=
  (match snd oc with CLoad => true | _ => negb (nmem (fst oc) reserved) end)
  && negb (nmem (fst oc) [n_self; n_kwargs; n_varargs]).
Definition wf_names (p : list stmt) : bool := forallb occ_ok (occs_l p).

(* NoAlias: CPython's identifier normalisation is injective on the names of the program *)
Definition noalias (pynorm : name -> name) (p : list stmt) : bool :=
  let ns := n_loop :: names_of p in      (* the loop variable is declared by the compiler *)
  forallb (fun x => forallb (fun y => implb (N.eqb (pynorm x) (pynorm y)) (N.eqb x y)) ns) ns.

(* NoShadowedContextRead (static over-approximation): no name that some frame initialises
   with the `undefined` load is supplied by the render arguments *)
Definition undef_names (s : symbols) : list name :=
  flat_map (fun il => match snd il with LUndef => [snd (fst il)] | _ => [] end) (s_loads s).
Definition guard_rbw (p : list stmt) (d : list (name * value)) : bool :=
  forallb (fun ch => match ch with
                     | [] => true
                     | s :: _ => forallb (fun x => negb (dhas N.eqb x d) && negb (dhas N.eqb x [(n_namespace, VNsCtor)])) (undef_names s)
                     end) (frames_of (fun l => l) p).

(* the core fragment of the dynamic theorem *)
Fixpoint core_stmt (s : stmt) : bool :=
  let fix go (l : list stmt) : bool := match l with [] => true | x :: r => core_stmt x && go r end in
  match s with
  | SOut _ | SSet _ _ => true
  | SIf _ b ei el => go b && go ei && go el
  | SFor _ _ None b el => go b && go el
  | SFor _ _ (Some _) _ _ => false       (* loop filter: not yet in the proved fragment *)
  | SSetBlock _ b | SWith [] b | SFilter _ b => go b
  | SWith (_ :: _) _ => false            (* with-targets: not yet in the proved fragment *)
  | SSetAttr _ _ _ | SNsNew _ _ => true
  | SMacro _ _ _ | SCallOut _ _ | SCallBlock _ _ _ _ => false
  end.
Fixpoint core_prog (p : list stmt) : bool :=
  match p with [] => true | s :: r => core_stmt s && core_prog r end.

(* the extended fragment: the core fragment plus loop filters and with-targets *)
Fixpoint core2_stmt (s : stmt) : bool :=
  let fix go (l : list stmt) : bool := match l with [] => true | x :: r => core2_stmt x && go r end in
  match s with
  | SOut _ | SSet _ _ => true
  | SIf _ b ei el => go b && go ei && go el
  | SFor _ _ _ b el => go b && go el
  | SSetBlock _ b | SWith _ b | SFilter _ b => go b
  | SSetAttr _ _ _ | SNsNew _ _ => true
  | SMacro _ _ _ | SCallOut _ _ | SCallBlock _ _ _ _ => false
  end.
Fixpoint core2_prog (p : list stmt) : bool :=
  match p with [] => true | s :: r => core2_stmt s && core2_prog r end.

(* the fragment: the loop-filter / with-target fragment plus macro definitions at top level
   ([tl] = we are in the root frame, possibly inside if-branches); macros are never called *)
Fixpoint core3_stmt (tl : bool) (s : stmt) : bool :=
  let fix go (tl : bool) (l : list stmt) : bool := match l with [] => true | x :: r => core3_stmt tl x && go tl r end in
  match s with
  | SOut _ | SSet _ _ | SSetAttr _ _ _ | SNsNew _ _ => true
  | SIf _ b ei el => go tl b && go tl ei && go tl el
  | SFor _ _ _ b el => go false b && go false el
  | SSetBlock _ b | SWith _ b | SFilter _ b => go false b
  | SMacro _ _ _ => tl
  | SCallOut _ _ | SCallBlock _ _ _ _ => false
  end.
Fixpoint core3_prog (tl : bool) (p : list stmt) : bool :=
  match p with [] => true | s :: r => core3_stmt tl s && core3_prog tl r end.
