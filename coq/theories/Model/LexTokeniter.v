(* Model of jinja2.lexer.Lexer.tokeniter (state machine over root / comment / block / variable /
   raw / line statement / line comment), of the source normalisation in front of it, and of
   the data part of Lexer.wrap.  Besides (lineno, type, value) every token carries its start
   offset in the normalised source, and the whitespace the lexer drops between a text and a
   tag is kept as an explicit gap item (model-only ghost data, projected away in the tie).
   Executable definitions only. *)
From Coq Require Import List NArith Bool Arith.
Import ListNotations.
From JV Require Import Model.LexBase.
Open Scope N_scope.

(* ------------------------------------------------------------------ source normalisation *)
(* "\n".join(newline_re.split(source)[::2]) : every \r\n, \r, \n becomes \n *)
Fixpoint nl_replace (s : str) : str :=
  match s with
  | [] => []
  | c :: r =>
      if c =? 13 then
        match r with
        | d :: r' => if d =? 10 then 10 :: nl_replace r' else 10 :: nl_replace r
        | [] => [10]
        end
      else c :: nl_replace r
  end.

(* drop the last element when it is a line break:  `if lines[-1] == "": del lines[-1]` *)
Fixpoint drop_last_nl (s : str) : str :=
  match s with
  | [] => []
  | [c] => if c =? 10 then [] else [c]
  | c :: r => c :: drop_last_nl r
  end.

Definition normalize (keep : bool) (s : str) : str :=
  let t := nl_replace s in if keep then t else drop_last_nl t.

(* Lexer._normalize_newlines on an already normalised value: \n -> newline_sequence *)
Fixpoint nl_subst (seq : str) (s : str) : str :=
  match s with
  | [] => []
  | c :: r => if c =? 10 then seq ++ nl_subst seq r else c :: nl_subst seq r
  end.

(* ------------------------------------------------------------------ tokens *)
Inductive tty :=
  | TData | TCommentBegin | TComment | TCommentEnd | TBlockBegin | TBlockEnd
  | TVarBegin | TVarEnd | TRawBegin | TRawEnd | TLsBegin | TLsEnd
  | TLcBegin | TLc | TLcEnd | TWs | TFloat | TInt | TName | TString | TOp.

Inductive gapwhy := GMinus | GLstrip.

Inductive item :=
  | ITok (ln : N) (ty : tty) (v : str) (start : N)
  | IGap (g : str) (why : gapwhy).

Definition item_text (i : item) : str := match i with ITok _ _ v _ => v | IGap g _ => g end.
Fixpoint texts (l : list item) : str :=
  match l with [] => [] | i :: r => item_text i ++ texts r end.

Inductive lstate := SRoot | SComment | SBlock | SVar | SRaw | SLs | SLc.

Inductive lexmsg :=
  | MissingEndComment | MissingEndRaw
  | UnexpectedChar (c : N) (pos : N)
  | UnexpectedClose (c : N)
  | UnexpectedCloseExpected (c : N) (expected : N).

(* RuntimeError branches of tokeniter *)
Inductive lexinternal := IntNoGroup | IntEmptyMatch.

Inductive lexend :=
  | EOk
  | ESyntax (line : N) (m : lexmsg)
  | EInternal (i : lexinternal)
  | EFuel.

Definition state_of (k : tagk) : lstate :=
  match k with KRaw => SRaw | KComment => SComment | KBlock => SBlock | KVar => SVar
             | KLs => SLs | KLc => SLc end.
Definition begin_of (k : tagk) : tty :=
  match k with KRaw => TRawBegin | KComment => TCommentBegin | KBlock => TBlockBegin
             | KVar => TVarBegin | KLs => TLsBegin | KLc => TLcBegin end.

Definition is_var (k : tagk) : bool := match k with KVar => true | _ => false end.

(* the OptionalLStrip branch: how many characters of [text] are kept, why the rest is
   dropped, and the value of newlines_stripped *)
Definition strip_text (c : cfg) (sg : sign) (variable : bool) (line_starting : bool) (text : str)
  : nat * gapwhy * N :=
  match sg with
  | SgMinus => let k := rstrip_n text in (k, GMinus, count_nl (skipn k text))
  | SgPlus => (length text, GLstrip, 0)
  | SgNone =>
      if c_lstrip c && negb variable then
        let l := after_last_nl text in
        if (0 <? l)%nat || line_starting then
          let tail := skipn l text in
          if nonempty tail && forallb is_space tail then (l, GLstrip, 0)
          else (length text, GLstrip, 0)
        else (length text, GLstrip, 0)
      else (length text, GLstrip, 0)
  end.

Definition tok_nonempty (ln : N) (ty : tty) (v : str) (start : N) : list item :=
  if nonempty v then [ITok ln ty v start] else [].
Definition gap_nonempty (g : str) (w : gapwhy) : list item :=
  if nonempty g then [IGap g w] else [].

(* tokens of an OptionalLStrip rule: data (text), then the tag token *)
Definition emit_text_tag (c : cfg) (sg : sign) (variable ls : bool) (line pos : N)
           (text tag : str) (ty : tty) : list item * N :=
  let '(k, why, nls) := strip_text c sg variable ls text in
  let kept := firstn k text in
  let gap := skipn k text in
  let line1 := line + count_nl kept + nls in
  (tok_nonempty line TData kept pos ++ gap_nonempty gap why
     ++ [ITok line1 ty tag (pos + N.of_nat (length text))],
   line1 + count_nl tag).

Inductive stepres :=
  | SEnd (e : lexend)
  | SGo (its : list item) (n : nat) (st' : lstate) (bal' : list N) (line' : N).

Definition closer_of (c : N) : option N :=
  if c =? 123 then Some 125 else if c =? 40 then Some 41 else if c =? 91 then Some 93 else None.
Definition is_closer (c : N) : bool := (c =? 125) || (c =? 41) || (c =? 93).

(* the tag_rules, tried in order at one position: (type, length) *)
Definition scan_tagrule (c : cfg) (prev : option N) (s : str) : option (tty * nat) :=
  match scan_ws s with Some n => Some (TWs, n) | None =>
  match scan_float (c_digit c) prev s with Some n => Some (TFloat, n) | None =>
  match scan_int (c_digit c) s with Some n => Some (TInt, n) | None =>
  match scan_name (c_word c) s with Some n => Some (TName, n) | None =>
  match scan_string s with Some n => Some (TString, n) | None =>
  match scan_op s with Some n => Some (TOp, n) | None => None
  end end end end end end.

(* update of the brace / parenthesis balance by an operator token *)
Inductive balres := BalOk (b : list N) | BalErr (m : lexmsg).
Definition bal_update (ty : tty) (v : str) (bal : list N) : balres :=
  match ty, v with
  | TOp, [x] =>
      match closer_of x with
      | Some cl => BalOk (cl :: bal)
      | None =>
          if is_closer x then
            match bal with
            | [] => BalErr (UnexpectedClose x)
            | e :: bal' => if e =? x then BalOk bal' else BalErr (UnexpectedCloseExpected x e)
            end
          else BalOk bal
      end
  | _, _ => BalOk bal
  end.

(* inside a block / variable / line statement *)
Definition step_tag (c : cfg) (endrule : option nat) (endty : tty)
           (bal : list N) (line pos : N) (prev : option N) (st : lstate) (s : str) : stepres :=
  match (match bal with [] => endrule | _ => None end) with
  | Some n =>
      let v := firstn n s in
      SGo [ITok line endty v pos] n SRoot bal (line + count_nl v)
  | None =>
      match scan_tagrule c prev s with
      | None => match s with
                | [] => SEnd EOk
                | x :: _ => SEnd (ESyntax line (UnexpectedChar x pos))
                end
      | Some (ty, n) =>
          let v := firstn n s in
          match bal_update ty v bal with
          | BalErr m => SEnd (ESyntax line m)
          | BalOk bal' =>
              match n with
              | O => SEnd (EInternal IntEmptyMatch)
              | S _ => SGo (match ty with TWs => tok_nonempty line ty v pos | _ => [ITok line ty v pos] end)
                           n st bal' (line + count_nl v)
              end
          end
      end
  end.

Definition step (c : cfg) (rules : list (tagk * str)) (st : lstate) (bal : list N)
           (line pos : N) (prev : option N) (ls : bool) (s : str) : stepres :=
  match st with
  | SRoot =>
      match find_tag c rules prev s with
      | Some (p, k, n, sg) =>
          let text := firstn p s in
          let tag := firstn n (skipn p s) in
          let '(its, line') := emit_text_tag c sg (is_var k) ls line pos text tag (begin_of k) in
          SGo its (p + n) (state_of k) bal line'
      | None =>
          match s with
          | [] => SEnd EOk
          | _ :: _ => SGo [ITok line TData s pos] (length s) SRoot bal (line + count_nl s)
          end
      end
  | SComment =>
      match find_end true (c_trim c) (c_ce c) s with
      | Some (p, n) =>
          let text := firstn p s in
          let tag := firstn n (skipn p s) in
          let line1 := line + count_nl text in
          SGo (tok_nonempty line TComment text pos
                 ++ [ITok line1 TCommentEnd tag (pos + N.of_nat (length text))])
              (p + n) SRoot bal (line1 + count_nl tag)
      | None =>
          match s with
          | [] => SEnd EOk
          | _ :: _ => SEnd (ESyntax line MissingEndComment)
          end
      end
  | SRaw =>
      match find_endraw c s with
      | Some (p, n, sg) =>
          let text := firstn p s in
          let tag := firstn n (skipn p s) in
          let '(its, line') := emit_text_tag c sg false ls line pos text tag TRawEnd in
          SGo its (p + n) SRoot bal line'
      | None =>
          match s with
          | [] => SEnd EOk
          | _ :: _ => SEnd (ESyntax line MissingEndRaw)
          end
      end
  | SBlock => step_tag c (end_alts true (c_trim c) (c_be c) s) TBlockEnd bal line pos prev st s
  | SVar => step_tag c (end_alts false false (c_ve c) s) TVarEnd bal line pos prev st s
  | SLs => step_tag c (ls_end s) TLsEnd bal line pos prev st s
  | SLc =>
      let p := span not_nl s in
      let text := firstn p s in
      SGo (tok_nonempty line TLc text pos ++ [ITok (line + count_nl text) TLcEnd [] (pos + N.of_nat (length text))])
          p SRoot bal (line + count_nl text)
  end.

(* the `while True` loop.  m = the matched text:  pos = m.end() = pos + len(m),
   line_starting = m.group()[-1:] == "\n" *)
Fixpoint run (c : cfg) (rules : list (tagk * str)) (fuel : nat) (st : lstate) (bal : list N)
         (line pos : N) (prev : option N) (ls : bool) (s : str) : list item * lexend :=
  match fuel with
  | O => ([], EFuel)
  | S f =>
      match step c rules st bal line pos prev ls s with
      | SEnd e => ([], e)
      | SGo its n st' bal' line' =>
          let m := firstn n s in
          let prev' := match last_opt m with Some x => Some x | None => prev end in
          let ls' := match last_opt m with Some x => x =? 10 | None => false end in
          let '(rest, e) := run c rules f st' bal' line' (pos + N.of_nat (length m)) prev' ls' (skipn n s) in
          (its ++ rest, e)
      end
  end.

Definition fuel_for (s : str) : nat := (2 * length s + 3)%nat.

Inductive lexres :=
  | LexOk (its : list item)
  | LexSyntaxErr (yielded : list item) (line : N) (m : lexmsg)
  | LexInternal (yielded : list item) (i : lexinternal)
  | LexOutOfFuel.

(* tokeniter on an already normalised source *)
Definition tokeniter_norm (c : cfg) (src : str) : lexres :=
  match run c (compile_rules c) (fuel_for src) SRoot [] 1 0 None true src with
  | (its, EOk) => LexOk its
  | (its, ESyntax l m) => LexSyntaxErr its l m
  | (its, EInternal i) => LexInternal its i
  | (_, EFuel) => LexOutOfFuel
  end.

(* Lexer.tokeniter(source) *)
Definition tokeniter (c : cfg) (source : str) : lexres :=
  tokeniter_norm c (normalize (c_keep c) source).

(* the data the template outputs for its TOKEN_DATA tokens (Lexer.wrap normalises them) *)
Fixpoint data_of (seq : str) (l : list item) : str :=
  match l with
  | [] => []
  | ITok _ TData v _ :: r => nl_subst seq v ++ data_of seq r
  | _ :: r => data_of seq r
  end.

Definition render_data (c : cfg) (source : str) : option str :=
  match tokeniter c source with
  | LexOk its => Some (data_of (c_nlseq c) its)
  | _ => None
  end.

(* projection used by the tie: (lineno, type, value) without ghost data *)
Fixpoint raw_tokens (l : list item) : list (N * tty * str) :=
  match l with
  | [] => []
  | ITok ln ty v _ :: r => (ln, ty, v) :: raw_tokens r
  | IGap _ _ :: r => raw_tokens r
  end.
