(* A small template language T and an evaluator that mirrors what jinja's GENERATED CODE does
   on the output path (C15 / C16).  Executable definitions only.

   What is mirrored (compiler.py / runtime.py):
   - visit_Output: every child is written as  escape(x) / str(x) /
     (escape if context.eval_ctx.autoescape else str)(x)  depending on the COMPILE-TIME
     eval context of the enclosing frame (static on / static off / volatile); constants are
     escaped at compile time with the same escape function; template data is never escaped.
   - visit_Concat: markup_join / str_join / runtime selection when volatile.
   - macro and call-block bodies return concat(buf) (return_buffer_contents is called with
     force_unescaped=True); Macro._invoke wraps the result in Markup by the CALL-TIME eval
     context (context.call passes context.eval_ctx to the pass_eval_context Macro.__call__).
   - visit_AssignBlock: (Markup if context.eval_ctx.autoescape else identity)(concat(buf)).
   - visit_FilterBlock: Markup(concat(buf)) by the compile-time mode, filter applied, result
     sent through the same escape/str selection as an output child.
   - visit_CallBlock: the macro's return value (Markup by the call-time flag) goes through the same
     escape/str selection as an output child (fix 34828d4).
   - ScopedEvalContextModifier ({% autoescape e %}): a constant argument changes the
     compile-time flag, a non-constant one makes the frame volatile; the runtime flag
     context.eval_ctx.autoescape is assigned, both are restored at the end of the block.

   Scoping is NOT what this model is about (C03 owns it): macro bodies and caller bodies are
   evaluated in the dynamic environment of the call.  On programs that follow the naming
   discipline of the generator (every set / loop / parameter / macro name is fresh and only
   referenced after its definition, inside its scope) this coincides with jinja's lexical
   scoping; the tie measures exactly that.  The compile-time mode IS captured lexically
   (field of the closure), as in the generated code. *)
From Coq Require Import List NArith Bool.
From JV Require Import Model.EscMarkup.
Import ListNotations.
Open Scope N_scope.

Inductive filt :=
| FString      (* soft_str *)
| FLower | FUpper
| FSafe        (* Markup(value) *)
| FEscape      (* markupsafe.escape *)
| FForceescape (* escape(str(value)) *)
| FDefault     (* default(d, true) *)
| FReplace.    (* do_replace(eval_ctx, s, old, new) *)

Inductive expr :=
| EVar (x : N)
| ELit (s : str)
| ECat (a b : expr)                       (* (a ~ b) *)
| EFilt (f : filt) (a : expr) (args : list expr)
| ECond (c a b : expr)                    (* (a if c else b) *)
| ECall (m : N) (args : list expr)        (* m(args) *)
| ECaller.                                (* caller() *)

Inductive aexp := AConst (b : bool) | AFlag.     (* argument of {% autoescape %} *)

Inductive stmt :=
| SText (s : str)
| SOut (e : expr)
| SIf (c : expr) (t f : list stmt)
| SFor (x : N) (l : N) (body : list stmt)                 (* for x in <data list l> *)
| SSet (x : N) (e : expr)
| SSetBlock (x : N) (body : list stmt)
| SMacro (m : N) (params : list N) (body : list stmt)
| SCallBlock (m : N) (args : list expr) (body : list stmt)
| SFilterBlock (f : filt) (args : list expr) (body : list stmt)
| SAutoescape (a : aexp) (body : list stmt).

(* compile-time eval context of a frame, as a lexical descriptor: CTop = the environment's
   setting for this template (static), CConst b = inside {% autoescape <const b> %},
   CVol = volatile (a non-constant {% autoescape %} is open around this code) *)
Inductive cexp := CTop | CConst (b : bool) | CVol.

Inductive smode := Static (b : bool) | Volatile.
Definition resolve (b0 : bool) (ce : cexp) : smode :=
  match ce with CTop => Static b0 | CConst b => Static b | CVol => Volatile end.
(* the escaping decision of code compiled under [ce] when run with runtime flag [rt] *)
Definition on_now (b0 : bool) (ce : cexp) (rt : bool) : bool :=
  match resolve b0 ce with Static b => b | Volatile => rt end.

(* caller closure: body of the call block and its compile-time mode.  The body of a call block
   is compiled as a macro of its own: the name `caller` inside it does not refer to the caller
   of the enclosing macro (it is undefined there, calling it raises UndefinedError). *)
Inductive callerclo := CC (body : list stmt) (ce : cexp).

Definition env := list (N * tstr).
Definition menv := list (N * (list N * list stmt * cexp)).

Fixpoint lookup (r : env) (x : N) : tstr :=
  match r with [] => Plain [] | (y, v) :: r' => if x =? y then v else lookup r' x end.
Fixpoint lookup_mac (m : menv) (x : N) : option (list N * list stmt * cexp) :=
  match m with [] => None | (y, c) :: m' => if x =? y then Some c else lookup_mac m' x end.
Fixpoint lookup_list (dl : list (N * list str)) (x : N) : list str :=
  match dl with [] => [] | (y, v) :: r => if x =? y then v else lookup_list r x end.

(* positional binding; missing arguments are undefined (render as ""), too many -> TypeError *)
Fixpoint bind (ps : list N) (vs : list tstr) : option env :=
  match ps, vs with
  | [], [] => Some []
  | [], _ :: _ => None
  | p :: ps', [] => match bind ps' [] with Some r => Some ((p, Plain []) :: r) | None => None end
  | p :: ps', v :: vs' => match bind ps' vs' with Some r => Some ((p, v) :: r) | None => None end
  end.

(* filters of T; [rt] is eval_ctx.autoescape as seen by @pass_eval_context filters *)
Definition apply_filter (rt : bool) (f : filt) (v : tstr) (args : list tstr) : option tstr :=
  match f, args with
  | FString, [] => Some (soft_str v)
  | FLower, [] => Some (mk_map lower (soft_str v))
  | FUpper, [] => Some (mk_map upper (soft_str v))
  | FSafe, [] => Some (Mk (raw v))
  | FEscape, [] => Some (esc v)
  | FForceescape, [] => Some (Mk (escape (raw v)))
  | FDefault, [d] => Some (if truthy v then v else d)
  | FReplace, [old; new] =>
      if rt then
        let s := if is_mk old || (is_mk new && negb (is_mk v)) then esc v else soft_str v in
        Some (mk_replace s (soft_str old) (soft_str new))
      else Some (Plain (str_replace (raw v) (raw old) (raw new)))
  | _, _ => None
  end.

(* an output child: escape(x) or str(x) *)
Definition out_piece (on : bool) (v : tstr) : str := if on then esc_str v else raw v.
(* Markup(concat(buf)) or concat(buf) *)
Definition wrap (on : bool) (o : str) : tstr := if on then Mk o else Plain o.

Definition ce_enter (ce : cexp) (a : aexp) : cexp :=
  match a with
  | AFlag => CVol
  | AConst b => match ce with CVol => CVol | _ => CConst b end
  end.

Section Eval.
  Variable b0 : bool.                       (* environment.autoescape for this template *)
  Variable flag : bool.                     (* value of the expression of {% autoescape flag %} *)
  Variable dl : list (N * list str).        (* data lists (for loops) *)

  Definition rt_enter (a : aexp) : bool := match a with AConst b => b | AFlag => flag end.

  Definition ores := option (str * env * menv).

  Fixpoint eval_e (n : nat) (ce : cexp) (rt : bool) (mu : menv) (k : option callerclo)
           (r : env) (e : expr) {struct n} : option tstr :=
    match n with O => None | S n' =>
      match e with
      | EVar x => Some (lookup r x)
      | ELit s => Some (Plain s)
      | ECat a b =>
          match eval_e n' ce rt mu k r a with None => None | Some va =>
          match eval_e n' ce rt mu k r b with None => None | Some vb =>
            Some (if on_now b0 ce rt then markup_join [va; vb] else str_join [va; vb])
          end end
      | EFilt f a args =>
          match eval_e n' ce rt mu k r a with None => None | Some va =>
          match eval_es n' ce rt mu k r args with None => None | Some vs =>
            apply_filter rt f va vs
          end end
      | ECond c a b =>
          match eval_e n' ce rt mu k r c with None => None | Some vc =>
            if truthy vc then eval_e n' ce rt mu k r a else eval_e n' ce rt mu k r b
          end
      | ECall m args =>
          match eval_es n' ce rt mu k r args with None => None | Some vs =>
          match lookup_mac mu m with None => None | Some (ps, body, ce') =>
          match bind ps vs with None => None | Some pr =>
          match eval_ss n' ce' rt mu None (pr ++ r) body with None => None | Some (o, _, _) =>
            Some (wrap rt o)
          end end end end
      | ECaller =>
          match k with None => None | Some (CC body ce') =>
          match eval_ss n' ce' rt mu None r body with None => None | Some (o, _, _) =>
            Some (wrap rt o)
          end end
      end
    end
  with eval_es (n : nat) (ce : cexp) (rt : bool) (mu : menv) (k : option callerclo)
           (r : env) (es : list expr) {struct n} : option (list tstr) :=
    match n with O => None | S n' =>
      match es with
      | [] => Some []
      | e :: es' =>
          match eval_e n' ce rt mu k r e with None => None | Some v =>
          match eval_es n' ce rt mu k r es' with None => None | Some vs => Some (v :: vs)
          end end
      end
    end
  with eval_ss (n : nat) (ce : cexp) (rt : bool) (mu : menv) (k : option callerclo)
           (r : env) (ss : list stmt) {struct n} : ores :=
    match n with O => None | S n' =>
      match ss with
      | [] => Some ([], r, mu)
      | s :: ss' =>
          match eval_s n' ce rt mu k r s with None => None | Some (o1, r1, mu1) =>
          match eval_ss n' ce rt mu1 k r1 ss' with None => None | Some (o2, r2, mu2) =>
            Some (o1 ++ o2, r2, mu2)
          end end
      end
    end
  with eval_s (n : nat) (ce : cexp) (rt : bool) (mu : menv) (k : option callerclo)
           (r : env) (s : stmt) {struct n} : ores :=
    match n with O => None | S n' =>
      match s with
      | SText t => Some (t, r, mu)
      | SOut e =>
          match eval_e n' ce rt mu k r e with None => None | Some v =>
            Some (out_piece (on_now b0 ce rt) v, r, mu)
          end
      | SIf c t f =>
          match eval_e n' ce rt mu k r c with None => None | Some vc =>
            if truthy vc then eval_ss n' ce rt mu k r t else eval_ss n' ce rt mu k r f
          end
      | SFor x l body =>
          match eval_for n' ce rt mu k r x (lookup_list dl l) body with None => None | Some o =>
            Some (o, r, mu)
          end
      | SSet x e =>
          match eval_e n' ce rt mu k r e with None => None | Some v => Some ([], (x, v) :: r, mu) end
      | SSetBlock x body =>
          match eval_ss n' ce rt mu k r body with None => None | Some (o, _, _) =>
            Some ([], (x, wrap rt o) :: r, mu)
          end
      | SMacro m ps body => Some ([], r, (m, (ps, body, ce)) :: mu)
      | SCallBlock m args body =>
          match eval_es n' ce rt mu k r args with None => None | Some vs =>
          match lookup_mac mu m with None => None | Some (ps, mbody, ce') =>
          match bind ps vs with None => None | Some pr =>
          match eval_ss n' ce' rt mu (Some (CC body ce)) (pr ++ r) mbody with None => None
          | Some (o, _, _) => Some (out_piece (on_now b0 ce rt) (wrap rt o), r, mu)   (* escape / str of the macro's result *)
          end end end end
      | SFilterBlock f args body =>
          match eval_ss n' ce rt mu k r body with None => None | Some (o, _, _) =>
          match eval_es n' ce rt mu k r args with None => None | Some vs =>
          match apply_filter rt f (wrap (on_now b0 ce rt) o) vs with None => None | Some v =>
            Some (out_piece (on_now b0 ce rt) v, r, mu)
          end end end
      | SAutoescape a body =>
          match eval_ss n' (ce_enter ce a) (rt_enter a) mu k r body with None => None
          | Some (o, _, _) => Some (o, r, mu)
          end
      end
    end
  with eval_for (n : nat) (ce : cexp) (rt : bool) (mu : menv) (k : option callerclo)
           (r : env) (x : N) (items : list str) (body : list stmt) {struct n} : option str :=
    match n with O => None | S n' =>
      match items with
      | [] => Some []
      | it :: items' =>
          match eval_ss n' ce rt mu k ((x, Plain it) :: r) body with None => None | Some (o1, _, _) =>
          match eval_for n' ce rt mu k r x items' body with None => None | Some o2 => Some (o1 ++ o2)
          end end
      end
    end.

  Definition init_env (d : list (N * str)) : env := map (fun p => (fst p, Plain (snd p))) d.

  (* Template.render: the root render function runs with the environment's flag *)
  Definition render (n : nat) (t : list stmt) (d : list (N * str)) : option str :=
    match eval_ss n CTop b0 [] None (init_env d) t with
    | Some (o, _, _) => Some o
    | None => None
    end.
End Eval.

(* ---------------------------------------------------------------- syntactic predicates *)
Definition neutral_filter (f : filt) : bool :=
  match f with FString | FLower | FDefault => true | _ => false end.

Section Preds.
  Variable pf : filt -> bool.        (* allowed filters *)
  Variable pt : str -> bool.         (* allowed template text *)
  Variable pl : str -> bool.         (* allowed string literals *)
  Variable pa : aexp -> bool.        (* allowed autoescape arguments *)

  Fixpoint ok_e (e : expr) : bool :=
    match e with
    | EVar _ => true
    | ELit s => pl s
    | ECat a b => ok_e a && ok_e b
    | EFilt f a args => pf f && ok_e a && forallb ok_e args
    | ECond c a b => ok_e c && ok_e a && ok_e b
    | ECall _ args => forallb ok_e args
    | ECaller => true
    end.

  Fixpoint ok_s (s : stmt) : bool :=
    match s with
    | SText t => pt t
    | SOut e => ok_e e
    | SIf c t f => ok_e c && forallb ok_s t && forallb ok_s f
    | SFor _ _ body => forallb ok_s body
    | SSet _ e => ok_e e
    | SSetBlock _ body => forallb ok_s body
    | SMacro _ _ body => forallb ok_s body
    | SCallBlock _ args body => forallb ok_e args && forallb ok_s body
    | SFilterBlock f args body => pf f && forallb ok_e args && forallb ok_s body
    | SAutoescape a body => pa a && forallb ok_s body
    end.
  Definition ok_ss (ss : list stmt) : bool := forallb ok_s ss.
End Preds.

(* C16: escaping-neutral filters only, template text without '&', only runtime-decided
   {% autoescape %} blocks (a constant argument fixes the mode for both renders) *)
Definition c16_ok (t : list stmt) : bool :=
  ok_ss neutral_filter amp_free (fun _ => true)
        (fun a => match a with AFlag => true | AConst _ => false end) t.

(* C15: no |safe, template text clean, no {% autoescape false %} *)
Definition c15_ok (t : list stmt) : bool :=
  ok_ss (fun f => match f with FSafe => false | _ => true end) clean (fun _ => true)
        (fun a => match a with AConst false => false | _ => true end) t.

(* region discipline of C15: outside an enabled region only template text and enabled
   {% autoescape %} blocks may occur *)
Definition top_ok (b0 : bool) (t : list stmt) : bool :=
  b0 || forallb (fun s => match s with SText _ => true | SAutoescape _ _ => true | _ => false end) t.

(* ---------------------------------------------------------------- select_autoescape *)
Definition ends_with (s suf : str) : bool := is_prefix (rev suf) (rev s).
(* utils.select_autoescape(enabled_extensions, disabled_extensions, default_for_string,
   default)(template_name); patterns are "." + ext.lstrip(".").lower() *)
Definition select_autoescape (enabled disabled : list str) (default_for_string default : bool)
           (name : option str) : bool :=
  match name with
  | None => default_for_string
  | Some nm =>
      let l := lower nm in
      if existsb (ends_with l) enabled then true
      else if existsb (ends_with l) disabled then false
      else default
  end.
