(* Model of filters._prepare_attribute_parts (C17): how an attribute argument of a filter
   ("a.b.0", 3, None) becomes the list of parts make_attrgetter walks with environment.getitem.
   str.split("."), str.isdigit and int() are parameters (CPython primitives). *)
From Coq Require Import List Bool String ZArith.
Import ListNotations.
From JV Require Import Model.SbxAccess.

Inductive attr_arg := ANone | AStr (s : string) | AInt (z : Z).

Definition prepare_parts (split_dot : string -> list string) (isdigit : string -> bool) (to_int : string -> Z)
           (a : attr_arg) : list key :=
  match a with
  | ANone => []
  | AStr s => map (fun x => if isdigit x then KInt (to_int x) else KStr x) (split_dot s)
  | AInt z => [KInt z]
  end.
