(* C23 — models of the string and number filters of jinja2/filters.py: do_truncate,
   do_indent (plain strings), do_center, do_wordcount, do_filesizeformat (unit selection
   over exact integers), do_wordwrap (composition over splitlines; textwrap.wrap is a
   parameter), do_int / do_float over a conversion-outcome interface whose `except` clauses
   are parameters (regenerated from filters.py).  Executable definitions only. *)
From Coq Require Import List NArith ZArith Bool.
Import ListNotations.

Definition str := list N.

Inductive exn := AssertionError | TypeError | ValueError | OverflowError.
Inductive res (X : Type) := Ok (x : X) | Err (e : exn).
Arguments Ok {X} _. Arguments Err {X} _.

Definition len (s : str) : Z := Z.of_nat (length s).

Fixpoint join (d : str) (xs : list str) : str :=
  match xs with
  | [] => []
  | [x] => x
  | x :: r => x ++ d ++ join d r
  end.

(* ------------------------------------------------------------------ truncate *)
(* s.rsplit(" ", 1)[0] *)
Fixpoint before_last_space (s : str) : option str :=
  match s with
  | [] => None
  | c :: r => match before_last_space r with
              | Some p => Some (c :: p)
              | None => if (c =? 32)%N then Some [] else None
              end
  end.
Definition rsplit_head (s : str) : str := match before_last_space s with Some p => p | None => s end.

(* leeway: None -> env.policies["truncate.leeway"] *)
Definition do_truncate (policy_leeway : Z) (s : str) (length : Z) (killwords : bool) (end_ : str)
           (leeway : option Z) : res str :=
  let lw := match leeway with Some l => l | None => policy_leeway end in
  if (length <? len end_)%Z then Err AssertionError
  else if (lw <? 0)%Z then Err AssertionError
  else if (len s <=? length + lw)%Z then Ok s
  else
    let cut := firstn (Z.to_nat (length - len end_)) s in
    if killwords then Ok (cut ++ end_) else Ok (rsplit_head cut ++ end_).

(* ------------------------------------------------------------------ splitlines *)
Definition is_linebreak (c : N) : bool :=
  ((c =? 10) || (c =? 11) || (c =? 12) || (c =? 13) || (c =? 28) || (c =? 29) || (c =? 30)
   || (c =? 133) || (c =? 8232) || (c =? 8233))%N.

(* str.splitlines(): "\r\n" is one break; no empty last line *)
Fixpoint splitlines_go (cur : str) (s : str) : list str :=
  match s with
  | [] => match cur with [] => [] | _ => [rev cur] end
  | c :: r =>
      if is_linebreak c then
        match r with
        | c2 :: r' => if ((c =? 13) && (c2 =? 10))%N then rev cur :: splitlines_go [] r'
                      else rev cur :: splitlines_go [] r
        | [] => [rev cur]
        end
      else splitlines_go (c :: cur) r
  end.
Definition splitlines (s : str) : list str := splitlines_go [] s.

(* ------------------------------------------------------------------ indent *)
Inductive width := WInt (n : Z) | WStr (s : str).
Definition indention_of (w : width) : str :=
  match w with WInt n => repeat 32%N (Z.to_nat n) | WStr s => s end.
Definition nonempty (s : str) : bool := match s with [] => false | _ => true end.

(* the body of do_indent on plain strings, as the code computes it *)
Definition do_indent (s : str) (w : width) (first blank : bool) : str :=
  let ind := indention_of w in
  let nl := [10%N] in
  let s' := s ++ nl in
  let rv :=
    if blank then join (nl ++ ind) (splitlines s')
    else
      match splitlines s' with
      | [] => []                                   (* unreachable: s' is not empty *)
      | l0 :: lines =>
          match lines with
          | [] => l0
          | _ => l0 ++ nl ++ join nl (map (fun line => if nonempty line then ind ++ line else line) lines)
          end
      end in
  if first then ind ++ rv else rv.

(* ------------------------------------------------------------------ center *)
(* str.center(width): left = marg/2 + (marg & width & 1) *)
Definition do_center (s : str) (w : Z) : str :=
  let marg := (w - len s)%Z in
  if (marg <=? 0)%Z then s
  else
    let left := (marg / 2 + (if Z.odd marg && Z.odd w then 1 else 0))%Z in
    repeat 32%N (Z.to_nat left) ++ s ++ repeat 32%N (Z.to_nat (marg - left)).

(* ------------------------------------------------------------------ wordcount *)
Section Words.
  Variable is_word : N -> bool.                    (* \w *)
  (* len(re.findall(r"\w+", s)): number of maximal runs of word characters *)
  Fixpoint count_runs (inside : bool) (s : str) : N :=
    match s with
    | [] => 0
    | c :: r => if is_word c then (if inside then count_runs true r else 1 + count_runs true r)%N
                else count_runs false r
    end.
  Definition do_wordcount (s : str) : N := count_runs false s.
End Words.
Definition ascii_word (c : N) : bool :=
  (((48 <=? c) && (c <=? 57)) || ((65 <=? c) && (c <=? 90)) || ((97 <=? c) && (c <=? 122)) || (c =? 95))%N.

(* ------------------------------------------------------------------ filesizeformat *)
Inductive fsize :=
| FOneByte                                   (* "1 Byte" *)
| FBytes (n : Z)                             (* "<n> Bytes" *)
| FUnit (i : nat) (num den : Z).             (* "<num/den formatted .1f> <prefix i>" *)

(* for i, prefix in enumerate(prefixes): unit = base ** (i + 2); if bytes < unit: return ...
   [todo] prefixes remain after the current one *)
Fixpoint unit_go (base b : Z) (i todo : nat) : fsize :=
  let unit := (base ^ (Z.of_nat i + 2))%Z in
  match todo with
  | O => FUnit i (base * b) unit
  | S t => if (b <? unit)%Z then FUnit i (base * b) unit else unit_go base b (S i) t
  end.
Definition do_filesizeformat (b : Z) (binary : bool) : fsize :=
  let base := if binary then 1024%Z else 1000%Z in
  if (b =? 1)%Z then FOneByte
  else if (b <? base)%Z then FBytes b
  else unit_go base b 0 7.

(* ------------------------------------------------------------------ wordwrap *)
Section Wrap.
  Variable wrap : str -> list str.                 (* textwrap.wrap(line, width=.., ...) *)
  Definition do_wordwrap (wrapstring : str) (s : str) : str :=
    join wrapstring (map (fun line => join wrapstring (wrap line)) (splitlines s)).
End Wrap.

(* ------------------------------------------------------------------ int / float *)
Inductive outcome (X : Type) := Returns (x : X) | Raises (e : exn).
Arguments Returns {X} _. Arguments Raises {X} _.
Definition caught (e : exn) (l : list exn) : bool :=
  existsb (fun x => match x, e with
                    | AssertionError, AssertionError | TypeError, TypeError
                    | ValueError, ValueError | OverflowError, OverflowError => true
                    | _, _ => false
                    end) l.

Section Conv.
  Variables V I F : Type.                          (* Python values, ints, floats *)
  Variable is_str : V -> bool.
  Variable int_str : V -> Z -> outcome I.          (* int(value, base) *)
  Variable int_val : V -> outcome I.               (* int(value) *)
  Variable float_val : V -> outcome F.             (* float(value) *)
  Variable int_float : F -> outcome I.             (* int(f) *)
  (* the except clauses, regenerated from filters.py *)
  Variables caught_int_outer caught_int_inner caught_float : list exn.

  (* try: (int(value, base) if str else int(value)) except OUTER: try: int(float(value)) except INNER: default *)
  Definition do_int (value : V) (default : I) (base : Z) : outcome I :=
    match (if is_str value then int_str value base else int_val value) with
    | Returns i => Returns i
    | Raises e =>
        if caught e caught_int_outer then
          match (match float_val value with Returns f => int_float f | Raises e' => Raises e' end) with
          | Returns i => Returns i
          | Raises e' => if caught e' caught_int_inner then Returns default else Raises e'
          end
        else Raises e
    end.
  Definition do_float (value : V) (default : F) : outcome F :=
    match float_val value with
    | Returns f => Returns f
    | Raises e => if caught e caught_float then Returns default else Raises e
    end.
End Conv.

(* the CPython conversion-outcome table on value kinds (validated row by row by the tie) *)
Inductive kind :=
| KStrInt | KStrFloat | KStrExpHuge | KStrInf | KStrNan | KStrGarbage | KStrHugeDigits
| KInt | KHugeInt | KFloatFinite | KFloatInf | KFloatNan | KBool | KNone | KContainer.
Definition all_kinds : list kind :=
  [KStrInt; KStrFloat; KStrExpHuge; KStrInf; KStrNan; KStrGarbage; KStrHugeDigits;
   KInt; KHugeInt; KFloatFinite; KFloatInf; KFloatNan; KBool; KNone; KContainer].
Inductive fl := FlFinite | FlInf | FlNan.
Definition k_is_str (k : kind) : bool :=
  match k with KStrInt | KStrFloat | KStrExpHuge | KStrInf | KStrNan | KStrGarbage | KStrHugeDigits => true | _ => false end.
(* int(value, 10) for strs, int(value) otherwise; the returned unit stands for "an int" *)
Definition k_int (k : kind) : outcome unit :=
  match k with
  | KStrInt | KInt | KHugeInt | KFloatFinite | KBool => Returns tt
  | KFloatInf => Raises OverflowError
  | KNone | KContainer => Raises TypeError
  | _ => Raises ValueError
  end.
Definition k_float (k : kind) : outcome fl :=
  match k with
  | KStrInt | KStrFloat | KInt | KFloatFinite | KBool => Returns FlFinite
  | KStrExpHuge | KStrInf | KFloatInf | KStrHugeDigits => Returns FlInf
  | KStrNan | KFloatNan => Returns FlNan
  | KStrGarbage => Raises ValueError
  | KHugeInt => Raises OverflowError
  | KNone | KContainer => Raises TypeError
  end.
Definition k_int_float (f : fl) : outcome unit :=
  match f with FlFinite => Returns tt | FlInf => Raises OverflowError | FlNan => Raises ValueError end.

(* observable shape of a conversion: converted / the default / an exception *)
Inductive shape := SConverted | SDefault | SRaises (e : exn).
Definition int_shape (outer inner : list exn) (k : kind) : shape :=
  (* default is distinguished from a converted value by running the model on option unit *)
  match do_int kind (option unit) fl k_is_str
               (fun v _ => match k_int v with Returns _ => Returns (Some tt) | Raises e => Raises e end)
               (fun v => match k_int v with Returns _ => Returns (Some tt) | Raises e => Raises e end)
               k_float
               (fun f => match k_int_float f with Returns _ => Returns (Some tt) | Raises e => Raises e end)
               outer inner k None 10%Z with
  | Returns (Some _) => SConverted
  | Returns None => SDefault
  | Raises e => SRaises e
  end.
Definition float_shape (cf : list exn) (k : kind) : shape :=
  match do_float kind (option fl)
                 (fun v => match k_float v with Returns f => Returns (Some f) | Raises e => Raises e end)
                 cf k None with
  | Returns (Some _) => SConverted
  | Returns None => SDefault
  | Raises e => SRaises e
  end.

(* ------------------------------------------------------------------ decimal I/O helpers of the driver *)
Fixpoint dec_go (fuel : nat) (n : N) (acc : str) : str :=
  match fuel with
  | O => acc
  | S f => let acc' := (48 + n mod 10)%N :: acc in
           if (n / 10 =? 0)%N then acc' else dec_go f (n / 10)%N acc'
  end.
Definition show_N (n : N) : str := dec_go (S (N.size_nat n)) n [].
Definition show_Z (z : Z) : str :=
  match z with Zneg p => 45%N :: show_N (Npos p) | _ => show_N (Z.to_N z) end.
Definition read_Z (s : str) : Z :=
  match s with
  | 45%N :: r => Z.opp (Z.of_N (fold_left (fun acc c => (acc * 10 + (c - 48))%N) r 0%N))
  | _ => Z.of_N (fold_left (fun acc c => (acc * 10 + (c - 48))%N) s 0%N)
  end.
