(* C29 / C37 / C38 — an abstract heap with regions, and renders as sequences of atomic steps
   with write footprints.  Executable definitions only; proofs live in Proofs/FramesProofs.v.

   Regions: the data passed to a render, the environment globals, the template globals, the
   per-template module cache (Template._module), the other caches (template cache, lexer
   cache, compiled regexes, ...), and one private region per render (its Context, frames,
   buffers, loop state, eval context). *)
From Coq Require Import List NArith Bool.
Import ListNotations.

Inductive region := Data | EnvGlobals | TplGlobals | ModuleCache | Caches | PerRender (rid : N).

Definition region_eqb (a b : region) : bool :=
  match a, b with
  | Data, Data | EnvGlobals, EnvGlobals | TplGlobals, TplGlobals | ModuleCache, ModuleCache
  | Caches, Caches => true
  | PerRender n, PerRender m => N.eqb n m
  | _, _ => false
  end.

Definition loc : Type := region * N.
Definition loc_eqb (a b : loc) : bool := region_eqb (fst a) (fst b) && N.eqb (snd a) (snd b).

Definition heap := loc -> N.
Definition upd (h : heap) (l : loc) (v : N) : heap := fun l' => if loc_eqb l' l then v else h l'.

(* a write: a location and the value stored there, computed from the heap before the write *)
Definition wr : Type := loc * (heap -> N).
(* a step: the writes one atomic piece of the render performs, in order *)
Definition step := list wr.

Definition apply_wr (h : heap) (w : wr) : heap := upd h (fst w) (snd w h).
Definition apply_step (h : heap) (s : step) : heap := fold_left apply_wr s h.
Definition run (h : heap) (steps : list step) : heap := fold_left apply_step steps h.

Definition persistent (r : region) : bool := match r with PerRender _ => false | _ => true end.
Definition is_per_render (rid : N) (r : region) : bool :=
  match r with PerRender n => N.eqb n rid | _ => false end.

(* footprint of a step: it writes only into regions accepted by P *)
Definition writes_only (P : region -> bool) (s : step) : bool := forallb (fun w => P (fst (fst w))) s.

(* what a render of id rid may look at: everything persistent and its own region *)
Definition visible (rid : N) (l : loc) : bool := persistent (fst l) || is_per_render rid (fst l).
