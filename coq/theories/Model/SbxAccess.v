(* Model of attribute / item access in the sandbox (C17):
     SandboxedEnvironment.getattr / getitem / unsafe_undefined / wrap_str_format,
     SandboxedFormatter.get_field, filters.do_attr, filters.make_attrgetter.
   Executable definitions only.

   Objects are trees (type tag, attribute map, item map).  [py_getattr] / [py_getitem] stand for
   Python's getattr(obj, name) and obj[key]: [None] = AttributeError, resp. TypeError/LookupError
   (the only exceptions the sandbox code catches). *)
From Coq Require Import List Bool String ZArith.
Import ListNotations.
From JV Require Import Model.SbxAttr.
Open Scope string_scope.

(* [KSub content shown]: an instance of a str subclass used as a subscript key — it hashes / compares
   like the str [content] (dict lookup, startswith), while str(key) is [shown] *)
Inductive key := KStr (s : string) | KInt (z : Z) | KSub (content shown : string).

Definition norm_key (k : key) : key := match k with KSub c _ => KStr c | _ => k end.

Definition key_eqb (a b : key) : bool :=
  match a, b with
  | KStr x, KStr y => String.eqb x y
  | KInt x, KInt y => Z.eqb x y
  | _, _ => false
  end.

Inductive value :=
  | VData (n : nat)                           (* an opaque datum (number, sentinel, ...) *)
  | VStr (s : string)                         (* a str: has the methods format / format_map *)
  | VObj (k : okind) (attrs : list (string * value)) (items : list (key * value))
  | VFmt (self : string) (is_map : bool)      (* the bound method  self.format / self.format_map *)
  | VWrap (self : string) (is_map : bool)     (* the sandboxing wrapper function around it *)
  | VUndef                                    (* environment.undefined(obj=, name=) *)
  | VUnsafe.                                  (* unsafe_undefined: raises SecurityError when used *)

Fixpoint assoc_s (a : string) (l : list (string * value)) : option value :=
  match l with
  | [] => None
  | (k, v) :: r => if String.eqb a k then Some v else assoc_s a r
  end.

Fixpoint assoc_k (a : key) (l : list (key * value)) : option value :=
  match l with
  | [] => None
  | (k, v) :: r => if key_eqb a k then Some v else assoc_k a r
  end.

(* which branch of is_internal_attribute's isinstance chain the object takes *)
Definition kind_of (v : value) : okind :=
  match v with
  | VObj k _ _ => k
  | VWrap _ _ => KFunction          (* a Python function (update_wrapper'ed closure) *)
  | _ => KOther                     (* str, builtin methods, data, undefined *)
  end.

(* getattr(obj, name) *)
Definition py_getattr (o : value) (a : string) : option value :=
  match o with
  | VObj _ attrs _ => assoc_s a attrs
  | VStr s => if String.eqb a "format" then Some (VFmt s false)
              else if String.eqb a "format_map" then Some (VFmt s true) else None
  | VFmt s _ => if String.eqb a "__self__" then Some (VStr s) else None
  | VWrap s m => if String.eqb a "__wrapped__" then Some (VFmt s m) else None
  | _ => None
  end.

(* obj[key] *)
Definition py_getitem (o : value) (k : key) : option value :=
  match o with
  | VObj _ _ items => assoc_k (norm_key k) items
  | _ => None
  end.

(* wrap_str_format(value): only bound format / format_map methods of str are wrapped *)
Definition wrap_str_format (v : value) : option value :=
  match v with
  | VFmt s m => Some (VWrap s m)
  | _ => None
  end.

Inductive exn := EUndefinedError | ESecurityError | EIndexError | EKeyError.

Inductive result :=
  | RValue (v : value)     (* the attribute's value, handed out after is_safe_attribute *)
  | RItem (v : value)      (* obtained by subscripting *)
  | RFormat (w : value)    (* the sandboxed wrapper of a bound str.format / format_map *)
  | RUndefined             (* plain undefined *)
  | RUnsafe                (* unsafe_undefined *)
  | RRaise (e : exn).      (* operating on an undefined object *)

(* the attribute branch shared by getattr and getitem (code after the fix commit: the
   safety check comes first, then the format wrapper) *)
Definition attr_branch (tb : tables) (o : value) (a : string) (v : value) : result :=
  if is_safe_attribute tb (kind_of o) a then
    match wrap_str_format v with
    | Some w => RFormat w
    | None => RValue v
    end
  else RUnsafe.

(* SandboxedEnvironment.getattr(obj, attribute) *)
Definition sandbox_getattr (tb : tables) (o : value) (a : string) : result :=
  match o with
  | VUndef => RRaise EUndefinedError
  | VUnsafe => RRaise ESecurityError
  | _ =>
    match py_getattr o a with
    | Some v => attr_branch tb o a v
    | None =>
        match py_getitem o (KStr a) with
        | Some v => RItem v
        | None => RUndefined
        end
    end
  end.

(* SandboxedEnvironment.getitem(obj, argument) *)
Definition sandbox_getitem (tb : tables) (o : value) (k : key) : result :=
  match o with
  | VUndef => RRaise EUndefinedError
  | VUnsafe => RRaise ESecurityError
  | _ =>
    match py_getitem o k with
    | Some v => RItem v
    | None =>
        match k with
        | KStr a =>
            match py_getattr o a with
            | Some v => attr_branch tb o a v
            | None => RUndefined
            end
        | KSub _ shown =>            (* attr = str(argument): fetched AND checked under that name *)
            match py_getattr o shown with
            | Some v => attr_branch tb o shown v
            | None => RUndefined
            end
        | KInt _ => RUndefined
        end
    end
  end.

(* the Python value a result denotes for the next step of a path *)
Definition value_of (r : result) : option value :=
  match r with
  | RValue v | RItem v | RFormat v => Some v
  | RUndefined => Some VUndef
  | RUnsafe => Some VUnsafe
  | RRaise _ => None
  end.

(* filters.do_attr(environment, obj, name): undefined when the attribute does not exist (no item
   fallback), else environment.getattr *)
Definition do_attr (tb : tables) (o : value) (a : string) : result :=
  match o with
  | VUndef => RRaise EUndefinedError
  | VUnsafe => RRaise ESecurityError
  | _ =>
    match py_getattr o a with
    | None => RUndefined
    | Some _ => sandbox_getattr tb o a
    end
  end.

(* ---- paths: format fields "{0.a[b].c}" and dotted attribute arguments "a.0.b" *)
Inductive step := SAttr (a : string) | SItem (k : key).

Definition do_step (tb : tables) (o : value) (s : step) : result :=
  match s with
  | SAttr a => sandbox_getattr tb o a
  | SItem k => sandbox_getitem tb o k
  end.

(* fold of environment.getattr / getitem over the steps; a raise aborts *)
Fixpoint walk (tb : tables) (o : value) (p : list step) : result :=
  match p with
  | [] => RItem o          (* the root itself, tagged as plain data *)
  | [s] => do_step tb o s
  | s :: r =>
      match value_of (do_step tb o s) with
      | Some v => walk tb v r
      | None => do_step tb o s
      end
  end.

(* SandboxedFormatter.get_field(field_name, args, kwargs):
   first, rest = formatter_field_name_split(field_name); obj = get_value(first, args, kwargs) *)
Definition get_value (args : list value) (kwargs : list (string * value)) (first : key) : option value :=
  match first with
  | KInt z => if Z.ltb z 0 then None else nth_error args (Z.to_nat z)
  | KStr s | KSub s _ => assoc_s s kwargs
  end.

Definition get_field (tb : tables) (args : list value) (kwargs : list (string * value))
           (first : key) (rest : list step) : result :=
  match get_value args kwargs first with
  | None => RRaise (match first with KInt _ => EIndexError | _ => EKeyError end)
  | Some o => walk tb o rest
  end.

(* filters.make_attrgetter(environment, attribute)(item) without default / postprocess:
   every part goes through environment.getitem; integer-looking parts are ints *)
Definition attrgetter (tb : tables) (parts : list key) (o : value) : result :=
  walk tb o (map SItem parts).
