(* C03 / C32 / C30 — statement fragment of Jinja templates (shared AST, values, pure
   expression evaluation).  Executable definitions only.

   Names are numbers (the harness keeps the table name <-> identifier text); a few names
   are reserved because the compiler treats them specially. *)
From Coq Require Import List NArith ZArith Bool.
Import ListNotations.

Definition name := N.
Definition attr := N.
Definition str := list N.          (* code points *)

(* reserved names (the harness maps them to these identifiers) *)
Definition n_loop : name := 0%N.
Definition n_caller : name := 1%N.
Definition n_namespace : name := 2%N.
Definition n_kwargs : name := 3%N.
Definition n_varargs : name := 4%N.
Definition n_self : name := 5%N.
(* reserved attribute *)
Definition a_index : attr := 0%N.

(* ---------------------------------------------------------------- syntax *)
Inductive expr :=
| EName (x : name)
| EInt (z : Z)
| EStr (s : str)
| ECat (a b : expr)                 (* a ~ b   (nodes.Concat [a; b]) *)
| EAdd (a b : expr)                 (* a + b *)
| EAttr (x : name) (a : attr).      (* x.a     (Getattr (Name x) a) *)

Inductive fkind := FUpper | FLower.

Inductive stmt :=
| SOut (es : list expr)                                   (* {{ e }}... one Output node *)
| SIf (test : expr) (body : list stmt) (elifs : list stmt) (els : list stmt)
      (* elifs: as in Jinja's AST a list of If nodes (each with empty elifs / else) *)
| SFor (target : name) (iter : expr) (test : option expr) (body : list stmt) (els : list stmt)
| SSet (x : name) (e : expr)                              (* {% set x = e %} *)
| SSetAttr (x : name) (a : attr) (e : expr)               (* {% set x.a = e %}  (NSRef) *)
| SNsNew (x : name) (kvs : list (attr * expr))            (* {% set x = namespace(a=e, ...) %} *)
| SSetBlock (x : name) (body : list stmt)                 (* {% set x %}...{% endset %} *)
| SWith (binds : list (name * expr)) (body : list stmt)
| SFilter (f : fkind) (body : list stmt)                  (* {% filter upper %}...{% endfilter %} *)
| SMacro (m : name) (params : list name) (body : list stmt)
| SCallOut (f : name) (args : list expr)                  (* {{ f(args) }} *)
| SCallBlock (params : list name) (f : name) (args : list expr) (body : list stmt).
      (* {% call(params) f(args) %}body{% endcall %} *)

(* ---------------------------------------------------------------- symbol tables
   (declared here because closures carry the compile-time symbol chain of their
   definition site) *)
Definition ident := (nat * name)%type.      (* l_<level>_<name> *)
Inductive loadk := LParam | LResolve (x : name) | LAlias (r : ident) | LUndef.
Record symbols := mkSym {
  s_level : nat;
  s_refs : list (name * ident);      (* insertion-ordered dict *)
  s_loads : list (ident * loadk);    (* insertion-ordered dict *)
  s_stores : list name               (* set; list order is a model artefact never observed
                                        except through an explicit iteration-order parameter *)
}.

(* ---------------------------------------------------------------- values *)
Inductive ckind := KMacro | KCaller.
Inductive value :=
| VInt (z : Z)
| VStr (s : str)
| VList (l : list value)
| VUndef
| VNs (id : nat)                     (* namespace object: index into the namespace heap *)
| VNsCtor                            (* the global `namespace` *)
| VLoop (index : N)                  (* LoopContext, only .index is modelled *)
| VClos (k : ckind) (nm : name) (params : list name) (body : list stmt) (uses_caller : bool)
        (cap : list nat)             (* S: captured scope ids; M: activation chain *)
        (csyms : list symbols).      (* M only: symbol chain of the definition site *)

Inductive err := ETypeError | EUndefinedError | ERuntimeError | EFuel
  | EInternal.   (* NameError / UnboundLocalError / compile-time assertion: never expected *)
Inductive res (A : Type) := Ok (a : A) | Err (e : err).
Arguments Ok {A} _. Arguments Err {A} _.

Definition bind {A B} (r : res A) (f : A -> res B) : res B :=
  match r with Ok a => f a | Err e => Err e end.
Notation "'do' x <- r ; k" := (bind r (fun x => k)) (at level 200, x pattern, r at level 100, k at level 200).

(* ---------------------------------------------------------------- dict / set helpers *)
Definition ident_eqb (a b : ident) : bool := Nat.eqb (fst a) (fst b) && N.eqb (snd a) (snd b).

Section Dict.
  Context {K V : Type} (eqb : K -> K -> bool).
  Fixpoint dget (k : K) (m : list (K * V)) : option V :=
    match m with [] => None | (k', v) :: r => if eqb k k' then Some v else dget k r end.
  (* Python dict assignment: an existing key keeps its position, a new key is appended *)
  Fixpoint dset (k : K) (v : V) (m : list (K * V)) : list (K * V) :=
    match m with
    | [] => [(k, v)]
    | (k', v') :: r => if eqb k k' then (k, v) :: r else (k', v') :: dset k v r
    end.
  Definition dupdate (m other : list (K * V)) : list (K * V) :=
    fold_left (fun acc kv => dset (fst kv) (snd kv) acc) other m.
  Definition dhas (k : K) (m : list (K * V)) : bool :=
    match dget k m with Some _ => true | None => false end.
End Dict.

Fixpoint nmem (x : name) (s : list name) : bool :=
  match s with [] => false | y :: r => N.eqb x y || nmem x r end.
Definition nadd (x : name) (s : list name) : list name := if nmem x s then s else s ++ [x].
Definition nunion (s t : list name) : list name := fold_left (fun acc x => nadd x acc) t s.
Definition ndiff (s t : list name) : list name := filter (fun x => negb (nmem x t)) s.

(* ---------------------------------------------------------------- text *)
Definition cp (c : N) : N := c.
(* pseudo code points: a value's text can contain the *name* of a macro (str(Macro)); names
   are numbers here, so the text carries 2000000 + id (3000000 + id after upper(),
   4000000 + id after lower()) and the harness substitutes the identifier text *)
Definition name_base : N := 2000000%N.
Definition upper_base : N := 3000000%N.
Definition lower_base : N := 4000000%N.

Definition digit (n : N) : N := (48 + n)%N.
Fixpoint pos_digits (fuel : nat) (n : N) (acc : str) : str :=
  match fuel with
  | O => acc
  | S f => let q := N.div n 10 in let r := N.modulo n 10 in
           if N.eqb q 0 then digit r :: acc else pos_digits f q (digit r :: acc)
  end.
Definition n_to_str (n : N) : str := pos_digits (S (N.to_nat (N.log2 n))) n [].
Definition z_to_str (z : Z) : str :=
  match z with
  | Z0 => [48%N]
  | Zpos p => n_to_str (Npos p)
  | Zneg p => 45%N :: n_to_str (Npos p)
  end.

Definition s_of (l : list N) : str := l.
Fixpoint join_with (sep : str) (l : list str) : str :=
  match l with [] => [] | [x] => x | x :: r => x ++ sep ++ join_with sep r end.

(* repr of a value inside a list (Python repr): strings in single quotes — exact for strings
   without quotes, backslashes and non-printable characters, which is all the harness generates *)
Definition macro_text (nm : name) : str :=
  [60; 77; 97; 99; 114; 111; 32; 39]%N ++ [(name_base + nm)%N] ++ [39; 62]%N.   (* <Macro 'nm'> *)
Definition caller_text : str := [60; 77; 97; 99; 114; 111; 32; 97; 110; 111; 110; 121; 109; 111; 117; 115; 62]%N. (* <Macro anonymous> *)
Definition ns_text : str := [60; 78; 97; 109; 101; 115; 112; 97; 99; 101; 62]%N.  (* <Namespace> (harness fixes the repr) *)
Definition loop_text : str := [60; 76; 111; 111; 112; 62]%N.                       (* <Loop> (never generated) *)
Definition undef_repr : str := [85; 110; 100; 101; 102; 105; 110; 101; 100]%N.     (* Undefined *)
Definition nsctor_text : str := [60; 99; 108; 97; 115; 115; 62]%N.                 (* <class> (never generated) *)

Fixpoint to_text (inner : bool) (v : value) : str :=
  match v with
  | VInt z => z_to_str z
  | VStr s => if inner then [39%N] ++ s ++ [39%N] else s
  | VList l => [91%N] ++ join_with [44; 32]%N (map (to_text true) l) ++ [93%N]
  | VUndef => if inner then undef_repr else []
  | VNs _ => ns_text
  | VNsCtor => nsctor_text
  | VLoop _ => loop_text
  | VClos KMacro nm _ _ _ _ _ => macro_text nm
  | VClos KCaller _ _ _ _ _ _ => caller_text
  end.
Definition to_str (v : value) : str := to_text false v.

Definition truthy (v : value) : bool :=
  match v with
  | VInt z => negb (Z.eqb z 0)
  | VStr s => match s with [] => false | _ => true end
  | VList l => match l with [] => false | _ => true end
  | VUndef => false
  | _ => true
  end.

(* iteration of a value by `for` *)
Definition iter_items (v : value) : res (list value) :=
  match v with
  | VList l => Ok l
  | VStr s => Ok (map (fun c => VStr [c]) s)
  | VUndef => Ok []
  | _ => Err ETypeError
  end.

Definition add_values (a b : value) : res value :=
  match a, b with
  | VInt x, VInt y => Ok (VInt (x + y))
  | VStr x, VStr y => Ok (VStr (x ++ y))
  | VList x, VList y => Ok (VList (x ++ y))
  | VUndef, _ => Err EUndefinedError
  | _, VUndef => Err EUndefinedError
  | _, _ => Err ETypeError
  end.

Definition upper_cp (c : N) : N :=
  if (N.leb 97 c && N.leb c 122)%bool then (c - 32)%N
  else if (N.leb name_base c && N.ltb c upper_base)%bool then (c - name_base + upper_base)%N
  else if (N.leb lower_base c)%bool then (c - lower_base + upper_base)%N else c.
Definition lower_cp (c : N) : N :=
  if (N.leb 65 c && N.leb c 90)%bool then (c + 32)%N
  else if (N.leb name_base c && N.ltb c upper_base)%bool then (c - name_base + lower_base)%N
  else if (N.leb upper_base c && N.ltb c lower_base)%bool then (c - upper_base + lower_base)%N else c.
Definition apply_filter (f : fkind) (s : str) : str :=
  match f with FUpper => map upper_cp s | FLower => map lower_cp s end.

(* ---------------------------------------------------------------- namespace heap *)
Definition nsheap := list (list (attr * value)).
Definition ns_get (h : nsheap) (id : nat) (a : attr) : value :=
  match dget N.eqb a (nth id h []) with Some v => v | None => VUndef end.
Fixpoint ns_set (h : nsheap) (id : nat) (a : attr) (v : value) : nsheap :=
  match h, id with
  | [], _ => []
  | o :: r, O => dset N.eqb a v o :: r
  | o :: r, S i => o :: ns_set r i a v
  end.

(* ---------------------------------------------------------------- pure expressions
   [lk] looks a template name up (the two interpreters differ in that function) *)
Definition getattr (h : nsheap) (v : value) (a : attr) : res value :=
  match v with
  | VUndef => Err EUndefinedError
  | VNs id => Ok (ns_get h id a)
  | VLoop i => if N.eqb a a_index then Ok (VInt (Z.of_N i)) else Ok VUndef
  | _ => Ok VUndef
  end.

Fixpoint eval (lk : name -> res value) (h : nsheap) (e : expr) : res value :=
  match e with
  | EName x => lk x
  | EInt z => Ok (VInt z)
  | EStr s => Ok (VStr s)
  | ECat a b => do va <- eval lk h a; do vb <- eval lk h b; Ok (VStr (to_str va ++ to_str vb))
  | EAdd a b => do va <- eval lk h a; do vb <- eval lk h b; add_values va vb
  | EAttr x a => do v <- lk x; getattr h v a
  end.

Fixpoint eval_list (lk : name -> res value) (h : nsheap) (es : list expr) : res (list value) :=
  match es with
  | [] => Ok []
  | e :: r => do v <- eval lk h e; do vs <- eval_list lk h r; Ok (v :: vs)
  end.

Fixpoint eval_kvs (lk : name -> res value) (h : nsheap) (kvs : list (attr * expr)) : res (list (attr * value)) :=
  match kvs with
  | [] => Ok []
  | (a, e) :: r => do v <- eval lk h e; do vs <- eval_kvs lk h r; Ok ((a, v) :: vs)
  end.

(* text written by one Output node *)
Fixpoint eval_out (lk : name -> res value) (h : nsheap) (es : list expr) : res str :=
  match es with
  | [] => Ok []
  | e :: r => do v <- eval lk h e; do s <- eval_out lk h r; Ok (to_str v ++ s)
  end.

(* names loaded by an expression, in NodeVisitor order *)
Fixpoint expr_names (e : expr) : list name :=
  match e with
  | EName x => [x]
  | EInt _ | EStr _ => []
  | ECat a b | EAdd a b => expr_names a ++ expr_names b
  | EAttr x _ => [x]
  end.
Definition exprs_names (es : list expr) : list name := flat_map expr_names es.

(* does the text mention (load) the name, anywhere, nested bodies included *)
Fixpoint mentions (x : name) (s : stmt) : bool :=
  let ex e := nmem x (expr_names e) in
  let exs es := nmem x (exprs_names es) in
  let fix go (l : list stmt) : bool := match l with [] => false | s :: r => mentions x s || go r end in
  match s with
  | SOut es => exs es
  | SIf t b ei el => ex t || go b || go ei || go el
  | SFor _ it te b el => ex it || (match te with Some t => ex t | None => false end) || go b || go el
  | SSet _ e => ex e
  | SSetAttr _ _ e => ex e            (* an NSRef is not a Name node *)
  | SNsNew _ kvs => N.eqb x n_namespace || exs (map snd kvs)
  | SSetBlock _ b => go b
  | SWith bs b => exs (map snd bs) || go b
  | SFilter _ b => go b
  | SMacro _ _ b => go b
  | SCallOut f args => N.eqb x f || exs args
  | SCallBlock _ f args b => N.eqb x f || exs args || go b
  end.
Fixpoint mentions_l (x : name) (l : list stmt) : bool :=
  match l with [] => false | s :: r => mentions x s || mentions_l x r end.

(* observable result of a render: the text, and the exported top-level variables *)
Definition observable := (str * list (name * str))%type.
