(* C29 / C37 — renders as programs of atomic steps over the Frames heap, and schedules that
   interleave the steps of several renders.  Executable definitions only (the value functions
   of steps are parameters of the programs); proofs live in Proofs/FramesSchedProofs.v.

   A render with id rid owns the region PerRender rid.  What a step may do:
     PPriv n f   store into the render's own cell n a value computed from the render's own
                 cells (its Context, frames, buffers, loop state) and from the shared heap
     PFill c     fill-once of a cache cell: "if the cell is empty, store G c" where G c is the
                 value the cache is meant to hold (Template._module = make_module(), the
                 template cache entry for a name, a compiled lexer): a function of the
                 read-only regions
     PData n f   store into the caller's data (what a filter that accumulates into its argument
                 does) - excluded by the footprint obligation, present to state the refutation *)
From Coq Require Import List NArith Bool.
Import ListNotations.
From JV Require Import Model.Frames.

Definition view := N -> N.
Definition own (rid : N) (h : heap) : view := fun n => h (PerRender rid, n).

Inductive pstep :=
| PPriv (cell : N) (f : view -> heap -> N)
| PFill (c : loc)
| PData (cell : N) (f : view -> heap -> N)
| PCacheWrite (c : loc) (f : view -> heap -> N).
     (* PCacheWrite: a plain store into a cache cell - what a macro of a cached imported module does
        when its {% autoescape %} block sets the module context's eval context; excluded by the
        footprint obligation, present to state the refutation *)

(* read-only regions *)
Definition ro (l : loc) : bool :=
  match fst l with Data | EnvGlobals | TplGlobals => true | _ => false end.
Definition is_cache (l : loc) : bool :=
  match fst l with ModuleCache | Caches => true | _ => false end.

Section Exec.
  Variable G : loc -> heap -> N.       (* the value each cache cell is meant to hold *)

  Definition fill (h : heap) (c : loc) : heap := upd h c (if N.eqb (h c) 0 then G c h else h c).

  Definition exec (h : heap) (ts : N * pstep) : heap :=
    let rid := fst ts in
    match snd ts with
    | PPriv n f => upd h (PerRender rid, n) (f (own rid h) h)
    | PFill c => fill h c
    | PData n f => upd h (Data, n) (f (own rid h) h)
    | PCacheWrite c f => upd h c (f (own rid h) h)
    end.

  Definition run_sched (s : list (N * pstep)) (h : heap) : heap := fold_left exec s h.

  Definition tag (rid : N) (p : list pstep) : list (N * pstep) := map (fun st => (rid, st)) p.
  Definition only (rid : N) (s : list (N * pstep)) : list (N * pstep) := filter (fun ts => N.eqb (fst ts) rid) s.
End Exec.

(* the footprint obligation on a schedule: no step writes the caller's data, fills only touch cache cells *)
Definition step_footprint_ok (st : pstep) : bool :=
  match st with PPriv _ _ => true | PFill c => is_cache c | PData _ _ | PCacheWrite _ _ => false end.
Definition footprint_ok (s : list (N * pstep)) : bool := forallb (fun ts => step_footprint_ok (snd ts)) s.

(* ---------------------------------------------------------------- the regenerated table (T3) *)
From Coq Require Import String Ascii.
Inductive rootk := RSelf (cls : string) | RParam (name : string) | RFresh | RGlobal (name : string) | RUnknown.
Record wrow := { w_fn : string; w_kind : string; w_root : rootk; w_first : string }.

(* who owns what.  Objects of these classes are created for one render (or one use inside a
   render) and never shared between renders. *)
Definition per_render_classes : list string :=
  ["Context"; "EvalContext"; "LoopContext"; "AsyncLoopContext"; "BlockReference"; "TemplateReference"; "Macro";
   "Undefined"; "ChainableUndefined"; "DebugUndefined"; "StrictUndefined"; "TemplateStream"; "TemplateExpression";
   "Cycler"; "Joiner"; "Namespace"; "_IteratorToAsyncIterator"; "_GroupTuple"]%string.
(* constructors write into the object being built *)
Definition ctor_names : list string := ["__init__"; "__new__"; "_postinit"; "__setstate__"; "__init_subclass__"]%string.
(* caches: (class, function suffix) pairs whose self-writes are lock-protected / fill-once cache updates *)
Definition cache_classes : list string := ["LRUCache"]%string.
Definition fill_once_fns : list string :=
  ["environment.Template._get_default_module"; "environment.Template._get_default_module_async";
   "environment.Environment._load_template"]%string.
(* configuration API, decorators and module set-up: not executed by a render *)
Definition setup_fns : list string :=
  ["environment.Environment.add_extension"; "environment.Environment.extend"; "environment.Template._from_namespace";
   "utils.pass_context"; "utils.pass_eval_context"; "utils.pass_environment"; "utils.internalcode"; "utils.clear_caches";
   "environment.TemplateStream.enable_buffering"; "environment.TemplateStream.disable_buffering"]%string.
(* parameters that are engine-owned per-render objects *)
Definition engine_params : list string := ["context"; "ctx"; "eval_ctx"; "__self"; "__context"; "frame"; "loop"; "buf"]%string.
(* (function, parameter) pairs whose parameter is a dict / list the engine's own caller just built,
   or is copied on the path that writes (probed by the harness) *)
Definition owned_param_sites : list (string * string) :=
  [("runtime.new_context", "vars"); ("filters.prepare_map", "kwargs")]%string.

Definition mem (s : string) (l : list string) : bool := existsb (String.eqb s) l.

Fixpoint last_segment_go (s acc : string) : string :=
  match s with
  | EmptyString => acc
  | String c r => if Ascii.eqb c "."%char then last_segment_go r EmptyString else last_segment_go r (acc ++ String c EmptyString)
  end.
Definition last_segment (s : string) : string := last_segment_go s EmptyString.

Definition row_ok (r : wrow) : bool :=
  mem (w_fn r) setup_fns ||
  match w_root r with
  | RFresh => true
  | RSelf c => mem c per_render_classes || mem c cache_classes || mem (last_segment (w_fn r)) ctor_names
               || mem (w_fn r) fill_once_fns
  | RParam p => mem p engine_params
                || existsb (fun fp => String.eqb (fst fp) (w_fn r) && String.eqb (snd fp) p) owned_param_sites
  | RGlobal _ => false
  | RUnknown => false
  end.
Definition table_footprint_ok (t : list wrow) : bool := forallb row_ok t.
