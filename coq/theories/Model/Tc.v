(* C25 — model of the template cache of jinja2.environment.Environment.
   Executable definitions only.

   create_cache            environment.py:83-95   (0 -> no cache, < 0 -> dict, else LRUCache — Model.LRU)
   _load_template          environment.py:955-978 (cache.get / auto_reload and is_up_to_date / loader.load /
                                                   cache[key] = template)
   get_template / select_template / get_or_select_template
   loader state            name |-> version (None = the template does not exist)
   uptodate closures       loaders.py:214-226 (FileSystemLoader: mtime equality), 444-450 (DictLoader: source
                           equality), FunctionLoader (as supplied / None).  Source text and mtime are
                           functions of the version in the tie, so both are version equality here.
   A template object is an identity (allocation counter, 1, 2, ...) with the name and version it
   was compiled from.  The cache key is (weakref(loader), name); an environment of M keeps one
   loader for its lifetime, so the key is the name (loader swapping is probed by the harness). *)
From Coq Require Import List NArith ZArith Bool.
Import ListNotations.
From JV Require Import Model.LRU.
Open Scope N_scope.

Definition name := N.
Definition version := N.
Definition tid := N.                      (* 0 is Python's None in cache lookups *)

(* what the loader hands out as third element of get_source *)
Inductive uptk :=
| UNone                 (* no uptodate function: is_up_to_date is always True *)
| UVersion              (* loaded version = current version (DictLoader, FileSystemLoader, a correct FunctionLoader) *)
| UConst (b : bool).    (* a FunctionLoader closure that always answers b *)

Inductive cache_t :=
| CNone
| CDict (d : dict)
| CLru (s : lru).

Definition create_cache (size : Z) : cache_t :=
  if (size =? 0)%Z then CNone
  else if (size <? 0)%Z then CDict dempty
  else CLru (init (Z.to_N size)).

Record tpl := { t_name : name; t_ver : version }.

Record env := {
  auto_reload : bool;
  upt : uptk;
  cache : cache_t;
  loader : name -> option version;
  heap : tid -> tpl;
  next : tid }.

Definition new_env (ar : bool) (u : uptk) (size : Z) (l : name -> option version) : env :=
  {| auto_reload := ar; upt := u; cache := create_cache size; loader := l;
     heap := fun _ => {| t_name := 0; t_ver := 0 |}; next := 1 |}.

Inductive cres := CHit (t : tid) | CMiss | CCrash.

(* self.cache.get(cache_key)  — on an LRUCache this also makes the entry most recent *)
Definition cache_get (c : cache_t) (k : name) : cache_t * cres :=
  match c with
  | CNone => (c, CMiss)
  | CDict d => (c, match dget d k with Some t => if t =? 0 then CMiss else CHit t | None => CMiss end)
  | CLru s => match LRU.get s k 0 with
              | (s', OVal t) => (CLru s', if t =? 0 then CMiss else CHit t)
              | (s', _) => (CLru s', CCrash)
              end
  end.

(* self.cache[cache_key] = template *)
Definition cache_set (c : cache_t) (k : name) (t : tid) : cache_t * bool :=
  match c with
  | CNone => (c, true)
  | CDict d => (CDict (mset k t d), true)
  | CLru s => match setitem s k t with
              | (s', ONone) => (CLru s', true)
              | (s', _) => (CLru s', false)
              end
  end.

Definition cache_len (c : cache_t) : option N :=
  match c with CNone => None | CDict d => Some (mlen d) | CLru s => Some (mlen (mapping s)) end.

Definition opt_eqb (a b : option N) : bool :=
  match a, b with Some x, Some y => x =? y | None, None => true | _, _ => false end.

(* Template.is_up_to_date *)
Definition is_up_to_date (e : env) (t : tid) : bool :=
  match upt e with
  | UNone => true
  | UConst b => b
  | UVersion => opt_eqb (loader e (t_name (heap e t))) (Some (t_ver (heap e t)))
  end.

Inductive result :=
| RTpl (t : tid) (v : version)      (* a template object; rendering it shows version v *)
| RNotFound                         (* TemplateNotFound / TemplatesNotFound *)
| RCrash.                           (* an internal exception of the LRU cache *)

Definition set_cache (e : env) (c : cache_t) : env :=
  {| auto_reload := auto_reload e; upt := upt e; cache := c; loader := loader e; heap := heap e; next := next e |}.

(* loader.load + cache store *)
Definition reload (e : env) (c1 : cache_t) (n : name) : env * result :=
  match loader e n with
  | None => (set_cache e c1, RNotFound)
  | Some v =>
      let t := next e in
      let '(c2, ok) := cache_set c1 n t in
      ({| auto_reload := auto_reload e; upt := upt e; cache := c2; loader := loader e;
          heap := fun t' => if t' =? t then {| t_name := n; t_ver := v |} else heap e t';
          next := t + 1 |},
       if ok then RTpl t v else RCrash)
  end.

Definition load_template (e : env) (n : name) : env * result :=
  let '(c1, r) := cache_get (cache e) n in
  match r with
  | CCrash => (set_cache e c1, RCrash)
  | CHit t => if negb (auto_reload e) || is_up_to_date e t
              then (set_cache e c1, RTpl t (t_ver (heap e t)))
              else reload e c1 n
  | CMiss => reload e c1 n
  end.

(* select_template: the first name that loads; an empty list and a list without any loadable
   name raise TemplatesNotFound *)
Fixpoint select_template (e : env) (ns : list name) : env * result :=
  match ns with
  | [] => (e, RNotFound)
  | n :: r => match load_template e n with
              | (e', RNotFound) => select_template e' r
              | x => x
              end
  end.

Definition set_loader (e : env) (l : name -> option version) : env :=
  {| auto_reload := auto_reload e; upt := upt e; cache := cache e; loader := l; heap := heap e; next := next e |}.

Inductive op :=
| OGet (n : name)                  (* get_template / get_or_select_template(str) *)
| OSelect (ns : list name)         (* select_template / get_or_select_template(list) *)
| OPut (n : name) (v : version)    (* add or modify the source *)
| ODel (n : name).                 (* delete the source *)

Inductive out := OutR (r : result) (len : option N) | OutUnit.

Definition put (l : name -> option version) (n : name) (v : option version) : name -> option version :=
  fun n' => if n' =? n then v else l n'.

Definition step (e : env) (o : op) : env * out :=
  match o with
  | OGet n => let '(e', r) := load_template e n in (e', OutR r (cache_len (cache e')))
  | OSelect ns => let '(e', r) := select_template e ns in (e', OutR r (cache_len (cache e')))
  | OPut n v => (set_loader e (put (loader e) n (Some v)), OutUnit)
  | ODel n => (set_loader e (put (loader e) n None), OutUnit)
  end.

Fixpoint run (e : env) (h : list op) : env * list out :=
  match h with
  | [] => (e, [])
  | o :: r => let '(e', x) := step e o in let '(e'', xs) := run e' r in (e'', x :: xs)
  end.
