(* C38 — exceptions raised by data propagate unchanged.

   Model of the part of CPython's exception machinery the render path relies on:
   - a fragment of the exception class lattice (builtin classes and jinja2.exceptions, with
     multiple inheritance for TemplateNotFound) plus user classes derived from any class;
   - [try] statements as ordered lists of [except] clauses, each with the classes it names and
     the kind of its body (what the T2 translator gen/exn_handlers.py reads off the source);
   - the propagation of a raised exception object through the dynamic stack of enclosing
     [try] bodies, innermost first (first matching clause of each [try] decides).
   Executable definitions only; proofs live in Proofs/ExnProofs.v. *)
From Coq Require Import List NArith Bool String.
Import ListNotations.

(* ---------------------------------------------------------------- classes *)
Inductive bcls :=
| E_BaseException | E_Exception | E_LookupError | E_KeyError | E_IndexError | E_AttributeError
| E_TypeError | E_ValueError | E_UnicodeError | E_StopIteration | E_StopAsyncIteration
| E_ArithmeticError | E_OverflowError | E_ZeroDivisionError | E_RuntimeError | E_RecursionError
| E_NotImplementedError | E_ImportError | E_OSError | E_SyntaxError | E_MemoryError
| E_AssertionError | E_NameError | E_GeneratorExit | E_KeyboardInterrupt | E_SystemExit
| E_CancelledError
| E_TemplateError | E_TemplateNotFound | E_TemplatesNotFound | E_TemplateSyntaxError
| E_TemplateAssertionError | E_TemplateRuntimeError | E_UndefinedError | E_SecurityError
| E_FilterArgumentError.

(* direct bases, as declared by CPython 3.12 / jinja2.exceptions *)
Definition bparents (c : bcls) : list bcls :=
  match c with
  | E_BaseException => []
  | E_Exception | E_GeneratorExit | E_KeyboardInterrupt | E_SystemExit | E_CancelledError => [E_BaseException]
  | E_LookupError | E_AttributeError | E_TypeError | E_ValueError | E_StopIteration
  | E_StopAsyncIteration | E_ArithmeticError | E_RuntimeError | E_ImportError | E_OSError
  | E_SyntaxError | E_MemoryError | E_AssertionError | E_NameError | E_TemplateError => [E_Exception]
  | E_KeyError | E_IndexError => [E_LookupError]
  | E_UnicodeError => [E_ValueError]
  | E_OverflowError | E_ZeroDivisionError => [E_ArithmeticError]
  | E_RecursionError | E_NotImplementedError => [E_RuntimeError]
  | E_TemplateNotFound => [E_OSError; E_LookupError; E_TemplateError]
  | E_TemplatesNotFound => [E_TemplateNotFound]
  | E_TemplateSyntaxError | E_TemplateRuntimeError => [E_TemplateError]
  | E_TemplateAssertionError => [E_TemplateSyntaxError]
  | E_UndefinedError | E_SecurityError | E_FilterArgumentError => [E_TemplateRuntimeError]
  end.

Definition bcls_eqb (a b : bcls) : bool :=
  match a, b with
  | E_BaseException, E_BaseException | E_Exception, E_Exception | E_LookupError, E_LookupError
  | E_KeyError, E_KeyError | E_IndexError, E_IndexError | E_AttributeError, E_AttributeError
  | E_TypeError, E_TypeError | E_ValueError, E_ValueError | E_UnicodeError, E_UnicodeError
  | E_StopIteration, E_StopIteration | E_StopAsyncIteration, E_StopAsyncIteration
  | E_ArithmeticError, E_ArithmeticError | E_OverflowError, E_OverflowError
  | E_ZeroDivisionError, E_ZeroDivisionError | E_RuntimeError, E_RuntimeError
  | E_RecursionError, E_RecursionError | E_NotImplementedError, E_NotImplementedError
  | E_ImportError, E_ImportError | E_OSError, E_OSError | E_SyntaxError, E_SyntaxError
  | E_MemoryError, E_MemoryError | E_AssertionError, E_AssertionError | E_NameError, E_NameError
  | E_GeneratorExit, E_GeneratorExit | E_KeyboardInterrupt, E_KeyboardInterrupt
  | E_SystemExit, E_SystemExit | E_CancelledError, E_CancelledError
  | E_TemplateError, E_TemplateError | E_TemplateNotFound, E_TemplateNotFound
  | E_TemplatesNotFound, E_TemplatesNotFound | E_TemplateSyntaxError, E_TemplateSyntaxError
  | E_TemplateAssertionError, E_TemplateAssertionError
  | E_TemplateRuntimeError, E_TemplateRuntimeError | E_UndefinedError, E_UndefinedError
  | E_SecurityError, E_SecurityError | E_FilterArgumentError, E_FilterArgumentError => true
  | _, _ => false
  end.

(* all ancestors of a builtin class (itself included); the lattice is 6 levels deep *)
Fixpoint banc (fuel : nat) (c : bcls) : list bcls :=
  c :: match fuel with
       | O => []
       | S f => flat_map (banc f) (bparents c)
       end.
Definition bancestors (c : bcls) : list bcls := banc 7 c.

(* a class is a builtin one or a user class (numbered, single base) *)
Inductive cls := B (b : bcls) | User (n : N) (base : cls).

Fixpoint cls_eqb (a b : cls) : bool :=
  match a, b with
  | B x, B y => bcls_eqb x y
  | User n p, User m q => N.eqb n m && cls_eqb p q
  | _, _ => false
  end.

Fixpoint ancestors (c : cls) : list cls :=
  match c with
  | B b => map B (bancestors b)
  | User _ p => c :: ancestors p
  end.

(* issubclass a b *)
Definition subclass (a b : cls) : bool := existsb (cls_eqb b) (ancestors a).

(* ---------------------------------------------------------------- handlers *)
(* what the body of an except clause does with the caught exception *)
Inductive kind :=
| Reraise                  (* bare raise / raise <bound name> / environment.handle_exception() *)
| ReturnValue              (* returns or falls through with some value *)
| ToUndefined              (* returns environment.undefined(...) *)
| Pass                     (* pass / continue *)
| RaiseOther (c : cls).    (* raises a new exception object of class c *)

Record handler := { h_catch : list cls; h_kind : kind }.
Definition trystmt := list handler.            (* the except clauses of one try, in order *)

(* an exception object: its class and an identity (0 = made by the engine) *)
Record exn := { e_cls : cls; e_id : N }.

Inductive outcome := Raised (e : exn) | Swallowed.

Definition matches (e : exn) (h : handler) : bool := existsb (subclass (e_cls e)) (h_catch h).

Definition is_reraise (k : kind) : bool := match k with Reraise => true | _ => false end.

(* an exception raised inside the bodies of the try statements [stack] (innermost first) *)
Fixpoint propagate (e : exn) (stack : list trystmt) : outcome :=
  match stack with
  | [] => Raised e
  | t :: r =>
      match find (matches e) t with
      | None => propagate e r
      | Some h =>
          match h_kind h with
          | Reraise => propagate e r
          | RaiseOther c => propagate {| e_cls := c; e_id := 0 |} r
          | ReturnValue | ToUndefined | Pass => Swallowed
          end
      end
  end.

(* ---------------------------------------------------------------- the obligation *)
(* The documented signal classes: lookups turn AttributeError / LookupError / TypeError into
   undefined, Context.call turns StopIteration into undefined, iteration adapters translate
   StopIteration / StopAsyncIteration, int / float / reverse / ... turn ValueError,
   OverflowError, TypeError into defaults or FilterArgumentError; the engine's own
   TemplateError family is caught where templates are selected or compiled.  The list is
   closed under builtin subclasses (each class is listed with its builtin descendants), so an
   except clause naming KeyError is covered by the documented LookupError. *)
Definition signals : list cls :=
  map B [E_AttributeError; E_LookupError; E_KeyError; E_IndexError; E_TypeError; E_StopIteration;
         E_StopAsyncIteration; E_ValueError; E_UnicodeError; E_OverflowError;
         E_TemplateError; E_TemplateNotFound; E_TemplatesNotFound; E_TemplateSyntaxError;
         E_TemplateAssertionError; E_TemplateRuntimeError; E_UndefinedError; E_SecurityError;
         E_FilterArgumentError].

Definition cls_in (c : cls) (l : list cls) : bool := existsb (cls_eqb c) l.

Definition handler_ok (sig : list cls) (h : handler) : bool :=
  is_reraise (h_kind h) || forallb (fun c => cls_in c sig) (h_catch h).

Definition try_ok (sig : list cls) (t : trystmt) : bool := forallb (handler_ok sig) t.

(* an exception is foreign when it is below no signal class *)
Definition foreign (sig : list cls) (e : exn) : bool :=
  forallb (fun s => negb (subclass (e_cls e) s)) sig.

(* rows of the regenerated table: (module.function, try statement) *)
Record row := { r_fn : string; r_try : trystmt }.

(* Functions whose catch-all clause is documented or whose try body runs no data code:
   - tests.test_sequence: the capability test "is sequence" reports false on any error;
   - Environment._filter_test_common: the body only calls _fail_with_undefined_error() of the
     engine's own Undefined object to build an error message, then raises TemplateRuntimeError;
   - debug.fake_traceback: the body executes the engine's own one-line "raise
     __jinja_exception__" stub to obtain a traceback object;
   - sandbox.SandboxedEnvironment.call: the body only takes repr() of a callable the sandbox has
     already refused, to word the SecurityError it raises next whatever repr() does. *)
Definition exempt_fns : list string :=
  ["tests.test_sequence"; "environment.Environment._filter_test_common"; "debug.fake_traceback";
   "sandbox.SandboxedEnvironment.call"]%string.

Definition is_exempt (f : string) : bool := existsb (String.eqb f) exempt_fns.

Definition table_ok (sig : list cls) (tab : list row) : bool :=
  forallb (fun r => is_exempt (r_fn r) || try_ok sig (r_try r)) tab.

(* ---------------------------------------------------------------- a render with one fault *)
(* A render is a sequence of data events; event i runs inside the try bodies [stack i].
   The event at position k raises e.  A swallowed exception lets the render continue
   (the value became undefined / a default); a raised one ends it. *)
Inductive result := Completed | Failed (e : exn).

Definition render_with_fault (stacks : list (list trystmt)) (k : nat) (e : exn) : result :=
  match nth_error stacks k with
  | None => Completed
  | Some st => match propagate e st with Raised e' => Failed e' | Swallowed => Completed end
  end.
