#!/bin/bash
# MANIFEST.setup_cmd: build everything that does not depend on /repo:
# the Coq development (full .vo build), the extracted models and their OCaml drivers.
set -euo pipefail
cd "$(dirname "$0")"
ROOT=$(pwd)
mkdir -p build/extract build/bin replays evidence
cd coq
{ echo "-Q theories JV"; find theories -name '*.v' ! -path 'theories/Extract/*' | sort; } > _CoqProject
coq_makefile -f _CoqProject -o Makefile > /dev/null
timeout 3000 make -j16 > "$ROOT/build/coq_make.log" 2>&1 || { tail -n 40 "$ROOT/build/coq_make.log"; echo "setup: Coq build failed"; exit 1; }
cd "$ROOT/build/extract"
for f in "$ROOT"/coq/theories/Extract/Extract_*.v; do
  b=$(basename "$f" .v)
  cp "$f" "$b.v"
  timeout 600 coqc -Q "$ROOT/coq/theories" JV "$b.v" > "$b.log" 2>&1 || { cat "$b.log"; echo "setup: extraction $b failed"; exit 1; }
done
for d in "$ROOT"/ocaml/driver_*.ml; do
  fam=$(basename "$d" .ml); fam=${fam#driver_}
  cp "$d" "driver_$fam.ml"
  timeout 600 ocamlfind ocamlopt -w -a -package str -linkpkg "${fam}_x.mli" "${fam}_x.ml" "driver_$fam.ml" -o "$ROOT/build/bin/$fam" > "build_$fam.log" 2>&1 || { cat "build_$fam.log"; echo "setup: driver $fam failed"; exit 1; }
done
echo "setup: ok ($(find "$ROOT/coq/theories" -name '*.vo' | wc -l) .vo files, $(ls "$ROOT/build/bin" | wc -l) drivers)"
