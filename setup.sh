#!/bin/bash
# MANIFEST.setup_cmd: build everything that does not depend on /repo:
# the Coq development (full .vo build), the extracted models and their OCaml drivers.
# VERIF_SETUP_KEEP_GOING=1 (used by checks during development) builds what it can and
# leaves the rest to fail in the check that needs it.
set -uo pipefail
cd "$(dirname "$0")"
ROOT=$(pwd)
KEEP=${VERIF_SETUP_KEEP_GOING:-0}
mkdir -p build/extract build/bin replays evidence
exec 9> build/setup.flock
flock 9
fail=0
cd coq
{ echo "-Q theories JV"; find theories -name '*.v' ! -path 'theories/Extract/*' | sort; } > _CoqProject
coq_makefile -f _CoqProject -o Makefile > /dev/null
if [ "$KEEP" = 1 ]; then MK="-k"; else MK=""; fi
if ! timeout 3000 make $MK -j16 > "$ROOT/build/coq_make.log" 2>&1; then
  grep -B2 -A12 '^Error' "$ROOT/build/coq_make.log" | head -n 80
  echo "setup: Coq build failed (see build/coq_make.log)"; fail=1
  [ "$KEEP" = 1 ] || exit 1
fi
cd "$ROOT/build/extract"
for f in "$ROOT"/coq/theories/Extract/Extract_*.v; do
  b=$(basename "$f" .v); fam=${b#Extract_}
  d="$ROOT/ocaml/driver_$fam.ml"
  # skip when up to date
  if [ -x "$ROOT/build/bin/$fam" ] && [ "$ROOT/build/bin/$fam" -nt "$f" ] && [ "$ROOT/build/bin/$fam" -nt "$d" ] \
     && [ -z "$(find "$ROOT/coq/theories" -name '*.vo' -newer "$ROOT/build/bin/$fam" | head -n 1)" ]; then continue; fi
  cp "$f" "$b.v"
  if ! timeout 600 coqc -Q "$ROOT/coq/theories" JV "$b.v" > "$b.log" 2>&1; then
    tail -n 20 "$b.log"; echo "setup: extraction $b failed"; fail=1; [ "$KEEP" = 1 ] && continue || exit 1
  fi
  [ -f "$d" ] || { echo "setup: no driver for $fam"; fail=1; [ "$KEEP" = 1 ] && continue || exit 1; }
  cp "$d" "driver_$fam.ml"
  if ! timeout 600 ocamlfind ocamlopt -w -a -package str -linkpkg "${fam}_x.mli" "${fam}_x.ml" "driver_$fam.ml" -o "$ROOT/build/bin/$fam.tmp" > "build_$fam.log" 2>&1; then
    tail -n 20 "build_$fam.log"; echo "setup: driver $fam failed"; fail=1; [ "$KEEP" = 1 ] && continue || exit 1
  fi
  mv "$ROOT/build/bin/$fam.tmp" "$ROOT/build/bin/$fam"
done
if [ $fail = 0 ]; then date +%s > "$ROOT/build/setup.ok"; fi
echo "setup: $([ $fail = 0 ] && echo ok || echo INCOMPLETE) ($(find "$ROOT/coq/theories" -name '*.vo' | wc -l) .vo files, $(ls "$ROOT/build/bin" | grep -vc '\.tmp$') drivers)"
[ $fail = 0 ] || [ "$KEEP" = 1 ]
