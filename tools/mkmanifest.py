#!/usr/bin/env python3
"""Assemble /verif/MANIFEST.json from manifest.d/*.json fragments (one per claimed property)
and manifest.d/_not_applicable.json.  Run after adding / changing a fragment."""
import glob, json, os, subprocess, sys
ROOT = os.path.dirname(os.path.dirname(os.path.abspath(__file__)))
# only fragments that are tracked (or staged) in git are registered, so that a family still being
# built is never claimed; --all registers every fragment on disk
tracked = set(subprocess.run(["git", "-C", ROOT, "ls-files", "manifest.d"], capture_output=True, text=True).stdout.split())
ALL = "--all" in sys.argv
props = [json.loads(l)["id"] for l in open(os.path.join(ROOT, "properties.jsonl"))]
checks = []
claimed = set()
for f in sorted(glob.glob(os.path.join(ROOT, "manifest.d", "C*.json"))):
    if not ALL and os.path.relpath(f, ROOT) not in tracked:
        continue
    fr = json.load(open(f))
    pid = fr["property_id"]
    claimed.add(pid)
    checks.append({
        "property_id": pid,
        "quick_cmd": f"./check {pid} --tier quick",
        "thorough_cmd": f"./check {pid} --tier thorough",
        "evidence_file": f"/verif/evidence/{pid}.json",
        "replay_cmd_template": f"./check {pid} --replay {{path}}",
        "engine": "coq-model+correspondence",
        "level_claimed": {"category": "proof", "text": fr["level_text"], "design_ref": fr.get("design_ref", "DESIGN.md §6 " + pid)},
        "level_note": fr["level_note"],
        "technique": fr["technique"],
    })
na_file = os.path.join(ROOT, "manifest.d", "_not_applicable.json")
na = json.load(open(na_file)) if os.path.exists(na_file) else {}
not_applicable = []
for p in props:
    if p not in claimed:
        not_applicable.append({"property_id": p, "reason": na.get(p, "not yet built in this round: model, theorems and tie for this property are not finished, so it is not claimed (see DESIGN.md §10)")})
m = {
    "version": 1,
    "setup_cmd": "./setup.sh",
    "hooks": {
        "guard": "PALLETS_JINJA_VERIF",
        "enable": "checks run /repo's working tree with PYTHONPATH=/repo/src and PALLETS_JINJA_VERIF=1; no source hooks are installed (all observation is from outside: public APIs, sys.settrace, audit/asyncgen hooks)",
        "baseline_off_cmd": "cd /repo && env -u PALLETS_JINJA_VERIF /venv/bin/python -m pytest -ra -q -p no:cacheprovider --timeout=900 --continue-on-collection-errors",
        "source_commits": [],
        "add_only": True,
    },
    "engines": [{
        "name": "coq-model+correspondence",
        "path": "/verif/coq, /verif/harness, /verif/ocaml, /verif/gen",
        "serves_properties": sorted(claimed),
        "kind_free_text": "Gallina models + theorems (Coq 8.16.1), extracted to OCaml and run against /repo's implementation on the same inputs (correspondence), regenerated facts from source (translators), spec-as-oracle on the real engine",
    }],
    "checks": checks,
    "not_applicable": not_applicable,
    "notes": "See DESIGN.md. KNOWN_FINDINGS.json lists recorded genuine defects (status known) and repaired ones (status fixed).",
}
json.dump(m, open(os.path.join(ROOT, "MANIFEST.json"), "w"), indent=1)
print(f"MANIFEST.json: {len(checks)} checks, {len(not_applicable)} not claimed")
