#!/bin/bash
# import second-generation seeded changes (/tmp/seeded2/<prop>_c|_d) as seeded/<prop>_e|_f
cd /verif
for d in /tmp/seeded2/C*_[cd]; do
  [ -f "$d/patch.diff" ] && [ -f "$d/meta.json" ] || continue
  id=$(basename $d); prop=${id%_*}; suf=${id##*_}
  new=${prop}_$( [ $suf = c ] && echo e || echo f )
  [ -d seeded/$new ] && continue
  mkdir -p seeded/$new && cp $d/patch.diff $d/demo.py seeded/$new/ 2>/dev/null
  python3 - "$d/meta.json" "seeded/$new/meta.json" "$new" "$prop" <<'PY'
import json,sys
m=json.load(open(sys.argv[1])); m['id']=sys.argv[3]; m['property']=sys.argv[4]; m['generation']=2
json.dump(m,open(sys.argv[2],'w'),indent=1,ensure_ascii=False)
PY
  echo imported $new
done
