#!/bin/bash
# stranger's audit of the Coq development: forbidden declarations / switches
cd "$(dirname "$0")/../coq/theories"
echo "== forbidden words (comments stripped) =="
python3 - <<'PY'
import re, os, sys
bad = re.compile(r"\b(Admitted|admit|Axiom|Axioms|Parameter|Parameters|Conjecture|Abort All)\b|Unset Guard|bypass_check|type-in-type|Admit Obligations|Unset Universe Checking|Unset Positivity")
n = 0
for d, _, fs in os.walk("."):
    for f in fs:
        if f.endswith(".v"):
            txt = open(os.path.join(d, f)).read()
            txt = re.sub(r"\(\*.*?\*\)", lambda m: "\n" * m.group(0).count("\n"), txt, flags=re.S)
            # Variable / Hypothesis outside a Section
            depth = 0
            for i, line in enumerate(txt.split("\n"), 1):
                if re.match(r"\s*Section\b", line): depth += 1
                if re.match(r"\s*End\b", line) and depth > 0: depth -= 1
                if bad.search(line):
                    print(f"{d}/{f}:{i}: {line.strip()}"); n += 1
                if depth == 0 and re.match(r"\s*(Variable|Variables|Hypothesis|Hypotheses|Context)\b", line):
                    print(f"{d}/{f}:{i}: outside section: {line.strip()}"); n += 1
print("findings:", n)
sys.exit(1 if n else 0)
PY
