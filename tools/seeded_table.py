#!/usr/bin/env python3
"""Maintain seeded/results.json (first and latest result of running each seeded change against its
property's check) and regenerate seeded/README.md.  usage: seeded_table.py [results-file ...]
where a results file has lines '<id> exit=<rc> <kind>' (kind: failing-input | no-input | -)."""
import json, os, sys, glob
ROOT = os.path.dirname(os.path.dirname(os.path.abspath(__file__)))
rj = os.path.join(ROOT, "seeded", "results.json")
res = json.load(open(rj)) if os.path.exists(rj) else {}
def verdict(rc, kind):
    if rc == "exit=1" and kind == "failing-input": return "caught (failing input)"
    if rc == "exit=1" and kind == "no-input": return "caught (no-failing-input-found)"
    if rc == "exit=1": return "caught (kind not recorded)"
    if rc == "exit=0": return "MISSED"
    return "not run (" + rc + ")"
for f in sys.argv[1:]:
    for ln in open(f):
        p = ln.split()
        if len(p) < 3 or not p[1].startswith("exit="): continue
        v = verdict(p[1], p[2])
        e = res.setdefault(p[0], {})
        e.setdefault("first", v)
        e["now"] = v
json.dump(res, open(rj, "w"), indent=1, sort_keys=True)
fj = os.path.join(ROOT, "seeded", "fired.json")
fired = json.load(open(fj)) if os.path.exists(fj) else {}
rows = []
for d in sorted(glob.glob(os.path.join(ROOT, "seeded", "C*_[a-z]"))):
    i = os.path.basename(d)
    try: m = json.load(open(os.path.join(d, "meta.json")))
    except Exception: continue
    e = res.get(i, {})
    rows.append(f"| {i} | {m.get('property','')} | {str(m.get('summary','')).replace('|','/')[:160]} | {str(m.get('needs','')).replace('|','/')[:200]} | {e.get('first','-')} | {e.get('now','-')} | {str(fired.get(i,'-')).replace('|','/')[:260]} |")
notes = ""
nf = os.path.join(ROOT, "seeded", "NOTES.md")
if os.path.exists(nf): notes = open(nf).read()
open(os.path.join(ROOT, "seeded", "README.md"), "w").write(f"""# Seeded changes (independent breaker agents; each breaks one property, keeps the 911 tests green)

Each directory holds `patch.diff` (applies to /repo HEAD at the time of the last rebase), `demo.py` (PASS on the
unchanged tree, FAIL on the changed one) and `meta.json`.  `tools/run_seeded.sh [--scratch] <id>` applies the patch,
runs the property's check and undoes the patch.  *first* = what the check said when the change was first tried,
*now* = latest run (after the check was strengthened where it had missed); the last column is extracted from the log
of the last run (`seeded/fired.json`): how many proof / regenerated obligations still checked, which tie broke, and the
first failing input's description.  `results.json` is the machine-readable form.

| id | property | change | needs to manifest | first | now | what fired in the last run (proof obligation / tie / oracle input) |
|---|---|---|---|---|---|---|
""" + "\n".join(rows) + "\n\n" + notes)
print(len(rows), "rows")
