#!/usr/bin/env python3
"""Rewrite the generated status block of DESIGN.md (between the BEGIN/END markers) from
manifest.d/*.json, known_findings*.json and seeded/results.json."""
import glob, json, os, re
ROOT = os.path.dirname(os.path.dirname(os.path.abspath(__file__)))
frs = {json.load(open(f))["property_id"]: json.load(open(f)) for f in glob.glob(os.path.join(ROOT, "manifest.d", "C*.json"))}
finds = []
for f in [os.path.join(ROOT, "KNOWN_FINDINGS.json")] + sorted(glob.glob(os.path.join(ROOT, "known_findings.d", "*.json"))):
    finds += json.load(open(f))["findings"]
seeded = json.load(open(os.path.join(ROOT, "seeded", "results.json"))) if os.path.exists(os.path.join(ROOT, "seeded", "results.json")) else {}
out = ["<!-- BEGIN GENERATED STATUS (tools/mkdesign_status.py) -->", "",
       "### 12.5 Per-property status (generated from manifest.d, known findings and seeded/results.json)", "",
       "| prop | deciding technique (short) | fixed defects | known findings | seeded: caught / total (first run → now) |",
       "|---|---|---|---|---|"]
for p in sorted(frs):
    fx = [x["id"] for x in finds if x["property"] == p and x.get("status") == "fixed"]
    kn = [x["id"] for x in finds if x["property"] == p and x.get("status") == "known"]
    s = {k: v for k, v in seeded.items() if k.startswith(p + "_")}
    first = sum(1 for v in s.values() if v.get("first", "").startswith("caught"))
    now = sum(1 for v in s.values() if v.get("now", "").startswith("caught"))
    tech = frs[p]["technique"].replace("|", "/")
    out.append(f"| {p} | {tech[:230]} | {len(fx)} | {', '.join(kn) or '—'} | {first}/{len(s)} → {now}/{len(s)} |")
out += ["", f"Totals: {len(frs)} properties claimed; {sum(1 for x in finds if x.get('status')=='fixed')} defects repaired by `fix:` commits, "
        f"{sum(1 for x in finds if x.get('status')=='known')} recorded as known; {len(seeded)} seeded changes, "
        f"{sum(1 for v in seeded.values() if v.get('first','').startswith('caught'))} caught on first run, "
        f"{sum(1 for v in seeded.values() if v.get('now','').startswith('caught'))} caught now.", "",
        "<!-- END GENERATED STATUS -->"]
p = os.path.join(ROOT, "DESIGN.md")
s = open(p).read()
blk = "\n".join(out)
if "<!-- BEGIN GENERATED STATUS" in s:
    s = re.sub(r"<!-- BEGIN GENERATED STATUS.*?<!-- END GENERATED STATUS -->", lambda m: blk, s, flags=re.S)
else:
    s = s.rstrip("\n") + "\n\n" + blk + "\n"
open(p, "w").write(s)
print("status block written:", len(frs), "properties")
