#!/bin/bash
# tools/run_seeded.sh <seeded-id> [tier]  — apply seeded/<id>/patch.diff to /repo, run the property's
# check, undo the patch.  Refuses to run when /repo has uncommitted changes.
set -u
cd "$(dirname "$0")/.."
id=$1; tier=${2:-quick}
d=seeded/$id
prop=$(python3 -c "import json;print(json.load(open('$d/meta.json'))['property'])")
if [ -n "$(git -C /repo status --porcelain)" ]; then echo "/repo is not clean"; exit 3; fi
git -C /repo apply "$d/patch.diff" || { echo "patch does not apply"; exit 3; }
trap 'git -C /repo checkout -- . ; git -C /repo clean -fdq -- src' EXIT
./check "$prop" --tier "$tier" > "build/seeded_$id.log" 2>&1
rc=$?
grep -E "^(VIOLATION|KNOWN-FINDING|\[$prop\])" "build/seeded_$id.log" | cut -c1-220
echo "seeded $id property=$prop exit=$rc"
exit $rc
