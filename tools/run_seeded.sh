#!/bin/bash
# tools/run_seeded.sh [--scratch] <seeded-id> [tier]
#   default: apply seeded/<id>/patch.diff to /repo, run the property's check, undo the patch
#            (refuses when /repo has uncommitted changes);
#   --scratch: apply it to a throw-away worktree of /repo's HEAD and run the check with
#            VERIF_REPO pointing there (development, does not disturb other users of /repo).
set -u
cd "$(dirname "$0")/.."
scratch=0; if [ "$1" = "--scratch" ]; then scratch=1; shift; fi
id=$1; tier=${2:-quick}
d=$(pwd)/seeded/$id
prop=$(python3 -c "import json;print(json.load(open('$d/meta.json'))['property'])")
if [ $scratch = 1 ]; then
  wt=/tmp/seedrun_$id
  git -C /repo worktree remove --force "$wt" 2>/dev/null
  git -C /repo worktree add --detach "$wt" HEAD -q || exit 3
  trap 'git -C /repo worktree remove --force "$wt"' EXIT
  git -C "$wt" apply "$d/patch.diff" || { echo "patch does not apply"; exit 3; }
  VERIF_REPO=$wt ./check "$prop" --tier "$tier" > "build/seeded_$id.log" 2>&1
  rc=$?
else
  if [ -n "$(git -C /repo status --porcelain)" ]; then echo "/repo is not clean"; exit 3; fi
  git -C /repo apply "$d/patch.diff" || { echo "patch does not apply"; exit 3; }
  trap 'git -C /repo checkout -- . ; git -C /repo clean -fdq -- src' EXIT
  ./check "$prop" --tier "$tier" > "build/seeded_$id.log" 2>&1
  rc=$?
fi
grep -E "^(VIOLATION|KNOWN-FINDING|\[$prop\])" "build/seeded_$id.log" | cut -c1-220
echo "seeded $id property=$prop exit=$rc"
exit $rc
