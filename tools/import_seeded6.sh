#!/bin/bash
# import sixth-generation seeded changes (/tmp/seeded6/<prop>_g|_h|_i) as seeded/<same id>
cd /verif
for d in /tmp/seeded6/C*_[pq]; do
  [ -f "$d/patch.diff" ] && [ -f "$d/meta.json" ] || continue
  id=$(basename $d); prop=${id%_*}
  [ -d seeded/$id ] && continue
  mkdir -p seeded/$id && cp $d/patch.diff $d/demo.py seeded/$id/ 2>/dev/null
  python3 - "$d/meta.json" "seeded/$id/meta.json" "$id" "$prop" <<'PY'
import json,sys
m=json.load(open(sys.argv[1])); m['id']=sys.argv[3]; m['property']=sys.argv[4]; m['generation']=6
json.dump(m,open(sys.argv[2],'w'),indent=1,ensure_ascii=False)
PY
  echo imported $id
done
