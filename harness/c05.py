"""C05 — include and import honour the documented context visibility.

proof : Properties/C05.v (include_visibility, import_visibility, render_equiv, module_equiv, module_exports_exact,
        ignore_missing_scope, select_first_existing)
tie   : T5   gen/imp_translate.py: source of new_context / _get_default_module = Model/Imp (via Lib/PyImp)
        K-rt extracted Model.Imp.render / module_of == Template.render / Template.module of generated
        template sets (DictLoader), output or exception class, exported names and values;
oracle: extracted Spec.ImpSpec.spec_render / spec_module (visibility as lookup order, first existing
        name, last-binder export rule) vs the real engine.
"""
from . import lib
from . import imp_gen as G

RULE = ("random template sets of 2-4 templates: include (single name / list / Template object; with, without, default "
        "context; ignore missing; missing names), import and from-import (aliases, with / without context, missing "
        "names, nested through included and imported templates, cycles), top-level set / macro / private names, "
        "locals from for loops, with blocks and private macros called in place, environment / main-template / "
        "per-template globals, data shadowing globals and later-assigned names; plus an enumerated family (scope handed "
        "to a target before / after an assignment x 4 scope kinds x 5 statement kinds x 3 data shapes; include lists "
        "with partially loaded candidates); each set is rendered and the module of every template is "
        "read. distinct = driver line; non-trivial = at least one include or import that resolves and at least one "
        "probe inside a target template.")
KNOWN_SIG = "C05:import-globals-read-from-context-parent"


def parse(line):
    parts = {}
    for p in line.split(" | "):
        k, _, v = p.partition(" ")
        parts[k] = v
    return parts


def show(r):
    if r.startswith("O "):
        body = r[2:]
        if " ; " in body:
            o, ex = body.split(" ; ")
            return repr(G.dec_str(o)) + " exports{" + ex + "}"
        return repr(G.dec_str(body))
    return r


def count_kinds(ctx, ss, seen):
    for s in ss:
        k = {"i": "include", "I": "import", "F": "from-import", "S": "scope-" + (s[1] if s[0] == "S" else ""), "X": "extends",
             "s": "set", "T": "tuple-set", "m": "macro", "p": "probe", "a": "probe-attr", "o": "text"}[s[0]]
        seen.add(k)
        if s[0] == "i":
            seen.add("include-" + {None: "default", True: "with", False: "without"}[s[3]])
            if s[2]:
                seen.add("include-list")
            if s[4]:
                seen.add("ignore-missing")
            if any(t[0] == "o" for t in s[1]):
                seen.add("template-object")
        if s[0] in ("I", "F"):
            seen.add("import-" + {None: "default", True: "with", False: "without"}[s[3]])
        if s[0] == "S":
            count_kinds(ctx, s[4], seen)
        if s[0] == "i" and s[2] in ("var", "tuple"):
            seen.add("include-list-" + s[2])


def judge(ctx, case, ml, real, nontriv, key):
    p = parse(ml)
    m, s, x, k = p["M"], p["S"], p["X"], p.get("K", "-")
    ctx.case(sample=dict(case, engine=show(real)) if nontriv else None, key=key if nontriv else None)
    ctx.count("result:" + (real.split(" ")[1] if real.startswith("E ") else "ok" if real.startswith("O ") else "other"))
    if m != s and "C05 theorem render_equiv / module_equiv contradicted by extracted code" not in ctx.broken:
        ctx.broken.append("C05 theorem render_equiv / module_equiv contradicted by extracted code")
    if x != "1" and "C05 theorem module_exports_exact contradicted by extracted code" not in ctx.broken:
        ctx.broken.append("C05 theorem module_exports_exact contradicted by extracted code")
    if real != s:
        what = f"the engine gives {show(real)} but the documented visibility rules give {show(s)} (model: {show(m)})"
        sig = KNOWN_SIG if (k != "-" and real == k) else None
        if real != m:
            ctx.model_mismatch("K-rt include/import", case, m, real, what, sig)
        else:
            ctx.reject(case, what, sig)
        return
    if real != m:
        ctx.model_mismatch("K-rt include/import", case, m, real, None)
        return
    ctx.validated()


def run_sets(ctx, jinja2, sets):
    lines, metas = [], []
    for ts in sets:
        srcs = G.sources(ts)
        lines.append(G.model_line(ts, "r"))
        metas.append((ts, srcs, "r", None))
        for n in ts["templates"]:
            if n == ts["main"] and (ts.get("objects") or ts.get("lists") or ts.get("names")):
                continue        # Template objects travel in the render data, which .module does not get
            lines.append(G.model_line(ts, "m", main=n))
            metas.append((ts, srcs, "m", n))
    out = ctx.driver("imp", lines)
    for idx, ((ts, srcs, mode, n), line, ml) in enumerate(zip(metas, lines, out)):
        # configuration axes the property does not exclude (the model is configuration independent), sampled
        kind = G.ENV_KINDS[(idx // 5) % len(G.ENV_KINDS)] if idx % 5 == 3 else "plain"
        if mode == "m" and "async" in kind:
            kind = "autoescape"        # Template.module is not available in async mode
        seen = set()
        for t in ts["templates"].values():
            count_kinds(ctx, t["body"], seen)
        if mode == "r":
            for kd in seen:
                ctx.count(kd)
            real = G.real_render(jinja2, ts, env=G.make_env(jinja2, ts, srcs, kind=kind), history=(idx % 3 == 1) or (idx % 2 == 0 and any(t["globals"] for t in ts["templates"].values())))
            ctx.count("env:" + kind)
        else:
            real = G.real_module(jinja2, ts, n, env=G.make_env(jinja2, ts, srcs, kind=kind))
        case = {"sources": srcs, "main": ts["main"] if mode == "r" else n, "mode": mode, "data": ts["data"],
                "env_globals": ts["env_globals"], "objects": ts.get("objects", []), "lists": ts.get("lists", {}), "list_kinds": ts.get("list_kinds", {}), "names": ts.get("names", []),
                "template_globals": {k: t["globals"] for k, t in ts["templates"].items()}, "model_line": line}
        nontriv = ({"include", "import", "from-import"} & seen) and real.startswith("O ") and len(real) > 8
        judge(ctx, case, ml, real, bool(nontriv), line)


def translator_tie(ctx, module, name, n):
    """regenerate the source = model equations from the current source and compile them"""
    import importlib
    import os
    import sys
    sys.path.insert(0, os.path.join(lib.ROOT, "gen"))
    tr = importlib.import_module(module)
    try:
        vtext = tr.emit(lib.SRC)
    except tr.Untranslatable as e:
        ctx.broken.append(f"translator gen/{module}.py: the source left the translatable vocabulary: {e}")
        return
    ok, out = ctx.coq_obligation(name, vtext, n_obligations=n)
    if ok:
        ctx.trusted.append(f"{name} (source = model equations): " + " ".join(out.split()))


def run(ctx):
    jinja2 = lib.use_repo_jinja()
    ctx.extra["rule"] = RULE
    ctx.assumptions += [
        "values are strings, constant macros, modules and Undefined; probes print a variable canonically "
        "(undefined '?', string itself, macro 'M'+its output, other '#')",
        "the generator never reads a name before a later assignment to it in an enclosing scope of the same template "
        "(that engine behaviour belongs to C03, not to C05)",
        "the default-module cache is transparent: a module's render depends only on the template's globals "
        "(staleness of that cache after globals change is C25)",
        "top-level frame locals coincide with context.vars (visit_Assign stores both)",
    ]
    ctx.proof("C05")
    # translator tie: the current source of runtime.new_context and Template._get_default_module, as terms of
    # Lib/PyImp, equals the reference results that Lib/PyImp proves equal to Model/Imp's functions
    translator_tie(ctx, "imp_translate", "Gen_imp", 2)
    # ... and of Environment.get_or_select_template's dispatch on the kind of its argument (exact str, str subclass,
    # Markup, Undefined, Template, list, tuple): decision list = model, checked for every kind
    import importlib
    import os as _os
    import sys as _sys
    _sys.path.insert(0, _os.path.join(lib.ROOT, "gen"))
    _tr = importlib.import_module("imp_translate")
    try:
        ok, out = ctx.coq_obligation("Gen_imp_dispatch", _tr.emit_dispatch(lib.SRC), n_obligations=1)
        if ok:
            ctx.trusted.append("Gen_imp_dispatch: " + " ".join(out.split()))
    except _tr.Untranslatable as e:
        ctx.broken.append(f"translator gen/imp_translate.py (dispatch): the source left the translatable vocabulary: {e}")
    g = G.IGen(ctx.rng)
    n = ctx.size(420, 8000)
    B = 2000
    for i in range(0, n, B):
        run_sets(ctx, jinja2, [g.tset() for _ in range(min(B, n - i))])
    # small-scope families: scope handed on before / after an assignment in every scope kind; include lists whose
    # later candidate is already loaded
    run_sets(ctx, jinja2, G.directed_sets())
    reentrancy_stream(ctx, jinja2)
    shared_globals_probe(ctx, jinja2)
    # the repaired finding C05-import-globals-from-parent, minimal form, as a regression case
    ts = {"templates": {"main": {"globals": {"mg": "MG"}, "body": [("I", ("n", "t1"), "m1", None), ("a", "m1", "a")]},
                        "t1": {"globals": {}, "body": [("s", "a", ("v", "mg"))]}},
          "main": "main", "data": {"mg": "DMG"}, "env_globals": {"g": "G"}, "objects": []}
    run_sets(ctx, jinja2, [ts])


def shared_globals_probe(ctx, jinja2):
    """IDENTITY: ONE dict handed as globals= to two templates; a later cache hit that updates the globals of the first must
    neither become visible in the second (directly, in its default module, in what it imports) nor modify the caller's dict"""
    srcs = {"a": "a:{{ k|default('-') }}", "b": "b:{{ k|default('-') }}|{% import 'lib' as l %}{{ l.v }}|{% include 'a2' without context %}",
            "lib": "{% set v = k|default('-') %}", "a2": "{{ k|default('-') }}"}
    for how in ("get_template", "from_string"):
        env = jinja2.Environment(loader=jinja2.DictLoader(srcs))
        G = {"z": 1}
        try:
            ta = env.get_template("a", globals=G)
            tb = env.get_template("b", globals=G) if how == "get_template" else env.from_string(srcs["b"], globals=G)
            env.get_template("a", globals={"k": "LEAK"})
            got = (ta.render(), tb.render(), dict(G))
        except Exception as e:  # noqa
            got = ("X:" + type(e).__name__,)
        want = ("a:LEAK", "b:-|-|-", {"z": 1})
        ctx.case()
        ctx.count("probe-shared-globals-dict")
        if got != want:
            ctx.reject({"shared_globals": how, "sources": srcs, "got": [str(x) for x in got]},
                       f"one globals dict shared by two templates ({how}): after updating the first template's globals the "
                       f"engine gives {got!r}, expected {want!r}", "C05:globals-dict-aliased-between-templates")
        else:
            ctx.validated()


def reentrancy_stream(ctx, jinja2):
    """REENTRANCY: a template whose default module is being built includes / imports itself (or a partner that includes
    it back) without context; the recursion is ended by a global counter callable, which is outside the Coq model's value
    universe - so the expected text comes from a direct reference (each include / import without context renders the
    target afresh with only globals: level n contains level n+1)"""
    def ref_include(n, limit):
        return "[%d%s%d]" % (n, ref_include(n + 1, limit) if n < limit else "", n)

    def ref_import(n, limit):
        return ("%d" % (n + 1) if n < limit else "") + "<%d>" % n

    for limit in (1, 2, 3, 4, 6):
        shapes = {
            "self-include": ({"a": "[{% set n = tick() %}{{ n }}{% if n < limit %}{% include 'a' without context %}{% endif %}{{ n }}]"},
                             ref_include(1, limit)),
            "mutual-include": ({"a": "[{% set n = tick() %}{{ n }}{% if n < limit %}{% include 'b' without context %}{% endif %}{{ n }}]",
                                "b": "[{% set n = tick() %}{{ n }}{% if n < limit %}{% include ['nope', 'a'] without context %}{% endif %}{{ n }}]"},
                               ref_include(1, limit)),
            "self-import": ({"a": "{% set n = tick() %}{% if n < limit %}{% import 'a' as m %}{{ m.n }}{% endif %}<{{ n }}>"},
                            ref_import(1, limit)),
            "self-from-import": ({"a": "{% set n = tick() %}{% if n < limit %}{% from 'a' import n as k %}{{ k }}{% endif %}<{{ n }}>"},
                                 ref_import(1, limit)),
            "mutual-import": ({"a": "{% set n = tick() %}{% if n < limit %}{% import 'b' as m %}{{ m.n }}{% endif %}<{{ n }}>",
                               "b": "{% set n = tick() %}{% if n < limit %}{% import 'a' as m %}{{ m.n }}{% endif %}<{{ n }}>"},
                              ref_import(1, limit)),
        }
        for shape, (srcs, want) in shapes.items():
            for kind in ("plain", "async"):
                env = jinja2.Environment(loader=jinja2.DictLoader(srcs), enable_async=kind == "async")
                counter = [0]

                def tick():
                    counter[0] += 1
                    return counter[0]
                env.globals.update(tick=tick, limit=limit)
                try:
                    got = env.get_template("a").render()
                except Exception as e:  # noqa
                    got = "X:" + type(e).__name__ + ":" + str(e)[:60]
                ctx.case(sample={"sources": srcs, "limit": limit, "render": got} if limit == 3 and kind == "plain" else None,
                         key=("reentrant", shape, limit, kind) if limit > 1 else None)
                ctx.count("reentrant:" + shape)
                if got != want:
                    ctx.reject({"reentrant": shape, "sources": srcs, "limit": limit, "env": kind},
                               f"reentrant {shape} (limit {limit}, {kind}): the engine gives {got!r}, each level rendered "
                               f"afresh gives {want!r}", None)
                else:
                    ctx.validated()


def replay(ctx, data):
    jinja2 = lib.use_repo_jinja()
    case = data.get("case")
    if data.get("kind") != "failing-input" or case is None:
        print("replay: this file names a broken theorem/correspondence, not an input:", data.get("broken"))
        return run(ctx)
    if "shared_globals" in case:
        print("replay: re-running the shared globals dict probe")
        shared_globals_probe(ctx, jinja2)
        return
    if "reentrant" in case:
        print("replay: reentrancy cases are re-run as a family")
        reentrancy_stream(ctx, jinja2)
        return
    ts = {"templates": {n: {"globals": case["template_globals"].get(n, {}), "body": []} for n in case["sources"]},
          "main": case["main"], "data": case["data"], "env_globals": case["env_globals"], "objects": case["objects"],
          "lists": {k: [tuple(t) for t in v] for k, v in case.get("lists", {}).items()},
          "names": [tuple(x) for x in case.get("names", [])], "list_kinds": case.get("list_kinds", {})}
    env = G.make_env(jinja2, ts, case["sources"])
    real = G.real_render(jinja2, ts, env=env) if case["mode"] == "r" else G.real_module(jinja2, ts, case["main"], env=env)
    p = parse(ctx.driver("imp", [case["model_line"]])[0])
    for n, src in case["sources"].items():
        print(f"  {n}: {src}")
    print("data:", case["data"], "globals:", case["env_globals"], case["template_globals"])
    print("engine:", show(real), "\nspec  :", show(p["S"]), "\nmodel :", show(p["M"]))
    if real != p["S"]:
        ctx.reject(case, f"the engine gives {show(real)} but the documented visibility rules give {show(p['S'])}",
                   KNOWN_SIG if real == p.get("K") else None)
