"""C07 — the loop variable reports correct iteration state for every iterable.

proof:  Properties/C07.v (loop_refines: LoopContext state machine == documented loop variable for
        every item list, sized or not, every query script; lookahead_transparent; the
        consumed ++ look-ahead ++ remaining invariant over all reachable states; else_iff_empty;
        recursive_depth)
tie  :  K-gen trace: a CodeGenerator subclass records the frame operations and control lines visit_For
        performs (harness/c07_trace.py) for generated loops in every context; the trace must equal the
        extracted Model.LoopGen.for_trace, about which Properties/C07gen.v proves the indicator / body /
        else-frame / frame-order / extended-loop / async-filter properties for all 256 configurations;
        T5 translator: gen/loop_translate.py turns the current source of index, first, depth, length,
        _peek_next, __next__/__anext__, last, nextitem, previtem, revindex0, revindex, changed, cycle of
        LoopContext and of the overriding members of AsyncLoopContext into terms of Lib/PyLoop; the
        generated Gen_loop.v proves  interpreted source = model function  for every state and kind;
        K-rt drives the real classes directly — LoopContext(iterable, undefined, recurse, depth0)
        and AsyncLoopContext under asyncio — and compiled templates (sync and async, with and
        without loop filter / else / recursive) with the same scripts, over list / tuple /
        iterator / generator / async iterable, and compares every answer of every iteration with
        the extracted model run_for / rec_forest.
oracle: extracted Spec.LoopSpec.spec / levels on the real answers.
"""
import asyncio
import itertools

from . import lib

RULE = ("scripts = per-iteration sequences of queries. exhaustive over the alphabet {length, nextitem, previtem, last, "
        "revindex, changed(item)}: every script with up to q(n) queries per iteration for n items "
        "(quick: n=1:3, n=2:2, n=3:1, n=4:1; thorough: n=1:3, n=2:3, n=3:2, n=4:1, n=5:1, n=6:1), plus random scripts "
        "(<= 3 queries per iteration, 0..6 items with repeats) over the full alphabet (index, index0, revindex0, first, "
        "cycle incl. no arguments, changed(const), depth, depth0); each script driven on LoopContext x {list, tuple, "
        "iterator, generator} and AsyncLoopContext x {list, tuple, iterator, generator, async generator}; a sample "
        "rendered through compiled templates (sync/async, loop filter, else, depth), through nested loops whose outer "
        "loop variable is mentioned only in the inner loop's iterable / filter test / else branch, through templates with loop "
        "controls (continue / break after the queries of random iterations, or unconditionally in a body that never "
        "mentions `loop`; with else and loop filter) and recursive loops over random forests. distinct = (iterable kind, items, script); non-trivial = an unsized iterable with a look-ahead query "
        "before a length query (or the reverse) in one iteration.")

ALPHA6 = ["L", "N", "P", "T", "R", "Cx"]
FULL = ALPHA6 + ["I", "J", "r", "F", "Y1", "Y2", "Y3", "Y0", "C55", "C-", "C7_8", "D", "d"]
LOOKAHEAD, LENGTH = {"N", "T"}, {"L", "R", "r"}


class Plain:
    """a user object without __eq__ / __len__ (truthy, compared by identity)"""
    def __repr__(self):
        return "<Plain>"


class Pos:
    """second component of the pairs a loop with an unpacking target `for x, u_ in xs` iterates over"""
    def __init__(self, k):
        self.k = k


def Pair(t):
    return (t[0], Pos(t[1]))


class SubStr(str):
    """a str subclass"""


PLAIN = Plain()


def item_classes():
    """model item id -> Python values that are equal to each other (==) and to nothing in another class;
    odd ids are truthy, even ids falsy (the loop filters of the templates are `if x` / `if not x`)"""
    from markupsafe import Markup
    return {1: [1, True, 1.0], 3: ["a", Markup("a"), SubStr("a")], 5: [(1, 2), (True, 2.0)], 7: [PLAIN],
            2: [None], 4: [0, False, 0.0], 6: ["", Markup(""), SubStr("")], 8: [(), ()]}


ITEM_CLASSES = None


def reify(ids):
    """the Python items of a case: a deterministic member of each id's class, varying with the position"""
    global ITEM_CLASSES
    if ITEM_CLASSES is None:
        ITEM_CLASSES = item_classes()
    out = []
    for pos, i in enumerate(ids):
        members = ITEM_CLASSES[i]
        out.append(members[(pos + i) % len(members)])
    return out


def id_of(v):
    global ITEM_CLASSES
    if ITEM_CLASSES is None:
        ITEM_CLASSES = item_classes()
    for i, members in ITEM_CLASSES.items():
        for m in members:
            if v is m:
                return i
    for i, members in ITEM_CLASSES.items():
        for m in members:
            try:
                if type(v) in (type(m), bool, int, float, str) or isinstance(v, type(m)):
                    if v == m and (isinstance(v, (int, float)) == isinstance(m, (int, float))):
                        return i
            except Exception:  # noqa
                pass
    return None


class Canon:
    def __init__(self, jinja2):
        from jinja2.runtime import Undefined
        self.Undefined = Undefined

    def a(self, v):
        if isinstance(v, self.Undefined):
            h = v._undefined_hint
            return {"there is no previous item": "Up", "there is no next item": "Un"}.get(h, f"U?{h}")
        if isinstance(v, bool):
            return "bT" if v else "bF"
        if isinstance(v, int):
            return f"n{v}"
        return "?" + type(v).__name__

    def item(self, v):
        if isinstance(v, self.Undefined):
            return self.a(v)
        if isinstance(v, tuple) and len(v) == 2 and isinstance(v[1], Pos):
            v = v[0]
        k = id_of(v)
        if k is not None:
            return f"v{k}"
        return f"v{v}" if isinstance(v, int) else "?" + type(v).__name__

    def iid(self, v):
        k = id_of(v)
        return str(k) if k is not None else "?" + type(v).__name__


def ask_sync(cn, loop, q, item):
    try:
        c = q[0]
        if c == "L":
            return cn.a(loop.length)
        if c == "I":
            return cn.a(loop.index0)
        if c == "J":
            return cn.a(loop.index)
        if c == "R":
            return cn.a(loop.revindex)
        if c == "r":
            return cn.a(loop.revindex0)
        if c == "F":
            return cn.a(loop.first)
        if c == "T":
            return cn.a(loop.last)
        if c == "P":
            return cn.item(loop.previtem)
        if c == "N":
            return cn.item(loop.nextitem)
        if c == "Y":
            return cn.item(loop.cycle(*range(101, 101 + int(q[1:]))))
        if c == "C":
            if q == "Cx":
                return cn.a(loop.changed(item))
            return cn.a(loop.changed(*([] if q == "C-" else [int(v) for v in q[1:].split("_")])))
        if c == "D":
            return cn.a(loop.depth)
        if c == "d":
            return cn.a(loop.depth0)
    except TypeError:
        return "eT"
    except Exception as e:  # noqa
        return "X:" + type(e).__name__
    return "?"


async def ask_async(cn, loop, q, item):
    try:
        c = q[0]
        if c == "L":
            return cn.a(await loop.length)
        if c == "R":
            return cn.a(await loop.revindex)
        if c == "r":
            return cn.a(await loop.revindex0)
        if c == "T":
            return cn.a(await loop.last)
        if c == "N":
            return cn.item(await loop.nextitem)
    except TypeError:
        return "eT"
    except Exception as e:  # noqa
        return "X:" + type(e).__name__
    return ask_sync(cn, loop, q, item)


def gen_of(xs):
    for x in xs:
        yield x


async def agen_of(xs):
    for x in xs:
        yield x


class AIterOnly:
    """an async iterable that is not its own iterator: __aiter__ returns a fresh async generator, no __anext__"""
    def __init__(self, xs):
        self.xs = xs

    def __aiter__(self):
        return agen_of(self.xs)


class Hinted:
    """a one-shot iterator without __len__ whose __length_hint__ is an estimate (PEP 424 allows over- and
    under-estimates): database cursors, paginated results"""
    def __init__(self, xs):
        self.it = iter(list(xs))
        self.n = len(xs)

    def __iter__(self):
        return self

    def __next__(self):
        return next(self.it)

    def __length_hint__(self):
        return 1 if self.n != 1 else 3


class OnlyIter:
    def __init__(self, xs):
        self.xs = xs

    def __iter__(self):
        return iter(self.xs)


MAKE = {"list": list, "tuple": tuple, "iter": lambda xs: iter(list(xs)), "gen": gen_of, "agen": agen_of,
        "onlyiter": OnlyIter, "aiterable": AIterOnly, "hinted": Hinted}
SIZED = {"list": "S", "tuple": "S", "iter": "U", "gen": "U", "agen": "U", "onlyiter": "U", "aiterable": "U", "hinted": "U"}


def drive_sync(cn, LoopContext, Undefined, kind, xs, script, d0):
    try:
        lc = LoopContext(MAKE[kind](reify(xs)), Undefined, None, d0)
        out, i = [], 0
        for item, loop in lc:
            qs = script[i] if i < len(script) else []
            out.append(f"{cn.iid(item)}:" + ";".join(ask_sync(cn, loop, q, item) for q in qs))
            i += 1
            if i > len(xs) + 3:
                return "X:runaway"
        return ("1 " if i == 0 else "0 ") + "|".join(out)
    except Exception as e:  # noqa
        return "X:" + type(e).__name__ + ":" + str(e)[:60]


async def drive_async(cn, AsyncLoopContext, Undefined, kind, xs, script, d0):
    try:
        lc = AsyncLoopContext(MAKE[kind](reify(xs)), Undefined, None, d0)
        out, i = [], 0
        async for item, loop in lc:
            qs = script[i] if i < len(script) else []
            ans = []
            for q in qs:
                ans.append(await ask_async(cn, loop, q, item))
            out.append(f"{cn.iid(item)}:" + ";".join(ans))
            i += 1
            if i > len(xs) + 3:
                return "X:runaway"
        return ("1 " if i == 0 else "0 ") + "|".join(out)
    except Exception as e:  # noqa
        return "X:" + type(e).__name__ + ":" + str(e)[:60]


def enc_script(script):
    return "/".join(",".join(it) for it in script) if script else "-"


def line_L(k, f, d0, xs, script):
    return f"L {k} {f} {d0} {','.join(map(str, xs)) if xs else '-'} {enc_script(script)}"


# ------------------------------------------------------------------ templates
TQ = {"L": "loop.length|a", "I": "loop.index0|a", "J": "loop.index|a", "R": "loop.revindex|a", "r": "loop.revindex0|a",
      "F": "loop.first|a", "T": "loop.last|a", "P": "loop.previtem|it", "N": "loop.nextitem|it",
      "Y2": "loop.cycle(101, 102)|it", "Y3": "loop.cycle(101, 102, 103)|it", "Cx": "loop.changed(x)|a",
      "C55": "loop.changed(55)|a", "C-": "loop.changed()|a", "C7_8": "loop.changed(7, 8)|a", "Y1": "loop.cycle(101)|it", "D": "loop.depth|a", "d": "loop.depth0|a"}
FILTERS = {"-": "", "o": " if x", "e": " if not x", "n": " if x is none and x"}


WRAPS = {
    "scoped": "{% if 1 %}{% block qq scoped %}CHAIN{% endblock %}{% endif %}",
    "callbody": "{% macro w_() %}{{ caller() }}{% endmacro %}{% call w_() %}CHAIN{% endcall %}",
    "macrobody": "{% macro w2_() %}CHAIN{% endmacro %}{{ w2_() }}",
    "filterblock": "{% filter string %}CHAIN{% endfilter %}",
    "setblock": "{% set s_ %}CHAIN{% endset %}{{ s_ }}",
    "with": "{% with w3_ = 1 %}CHAIN{% endwith %}",
    "ifbranch": "{% if true %}CHAIN{% endif %}",
    "elsebranch": "{% if false %}no{% else %}CHAIN{% endif %}",
    "autoescape": "{% autoescape false %}CHAIN{% endautoescape %}",
}
PRELUDES = ["", "{% macro mm(loop) %}{% endmacro %}", "{% with loop = 5 %}{% endwith %}",
            "{% macro mm(a, loop=1) %}{{ loop }}{% endmacro %}", "{% macro mm2() %}{{ caller(1) }}{% endmacro %}{% call(loop) mm2() %}{% endcall %}"]


def template_source(script, flt, prelude=0, scoped_wrap=False, unpack=False):
    """prelude: a nested scope that stores a name `loop` of its own BEFORE the loop variable is used"""
    body = PRELUDES[prelude]
    branches = []
    for i, qs in enumerate(script):
        if qs:
            branches.append((i, ";".join("{{ %s }}" % TQ[q] for q in qs)))
    for j, (i, txt) in enumerate(branches):
        body += ("{% if" if j == 0 else "{% elif") + f" loop.index0 == {i} %}}" + txt
    if branches:
        body += "{% endif %}"
    if scoped_wrap and branches:
        # the only mentions of `loop` sit inside a nested construct of the loop body (scoped_wrap: True = a scoped
        # block below an if, or the name of another construct)
        chain = body[len(PRELUDES[prelude]):]
        body = PRELUDES[prelude] + WRAPS["scoped" if scoped_wrap is True else scoped_wrap].replace("CHAIN", chain)
    return ("{% for x" + (", u_" if unpack else "") + " in xs" + FILTERS[flt] + " %}{{ x|iid }}:" + body
            + "|{% else %}ELSE{% endfor %}")


def nested_template_source(qs, place, flt):
    """outer loop whose body mentions `loop` only inside an inner for: in its iterable, its test or its else"""
    if place == "iter":
        inner = "{% for c in [" + ", ".join(TQ[q] for q in qs) + "] %}{{ c }};{% endfor %}"
    elif place == "else":
        inner = "{% for c in [] %}{% else %}" + "".join("{{ %s }};" % TQ[q] for q in qs) + "{% endfor %}"
    else:
        inner = "".join("{% for c in ['bT'] if " + ("loop.first" if q == "F" else "loop.last") + " %}{{ c }}{% else %}bF{% endfor %};"
                        for q in qs)
    return "{% for x in xs" + FILTERS[flt] + " %}{{ x|iid }}:" + inner + "|{% else %}ELSE{% endfor %}"


CTL_TAG = {"C": "{% continue %}", "B": "{% break %}"}


def template_source_ctl(script, ctls, flt, uniform=None):
    """loop body with jinja2.ext.loopcontrols: `continue` / `break` after the queries of an iteration;
    uniform = 'C' / 'B': an unconditional control at the end of a body that never mentions `loop`"""
    if uniform:
        return "{% for x in xs" + FILTERS[flt] + " %}|{{ x|iid }}:" + CTL_TAG[uniform] + "{% else %}ELSE{% endfor %}"
    body, first = "", True
    for i in range(max(len(script), len(ctls))):
        qs = script[i] if i < len(script) else []
        c = ctls[i] if i < len(ctls) else "G"
        if not qs and c == "G":
            continue
        body += ("{% if" if first else "{% elif") + f" loop.index0 == {i} %}}" + ";".join("{{ %s }}" % TQ[q] for q in qs) + CTL_TAG.get(c, "")
        first = False
    if not first:
        body += "{% endif %}"
    return "{% for x in xs" + FILTERS[flt] + " %}|{{ x|iid }}:" + body + "{% else %}ELSE{% endfor %}"


def norm_ctl_output(out):
    if out == "ELSE":
        return "1 "
    if "ELSE" in out:
        return "X:else branch ran after iterations: " + out[:60]
    return "0 " + out.lstrip("|")


def norm_template_output(out):
    if out == "ELSE":
        return "1 "
    return "0 " + out.rstrip("|") if out.endswith("|") else "X:" + out[:60]


def forest_src(f):
    return " ".join("(" + str(l) + ((" " + forest_src(cs)) if cs else "") + ")" for l, cs in f)


def forest_data(f):
    return [{"l": l, "c": forest_data(cs)} for l, cs in f]


def random_forest(rng, depth, counter):
    out = []
    for _ in range(rng.randint(0 if depth else 1, 3)):
        counter[0] += 1
        lab = counter[0]
        out.append((lab, random_forest(rng, depth + 1, counter) if depth < 3 and rng.random() < 0.6 else []))
    return out


# ------------------------------------------------------------------ scripts
def seqs(alpha, maxq):
    for k in range(0, maxq + 1):
        yield from (list(p) for p in itertools.product(alpha, repeat=k))


def exhaustive_scripts(bounds):
    base = [1, 2, 2, 3, 3, 4]
    for n, maxq in bounds.items():
        per = list(seqs(ALPHA6, maxq))
        for script in itertools.product(per, repeat=n):
            yield base[:n], [list(s) for s in script]


def nontrivial(k, script):
    if k != "U":
        return False
    for qs in script:
        la = [i for i, q in enumerate(qs) if q in LOOKAHEAD]
        le = [i for i, q in enumerate(qs) if q in LENGTH]
        if la and le:
            return True
    return False


def first_diff(a, b):
    ia, ib = a.split("|"), b.split("|")
    for i, (x, y) in enumerate(zip(ia, ib)):
        if x != y:
            return f"iteration {i}: {x} vs {y}"
    return f"{len(ia)} vs {len(ib)} iterations" if len(ia) != len(ib) else "?"


def trace_tie(ctx, jinja2):
    """K-gen for compiler.visit_For without reading generated text: the event trace recorded from a
    CodeGenerator subclass (frames by creation order, temporaries by request order) must equal the
    extracted Model.LoopGen.for_trace of the node's configuration"""
    from . import c07_trace
    srcs = c07_trace.loop_sources(ctx.rng, 0)
    recs, lines = [], []
    for is_async in (False, True):
        for src in srcs:
            store = []
            env = jinja2.Environment(enable_async=is_async, extensions=["jinja2.ext.loopcontrols"])
            env.code_generator_class = c07_trace.make_recorder(jinja2, store)
            try:
                env.from_string(src)
            except Exception as e:  # noqa
                ctx.reject({"via": "visit_For trace", "template": src, "async": is_async},
                           f"compiling a generated loop raised {type(e).__name__}: {e}", "loop does not compile: " + type(e).__name__)
                continue
            for st in store:
                cfgv = c07_trace.config_of(jinja2, st, is_async)
                recs.append((src, is_async, cfgv, " ".join(st["ev"]), st["frames"]))
                lines.append("V " + " ".join("1" if b else "0" for b in cfgv))
    out = ctx.driver("loop", lines)
    seen = set()
    for (src, is_async, cfgv, real, frames), m in zip(recs, out):
        seen.add(cfgv)
        ctx.case(key=("trace",) + cfgv)
        ctx.count("visit_for_trace_" + ("async" if is_async else "sync"))
        if real != m or frames != 3:
            case = {"via": "visit_For trace", "template": src, "async": is_async,
                    "config(recursive,else,test,mentions,scoped,async,pilb,pbuf)": list(cfgv)}
            ctx.model_mismatch("K-gen visit_For skeleton (recorded trace)", case, m, real, trace_oracle(src, is_async, jinja2))
        else:
            ctx.validated()
    done = set()
    for (src, is_async, cfgv, real, frames), m in zip(recs, out):
        if cfgv[1] and (src, is_async) not in done and src.count("{% else %}E{% endfor %}") == 1 and src.count("{% else %}") == 1:
            done.add((src, is_async))
            else_control_probe(ctx, jinja2, src, is_async, m)
    ctx.extra["visit_for_configs_seen"] = len(seen)


class Item(list):
    """an item that can be sliced, tested, printed and has children (x.c) for recursive loops"""
    def __init__(self, vals, c=()):
        super().__init__(vals)
        self.c = list(c)


TRACE_DATA = [([], []), ([Item([1])], [1]), ([Item([1, 2], [Item([3])]), Item([])], [1, 2])]


def trace_oracle(src, is_async, jinja2):
    """a changed skeleton is judged by behaviour: the generated loop must still compile and render
    (the value-level judgement is done by the other streams of this check)"""
    try:
        env = jinja2.Environment(enable_async=is_async, extensions=["jinja2.ext.loopcontrols"])
        t = env.from_string(src)
        for xs, ys in TRACE_DATA:
            (asyncio.run(t.render_async(xs=xs, ys=ys)) if is_async else t.render(xs=xs, ys=ys))
    except Exception as e:  # noqa
        return f"the loop no longer compiles / renders: {type(e).__name__}: {e}"
    return None


def else_control_probe(ctx, jinja2, src, is_async, model_trace):
    """the in_loop_body flag of the else frame, observed by behaviour: `continue` in the else branch of the
    loop under test is accepted exactly when the model's else frame is inside an enclosing loop body;
    otherwise it must be a TemplateSyntaxError (never a Python SyntaxError from the generated module)"""
    tok = [t for t in model_trace.split(" ") if t.startswith("block:else:")]
    if not tok or "{% else %}E{% endfor %}" not in src:
        return
    allowed = ":ilb=1" in tok[0]
    probe = src.replace("{% else %}E{% endfor %}", "{% else %}E{% continue %}{% endfor %}", 1)
    env = jinja2.Environment(enable_async=is_async, extensions=["jinja2.ext.loopcontrols"])
    case = {"via": "visit_For else frame", "template": probe, "async": is_async}
    ctx.case(key=("else-continue", probe, is_async))
    ctx.count("else_continue_" + ("allowed" if allowed else "rejected"))
    try:
        t = env.from_string(probe)
        for xs, ys in TRACE_DATA:
            (asyncio.run(t.render_async(xs=xs, ys=ys)) if is_async else t.render(xs=xs, ys=ys))
        got = "ok"
    except jinja2.TemplateSyntaxError:
        got = "TemplateSyntaxError"
    except Exception as e:  # noqa
        got = type(e).__name__ + ": " + str(e)[:60]
    want = "ok" if allowed else "TemplateSyntaxError"
    if got != want:
        ctx.reject(case, f"`continue` in the else branch: expected {want}, engine gives {got}",
                   "continue in a for-else branch: " + ("rejected inside an enclosing loop" if allowed else "not a TemplateSyntaxError"))
    else:
        ctx.validated()


def run(ctx):
    jinja2 = lib.use_repo_jinja()
    from jinja2.runtime import AsyncLoopContext, LoopContext, Undefined
    cn = Canon(jinja2)
    ctx.extra["rule"] = RULE
    ctx.assumptions += [
        "iterables are well behaved: iterating yields the same items once, exhausted iterators stay exhausted, no item is the `missing` sentinel",
        "items are compared by value in changed() (modelled as N)",
        "a loop filter is a function of the item alone: a test whose outcome depends on state the body changes is evaluated when the look-ahead reaches the item (documented: look-ahead attributes advance the iterable early)",
        "len(iterable), when the object has one, is the number of items a full iteration yields (sized sequences); objects whose len() means 'remaining' or counts something else are outside the statement's classes",
    ]
    ctx.proof("C07")
    # T5: the current source of the LoopContext / AsyncLoopContext members, translated into the deep
    # embedding Lib/PyLoop.v, is proved equal to the model functions for every state
    import os
    import sys
    sys.path.insert(0, os.path.join(lib.ROOT, "gen"))
    import loop_translate
    import loop_template
    try:
        vtext = loop_translate.emit(lib.SRC)
        ok, out = ctx.coq_obligation("Gen_loop", vtext, n_obligations=loop_template.N_THEOREMS)
        if ok:
            ctx.trusted.append("Gen_loop (LoopContext / AsyncLoopContext source = model): " + " ".join(out.split()))
    except loop_translate.Untranslatable as e:
        ctx.broken.append(f"translator gen/loop_translate.py: LoopContext source left the translatable vocabulary: {e}")

    ctx.proof("C07gen")
    trace_tie(ctx, jinja2)
    # calling the loop variable of a loop without the `recursive` marker is the documented TypeError
    for is_async in (False, True):
        env = jinja2.Environment(enable_async=is_async)
        t = env.from_string("{% for x in xs %}{{ loop(x) }}{% endfor %}")
        ctx.case()
        try:
            out = asyncio.run(t.render_async(xs=[[1]])) if is_async else t.render(xs=[[1]])
            ctx.reject({"via": "loop() without recursive", "async": is_async}, f"rendered {out!r} instead of raising TypeError",
                       "loop() of a non-recursive loop does not raise TypeError")
        except TypeError:
            ctx.validated()
        except Exception as e:  # noqa
            ctx.reject({"via": "loop() without recursive", "async": is_async}, f"raised {type(e).__name__} instead of TypeError",
                       "loop() of a non-recursive loop does not raise TypeError")

    bounds = ctx.size({0: 0, 1: 3, 2: 2, 3: 1, 4: 1}, {0: 0, 1: 3, 2: 3, 3: 2, 4: 1, 5: 1, 6: 1})
    scripts = list(exhaustive_scripts(bounds))
    ctx.count("exhaustive_scripts", len(scripts))
    for _ in range(ctx.size(1500, 40000)):
        n = ctx.rng.randint(0, 6)
        xs = [ctx.rng.randint(1, 8) for _ in range(n)]
        script = [[ctx.rng.choice(FULL) for _ in range(ctx.rng.randint(0, 3))] for _ in range(ctx.rng.randint(0, n + 1))]
        scripts.append((xs, script))
        ctx.count("random_scripts")

    # ---- model / spec for every (kind class, items, script, depth0)
    d0s = {}
    lines = {}
    for idx, (xs, script) in enumerate(scripts):
        d0 = 0 if idx % 7 else 2
        d0s[idx] = d0
        for k in ("S", "U"):
            lines[(idx, k)] = line_L(k, "-", d0, xs, script)
    keys = list(lines)
    out = ctx.driver("loop", [lines[k] for k in keys])
    model = {}
    for k, ln in zip(keys, out):
        m, s = ln[2:].split(" S ", 1)
        model[k] = (m, s)

    # ---- K-rt: direct drive of both classes
    def judge(case, kclass, nt_key, real):
        m, s = model[(case["idx"], kclass)]
        cs = {k: v for k, v in case.items() if k != "idx"}
        ctx.case(sample=dict(cs, answers=real) if nt_key and len(ctx.samples) < 6 and len(cs["items"]) > 2 else None, key=nt_key)
        if real != s:
            ctx.model_mismatch("K-rt " + cs["via"], cs, m, real,
                               f"documented loop variable gives {s!r}, engine gives {real!r} ({first_diff(s, real)})",
                               f"loop variable wrong on {cs['iterable']} via {cs['via']}")
        elif real != m:
            ctx.model_mismatch("K-rt " + cs["via"], cs, m, real, None)
        else:
            ctx.validated()

    async_jobs = []
    for idx, (xs, script) in enumerate(scripts):
        d0 = d0s[idx]
        for kind in ("list", "tuple", "iter", "gen") + (("onlyiter", "hinted") if idx % 5 == 0 else ()):
            real = drive_sync(cn, LoopContext, Undefined, kind, xs, script, d0)
            case = {"idx": idx, "via": "LoopContext", "iterable": kind, "items": xs, "script": script, "depth0": d0}
            judge(case, SIZED[kind], ("s", kind, tuple(xs), enc_script(script)) if nontrivial(SIZED[kind], script) else None, real)
            ctx.count("drive_sync_" + kind)
        for kind in ("list", "tuple", "iter", "gen", "agen") + (("onlyiter", "aiterable", "hinted") if idx % 3 == 0 else ()):
            async_jobs.append((idx, kind, xs, script, d0))

    async def all_async():
        res = []
        for idx, kind, xs, script, d0 in async_jobs:
            res.append(await drive_async(cn, AsyncLoopContext, Undefined, kind, xs, script, d0))
        return res

    for (idx, kind, xs, script, d0), real in zip(async_jobs, asyncio.run(all_async())):
        case = {"idx": idx, "via": "AsyncLoopContext", "iterable": kind, "items": xs, "script": script, "depth0": d0}
        judge(case, SIZED[kind], ("a", kind, tuple(xs), enc_script(script)) if nontrivial(SIZED[kind], script) else None, real)
        ctx.count("drive_async_" + kind)

    # ---- compiled templates
    envs = {}
    for mode in ("sync", "async"):
        env = jinja2.Environment(enable_async=(mode == "async"))
        env.filters["a"] = cn.a
        env.filters["it"] = cn.item
        env.filters["iid"] = cn.iid
        envs[mode] = env
    def axis_env(mode, axis):
        from jinja2.sandbox import ImmutableSandboxedEnvironment, SandboxedEnvironment
        kw = {"enable_async": mode == "async"}
        if axis == "sandboxed":
            env = SandboxedEnvironment(**kw)
        elif axis == "immutable":
            env = ImmutableSandboxedEnvironment(**kw)
        elif axis == "autoescape":
            env = jinja2.Environment(autoescape=True, **kw)
        elif axis == "unoptimized":
            env = jinja2.Environment(optimized=False, **kw)
        elif axis == "overlay":
            env = jinja2.Environment(**kw).overlay(trim_blocks=True)
        else:
            env = jinja2.Environment(**kw)
        env.filters["a"], env.filters["it"], env.filters["iid"] = cn.a, cn.item, cn.iid
        return env

    AXES = ["plain", "plain", "sandboxed", "immutable", "autoescape", "unoptimized", "overlay"]
    axis_envs = {(m, a): axis_env(m, a) for m in ("sync", "async") for a in set(AXES)}
    n_tpl = ctx.size(1000, 15000)
    tcases = []
    pool = [sc for sc in scripts if all(q != "Y0" for qs in sc[1] for q in qs)]
    for j in range(n_tpl):
        xs, script = pool[ctx.rng.randrange(len(pool))] if j % 3 else pool[j % len(pool)]
        flt = ctx.rng.choice(["-", "-", "o", "e", "n"])
        mode = "async" if j % 2 else "sync"
        kind = ctx.rng.choice(["list", "tuple", "iter", "gen", "onlyiter", "hinted"] + (["agen", "aiterable"] if mode == "async" else []))
        tcases.append({"via": "template/" + mode, "iterable": kind, "items": xs, "script": script, "filter": flt, "depth0": 0,
                       "prelude": ctx.rng.choice([0, 0, 0, 1, 2, 3, 4]), "scoped_wrap": ctx.rng.choice([False, False, False, False, True] + sorted(WRAPS)),
                       "unpack": ctx.rng.random() < 0.2, "axis": ctx.rng.choice(AXES)})
    tlines = [line_L("U" if c["filter"] != "-" else SIZED[c["iterable"]], c["filter"], 0, c["items"], c["script"]) for c in tcases]
    tout = ctx.driver("loop", tlines)
    for c, ln in zip(tcases, tout):
        m, s = ln[2:].split(" S ", 1)
        mode = c["via"].split("/")[1]
        src = template_source(c["script"], c["filter"], c["prelude"], c["scoped_wrap"], c["unpack"])
        try:
            t = axis_envs[(mode, c["axis"])].from_string(src)

            def fresh():
                objs = reify(c["items"])
                return MAKE[c["iterable"]]([Pair((o, k)) for k, o in enumerate(objs)] if c["unpack"] else objs)
            real = asyncio.run(t.render_async(xs=fresh())) if mode == "async" else t.render(xs=fresh())
            again = asyncio.run(t.render_async(xs=fresh())) if mode == "async" else t.render(xs=fresh())
            real = norm_template_output(real) if again == real else "X:second render of the same template differs: " + again[:40]
        except Exception as e:  # noqa
            real = "X:" + type(e).__name__ + ":" + str(e)[:60]
        c2 = dict(c, template=src)
        ntk = ("t", mode, c["iterable"], c["filter"], tuple(c["items"]), enc_script(c["script"])) \
            if nontrivial("U" if c["filter"] != "-" else SIZED[c["iterable"]], c["script"]) else None
        ctx.case(key=ntk)
        ctx.count("template_" + mode + ("_filtered" if c["filter"] != "-" else ""))
        if real != s:
            ctx.model_mismatch("K-rt compiled loop", c2, m, real,
                               f"documented loop variable gives {s!r}, template renders {real!r} ({first_diff(s, real)})",
                               f"loop variable wrong in template/{mode} on {c['iterable']}" + (" with filter" if c["filter"] != "-" else ""))
        elif real != m:
            ctx.model_mismatch("K-rt compiled loop", c2, m, real, None)
        else:
            ctx.validated()

    # ---- nested loops: the OUTER loop variable referenced only from the header (iterable), the filter test or
    #      the else branch of an inner loop (extended-loop detection must look there); same queries every iteration
    ncases = []
    for j in range(ctx.size(600, 9000)):
        n = ctx.rng.randint(0, 5)
        xs = [ctx.rng.randint(1, 8) for _ in range(n)]
        place = ("iter", "else", "test")[j % 3]
        if place == "test":
            qs = [ctx.rng.choice(["F", "T"]) for _ in range(ctx.rng.randint(1, 2))]
        else:
            qs = [ctx.rng.choice([q for q in FULL if q != "Y0"]) for _ in range(ctx.rng.randint(1, 3))]
        flt = ctx.rng.choice(["-", "-", "-", "o", "e"])
        mode = "async" if (j // 3) % 2 else "sync"
        kind = ctx.rng.choice(["list", "tuple", "iter", "gen"] + (["agen", "aiterable"] if mode == "async" else []))
        ncases.append({"via": "nested/" + mode, "iterable": kind, "items": xs, "script": [qs] * max(n, 1), "filter": flt,
                       "place": place, "depth0": 0})
    nout = ctx.driver("loop", [line_L("U" if c["filter"] != "-" else SIZED[c["iterable"]], c["filter"], 0, c["items"], c["script"])
                               for c in ncases])
    for c, ln in zip(ncases, nout):
        m, s = ln[2:].split(" S ", 1)
        mode = c["via"].split("/")[1]
        src = nested_template_source(c["script"][0], c["place"], c["filter"])
        try:
            t = envs[mode].from_string(src)
            data = MAKE[c["iterable"]](reify(c["items"]))
            real = asyncio.run(t.render_async(xs=data)) if mode == "async" else t.render(xs=data)
            real = norm_template_output(real.replace(";|", "|"))
        except Exception as e:  # noqa
            real = "X:" + type(e).__name__ + ":" + str(e)[:60]
        c2 = dict(c, template=src)
        ctx.case(key=("n", mode, c["iterable"], c["filter"], c["place"], tuple(c["items"]), tuple(c["script"][0])) if c["items"] else None)
        ctx.count("nested_" + c["place"] + "_" + mode)
        if real != s:
            ctx.model_mismatch("K-rt nested loop (outer loop variable used in the inner loop's " + c["place"] + ")", c2, m, real,
                               f"documented loop variable gives {s!r}, template renders {real!r} ({first_diff(s, real)})",
                               f"outer loop variable wrong when used only in an inner loop's {c['place']} (template/{mode})")
        elif real != m:
            ctx.model_mismatch("K-rt nested loop", c2, m, real, None)
        else:
            ctx.validated()

    # ---- loop controls (jinja2.ext.loopcontrols): continue / break at random positions, with else and loop filter
    lc_envs = {}
    for mode in ("sync", "async"):
        env = jinja2.Environment(enable_async=(mode == "async"), extensions=["jinja2.ext.loopcontrols"])
        env.filters["a"] = cn.a
        env.filters["it"] = cn.item
        env.filters["iid"] = cn.iid
        lc_envs[mode] = env
    lcases = []
    for j in range(ctx.size(800, 12000)):
        xs, script = pool[ctx.rng.randrange(len(pool))]
        flt = ctx.rng.choice(["-", "-", "o", "e", "n"])
        mode = "async" if j % 2 else "sync"
        kind = ctx.rng.choice(["list", "tuple", "iter", "gen"] + (["agen", "aiterable"] if mode == "async" else []))
        uniform = ctx.rng.choice([None, None, None, "C", "B"])
        if uniform:
            script, ctls = [], [uniform] * 8
        else:
            ctls = [ctx.rng.choice("GGGCCB") for _ in range(ctx.rng.randint(0, len(xs) + 1))]
        lcases.append({"via": "loopcontrols/" + mode, "iterable": kind, "items": xs, "script": script, "filter": flt,
                       "ctls": ctls, "uniform": uniform, "depth0": 0})
    lout = ctx.driver("loop", [line_L("U" if c["filter"] != "-" else SIZED[c["iterable"]], c["filter"], 0, c["items"], c["script"])
                               + " " + (",".join(c["ctls"]) if c["ctls"] else "-") for c in lcases])
    for c, ln in zip(lcases, lout):
        m, s = ln[2:].split(" S ", 1)
        mode = c["via"].split("/")[1]
        src = template_source_ctl(c["script"], c["ctls"], c["filter"], c["uniform"])
        try:
            t = lc_envs[mode].from_string(src)
            data = MAKE[c["iterable"]](reify(c["items"]))
            real = asyncio.run(t.render_async(xs=data)) if mode == "async" else t.render(xs=data)
            real = norm_ctl_output(real)
        except Exception as e:  # noqa
            real = "X:" + type(e).__name__ + ":" + str(e)[:60]
        c2 = dict(c, template=src)
        ctx.case(key=("lc", mode, c["iterable"], c["filter"], tuple(c["items"]), enc_script(c["script"]), tuple(c["ctls"]))
                 if any(x != "G" for x in c["ctls"]) and c["items"] else None)
        ctx.count("loopcontrols_" + mode + ("_uniform" if c["uniform"] else ""))
        if real != s:
            ctx.model_mismatch("K-rt compiled loop with loop controls", c2, m, real,
                               f"documented loop gives {s!r}, template renders {real!r} ({first_diff(s, real)})",
                               f"loop with continue/break wrong in template/{mode}" + (" (else branch)" if "else branch" in real else ""))
        elif real != m:
            ctx.model_mismatch("K-rt compiled loop with loop controls", c2, m, real, None)
        else:
            ctx.validated()

    # ---- recursive loops
    # every level also reports loop.length and loop.revindex: the number of siblings, whether the level's iterable is
    # handed to the loop as a sized list (outermost and nested levels, sync and async since /repo a48aab6) or not
    rsrc = ("{% for n in forest recursive %}{{ n.l }}:{{ loop.depth0 }}/{{ loop.depth }}/{{ loop.length }}/{{ loop.revindex + loop.index0 }},"
            "{{ loop(n.c) }}{% endfor %}")
    fcases = []
    for _ in range(ctx.size(150, 1500)):
        fcases.append(random_forest(ctx.rng, 0, [0]))
    fout = ctx.driver("loop", ["T 0 " + forest_src(f) for f in fcases])
    for j, (f, ln) in enumerate(zip(fcases, fout)):
        m, s = ln[2:].split(" S ", 1)
        mode = "async" if j % 2 else "sync"
        src_j = rsrc.replace("{% endfor %}", "{% continue %}{% endfor %}") if j % 3 == 0 else rsrc
        case = {"via": "recursive/" + mode, "forest": forest_src(f), "template": src_j}
        try:
            siblings = {}

            def count(fs):
                for lab_, cs_ in fs:
                    siblings[lab_] = len(fs)
                    count(cs_)
            count(f)
            t = (lc_envs if j % 3 == 0 else envs)[mode].from_string(src_j)
            data = forest_data(f)
            real = asyncio.run(t.render_async(forest=data)) if mode == "async" else t.render(forest=data)
            pairs = []
            bad = None
            for part in real.rstrip(",").split(","):
                if not part:
                    continue
                lab, dd = part.split(":")
                a, b, ln, ln2 = dd.split("/")
                if int(b) != int(a) + 1:
                    bad = f"depth {b} != depth0 {a} + 1"
                if int(ln) != siblings.get(int(lab)) or int(ln2) != int(ln):
                    bad = f"node {lab}: loop.length {ln} / revindex+index0 {ln2}, the level has {siblings.get(int(lab))} items"
                pairs.append(f"{lab}:{a}")
            real = ",".join(pairs)
        except Exception as e:  # noqa
            real, bad = "X:" + type(e).__name__ + ":" + str(e)[:60], None
        ctx.case(key=("r", forest_src(f)) if any(cs for _, cs in f) else None)
        ctx.count("recursive_" + mode)
        if real != s or bad:
            ctx.model_mismatch("K-rt recursive loop", case, m, real,
                               bad or f"nesting levels {s!r}, template reports {real!r}", "recursive loop depth wrong")
        elif real != m:
            ctx.model_mismatch("K-rt recursive loop", case, m, real, None)
        else:
            ctx.validated()


def replay(ctx, data):
    jinja2 = lib.use_repo_jinja()
    from jinja2.runtime import AsyncLoopContext, LoopContext, Undefined
    cn = Canon(jinja2)
    case = data.get("case")
    if data.get("kind") != "failing-input" or case is None:
        print("replay: names a broken theorem/correspondence:", data.get("broken"))
        return run(ctx)
    envs = {}
    for mode in ("sync", "async"):
        env = jinja2.Environment(enable_async=(mode == "async"))
        env.filters["a"] = cn.a
        env.filters["it"] = cn.item
        env.filters["iid"] = cn.iid
        envs[mode] = env
    via = case["via"]
    if via.startswith("recursive/"):
        print("replay of recursive cases: re-running the whole check")
        return run(ctx)
    flt = case.get("filter", "-")
    k = "U" if flt != "-" else SIZED[case["iterable"]]
    line = line_L(k, flt, case["depth0"], case["items"], case["script"])
    if via.startswith("loopcontrols/"):
        line += " " + (",".join(case["ctls"]) if case["ctls"] else "-")
    ln = ctx.driver("loop", [line])[0]
    m, s = ln[2:].split(" S ", 1)
    if via == "LoopContext":
        real = drive_sync(cn, LoopContext, Undefined, case["iterable"], case["items"], case["script"], case["depth0"])
    elif via == "AsyncLoopContext":
        real = asyncio.run(drive_async(cn, AsyncLoopContext, Undefined, case["iterable"], case["items"], case["script"], case["depth0"]))
    else:
        mode = via.split("/")[1]
        if via.startswith("loopcontrols/"):
            env = jinja2.Environment(enable_async=(mode == "async"), extensions=["jinja2.ext.loopcontrols"])
            env.filters["a"], env.filters["it"], env.filters["iid"] = cn.a, cn.item, cn.iid
            src, norm = template_source_ctl(case["script"], case["ctls"], flt, case.get("uniform")), norm_ctl_output
        elif via.startswith("nested/"):
            env, src = envs[mode], nested_template_source(case["script"][0], case["place"], flt)
            norm = lambda o: norm_template_output(o.replace(";|", "|"))  # noqa
        else:
            env, src, norm = envs[mode], template_source(case["script"], flt, case.get("prelude", 0), case.get("scoped_wrap", False), case.get("unpack", False)), norm_template_output
        print("template:", src)
        t = env.from_string(src)
        objs = reify(case["items"])
        dat = MAKE[case["iterable"]]([Pair((o, k)) for k, o in enumerate(objs)] if case.get("unpack") else objs)
        try:
            real = norm(asyncio.run(t.render_async(xs=dat)) if mode == "async" else t.render(xs=dat))
        except Exception as e:  # noqa
            real = "X:" + type(e).__name__ + ":" + str(e)[:60]
    print("spec :", s, "\nmodel:", m, "\nimpl :", real)
    if real != s:
        ctx.reject(case, f"documented loop variable gives {s!r}, engine gives {real!r}")
