"""C10 — all rendering entry points produce the same text.

proof:  Properties/C10.v  (buffered_concat, buffered_chunks, entry points, encoded dump)
tie  :  T    gen/stream_translate.py: the current source of _buffered_generator as a term of Lib/PyGen, proved
        (Proofs/StreamTrans.v) to have the model's semantics for every size >= 1 and piece list;
        gen/stream_facts.py: vocabulary of all TemplateStream methods = the expected table;
        K-rt  extracted Stream.stream_buffered  ==  real TemplateStream.enable_buffering over
        arbitrary piece lists (exhaustive small scope + random), incl. sizes <= 1
oracle: on generated template sets (extends / include / import / macros / loops) every entry
        point of the real engine yields the same text; buffered chunks equal the model's
        chunks of the real piece list.
"""
import io
import itertools
import os
import tempfile

from . import lib
from .gen_templates import TGen

RULE = ("K-rt: all piece lists over {'', 'a', 'bc'} up to length L x buffer sizes 0..8 (exhaustive) + random longer "
        "lists; distinct = (size, pieces); non-trivial = at least one empty piece and more than one chunk. "
        "O: generated template sets rendered through render / generate / stream (buffer 2..8) / dump text+utf-8 / "
        "str(module); non-trivial = output non-empty and at least 2 pieces.")


def enc_piece(p):
    return p if p else "-"


def real_buffered(jinja2, size, pieces):
    from jinja2.environment import TemplateStream
    st = TemplateStream(iter(pieces))
    try:
        st.enable_buffering(size)
    except ValueError:
        return "E"
    except Exception as e:  # any other exception is a behaviour the model does not have
        return "X:" + type(e).__name__
    try:
        chunks = list(itertools.islice(st, 0, 10 * len(pieces) + 10))
    except Exception as e:
        return "X:" + type(e).__name__
    return "C " + "|".join(enc_piece(c) for c in chunks) + " R " + enc_piece("".join(pieces))


def oracle_chunks(size, pieces, chunks):
    """The property itself on a real chunk list (independent of the model's algorithm)."""
    # compare plain text: pieces / chunks may be Markup objects whose + would escape the other operand
    pieces = ["".join([p]) for p in pieces]
    chunks = ["".join([c]) for c in chunks]
    if "".join(chunks) != "".join(pieces):
        return "concatenation of buffered stream differs from concatenation of pieces"
    # every chunk except the last must be made of exactly `size` non-empty pieces
    i = 0
    for ci, ch in enumerate(chunks):
        cnt = 0
        acc = ""
        while i < len(pieces) and (cnt < size):
            acc += pieces[i]
            if pieces[i]:
                cnt += 1
            i += 1
        last = ci == len(chunks) - 1
        if acc != ch:
            return f"chunk {ci} is not the join of consecutive pieces"
        if not last and cnt != size:
            return f"chunk {ci} combines {cnt} non-empty pieces, expected {size}"
        if last and not (1 <= cnt <= size):
            return f"last chunk combines {cnt} non-empty pieces"
    return None


def run(ctx):
    jinja2 = lib.use_repo_jinja()
    ctx.extra["rule"] = RULE
    ctx.assumptions += [
        "codecs incremental encoders obey feed(a+b) = feed(a) then feed(b) on the generated (surrogate-free) text (hypothesis of C10_dump_encoded)",
        "a template's root render function yields the piece list observed through Template.generate",
    ]
    ctx.proof("C10")
    # translator tie (facts): the vocabulary of TemplateStream's methods in the current source is the one
    # the model was written against — piece-count flushing only, one encoder per dump
    import sys
    sys.path.insert(0, os.path.join(lib.ROOT, "gen"))
    import stream_facts
    try:
        vtext, fs = stream_facts.emit(lib.SRC)
        ok, out = ctx.coq_obligation("Gen_stream", vtext, n_obligations=2)
        ctx.extra["stream_vocabulary_facts"] = len(fs)
        if ok:
            ctx.trusted.append("Gen_stream (vocabulary of TemplateStream = expected): " + " ".join(out.split()))
    except stream_facts.Untranslatable as e:
        ctx.broken.append(f"translator gen/stream_facts.py: TemplateStream left the translatable shape: {e}")
    # translator tie (semantics): _buffered_generator's current source as a term of Lib/PyGen; the generated
    # file proves it is the term whose semantics Proofs/StreamTrans proves equal to the model for all inputs
    import stream_translate
    try:
        vtext = stream_translate.emit(lib.SRC)
        ok, out = ctx.coq_obligation("Gen_stream_term", vtext, n_obligations=2)
        if ok:
            ctx.trusted.append("Gen_stream_term (source term of _buffered_generator = buffered_term; semantics = model): "
                               + " ".join(out.split()))
    except stream_translate.Untranslatable as e:
        ctx.broken.append(f"translator gen/stream_translate.py: _buffered_generator left the embedded language: {e}")

    # ---------------- K-rt: model vs TemplateStream
    L = ctx.size(6, 8)
    alphabet = ["", "a", "bc"]
    cases = []
    for n in range(0, L + 1):
        for ps in itertools.product(alphabet, repeat=n):
            for size in ((0, 1, 2, 3, 4, 5, 8) if n <= 5 else (2, 3, 5)):
                cases.append((size, list(ps)))
    for _ in range(ctx.size(2000, 20000)):
        n = ctx.rng.randint(5, 40)
        cases.append((ctx.rng.randint(-1, 9), [ctx.rng.choice(["", "", "a", "bc", "xyz"]) for _ in range(n)]))
    # pieces as the generated code yields them under autoescape: static text is a plain str that may
    # contain markup, escaped expression values are Markup objects; a chunk must be the plain
    # concatenation of their text (driver alphabet: letters only, so '<' is written L, '&' A, ';' S)
    from markupsafe import Markup
    for _ in range(ctx.size(1500, 15000)):
        n = ctx.rng.randint(2, 12)
        cases.append((ctx.rng.randint(2, 5), [ctx.rng.choice(["", "LbG", Markup("AltS"), Markup(""), "x", Markup("LiG")])
                                            for _ in range(n)]))
    lines = [f"{max(size, 0)} " + " ".join(enc_piece(str(p)) for p in ps) for size, ps in cases]
    model = ctx.driver("stream", lines)
    def _real(p):
        if isinstance(p, Markup):
            return Markup(str(p).replace("L", "<").replace("G", ">").replace("A", "&").replace("S", ";"))
        return p.replace("L", "<").replace("G", ">").replace("A", "&").replace("S", ";")
    def _back(t):
        return t.replace("<", "L").replace(">", "G").replace("&", "A").replace(";", "S")
    for (size, ps), m in zip(cases, model):
        if size < 0:
            m_expected = "E"
        else:
            m_expected = m
        impl = _back(real_buffered(jinja2, size, [_real(p) for p in ps]))
        ps = [str(p) for p in ps]
        nontriv = ("" in ps) and m.count("|") >= 1
        ctx.case(sample={"size": size, "pieces": ps, "model": m}, key=(size, tuple(ps)) if nontriv else None)
        ctx.count("krt_value_error" if m_expected == "E" else "krt_ok")
        if impl != m_expected:
            of = None
            if impl.startswith("C "):
                chunks = [("" if c == "-" else c) for c in impl[2:].split(" R ")[0].split("|")] if impl[2:].split(" R ")[0] else []
                of = oracle_chunks(size, ps, chunks) if size >= 2 else "buffer size <= 1 accepted"
            elif impl.startswith("X:"):
                of = "unexpected exception " + impl[2:]
            elif impl == "E" and size >= 2:
                of = "valid buffer size rejected"
            ctx.model_mismatch("K-rt TemplateStream._buffered_generator", {"size": size, "pieces": ps}, m_expected, impl, of)
        else:
            ctx.validated()

    # ---------------- K-rt with long pieces: the chunking depends on the emptiness of pieces only, never on
    # their length.  The model runs on the shape (one letter per piece); the real stream on pieces whose lengths
    # are powers of two up to 2 MiB and their neighbours.
    from jinja2.environment import TemplateStream
    LENS = [0, 1, 2, 255, 256, 1023, 1024, 4095, 4096, 4097, 8192, 16384, 65535, 65536, 65537, 131072, 2 ** 20, 2 ** 21]
    big = []
    for _ in range(ctx.size(120, 1200)):
        n = ctx.rng.randint(3, 12)
        big.append((ctx.rng.randint(2, 6), [ctx.rng.choice(LENS) if ctx.rng.random() < 0.7 else 0 for _ in range(n)]))
    letters = "abcdefghijklmnopqrstuvwxyz"
    blines = [f"{size} " + " ".join((letters[i] if ln else "-") for i, ln in enumerate(lens)) for size, lens in big]
    for (size, lens), m in zip(big, ctx.driver("stream", blines)):
        pieces = [letters[i] * ln for i, ln in enumerate(lens)]
        st = TemplateStream(iter(pieces))
        st.enable_buffering(size)
        chunks = list(st)
        mchunks = [c for c in m[2:].split(" R ")[0].split("|")] if m[2:].split(" R ")[0] else []
        expected = ["".join(pieces[letters.index(ch)] for ch in mc) for mc in mchunks]
        ctx.case(key=("big", size, tuple(lens)))
        ctx.count("krt_long_pieces")
        if chunks != expected:
            of = oracle_chunks(size, pieces, chunks)
            ctx.model_mismatch("K-rt TemplateStream._buffered_generator (long pieces)",
                               {"size": size, "piece_lengths": lens, "chunk_lengths": [len(c) for c in chunks],
                                "model_chunk_lengths": [len(c) for c in expected]}, str([len(c) for c in expected]),
                               str([len(c) for c in chunks]), of)
        else:
            ctx.validated()

    # ---------------- K-rt histories: enable_buffering(n) / disable_buffering() / next() sequences on ONE stream
    # object, then iterate it to the end; extracted Stream.srun / sdrain == real TemplateStream
    hist = []
    OPS = ["n", "n", "n", "d", "e2", "e3", "e2", "e1", "e0", "e5"]
    for L in range(0, ctx.size(4, 5)):
        for ops in itertools.product(["n", "d", "e2", "e3", "e1"], repeat=L):
            for ps in (["a", "", "b", "c", "", "d", "e"], ["", ""], ["a"]):
                hist.append((list(ops), ps))
    for _ in range(ctx.size(3000, 30000)):
        hist.append(([ctx.rng.choice(OPS) for _ in range(ctx.rng.randint(2, 12))],
                     [ctx.rng.choice(["", "a", "bc", "x"]) for _ in range(ctx.rng.randint(0, 14))]))
    hlines = ["H " + " ".join(ops) + " ; " + " ".join(enc_piece(p) for p in ps) for ops, ps in hist]
    for (ops, ps), m in zip(hist, ctx.driver("stream", hlines)):
        st = TemplateStream(iter(ps))
        outs = []
        for o in ops:
            try:
                if o == "n":
                    outs.append(enc_piece(next(st)))
                elif o == "d":
                    outs.append("." if st.disable_buffering() is None else "?")
                else:
                    outs.append("." if st.enable_buffering(int(o[1:])) is None else "?")
            except StopIteration:
                outs.append("S")
            except ValueError:
                outs.append("E")
            except Exception as e:  # noqa
                outs.append("X:" + type(e).__name__)
        try:
            rest_items = list(itertools.islice(st, 0, 10 * len(ps) + 10))
        except Exception as e:  # noqa
            rest_items = ["X:" + type(e).__name__]
        impl = " ".join(outs) + " D " + "|".join(enc_piece(c) for c in rest_items)
        nontriv = sum(1 for o in ops if o[0] == "e" and int(o[1:]) > 1) >= 2 and "n" in ops
        ctx.case(key=("hist", tuple(ops), tuple(ps)) if nontriv else None,
                 sample={"ops": ops, "pieces": ps, "results": impl} if nontriv and len(ctx.samples) < 6 else None)
        ctx.count("krt_histories")
        if impl.strip() != m.strip():
            # the property on the real results: nothing lost or duplicated; chunk rule after the last enable
            got = "".join(x for x in outs if x not in (".", "S", "E", "-") and not x.startswith("X:")) + \
                  "".join(c for c in rest_items)
            of = None
            if got != "".join(ps):
                of = "text yielded over the history differs from the text of the pieces"
            elif impl.split(" D ")[0] == m.split(" D ")[0]:
                of = "after the last enable_buffering the chunks do not combine the requested number of non-empty pieces"
            ctx.model_mismatch("K-rt TemplateStream histories (enable / disable / next)", {"ops": ops, "pieces": ps}, m, impl, of)
        else:
            ctx.validated()

    # ---------------- O: every entry point on generated template sets
    n_sets = ctx.size(300, 3000)
    tmpdir = tempfile.mkdtemp(prefix="c10_", dir=lib.BUILD)
    try:
        for idx in range(n_sets):
            auto = idx % 3 == 1
            g = TGen(ctx.rng, depth=3, meta=(idx % 3 != 0))
            ts, main = g.template_set()
            if idx % 3 == 2:
                ts[main] = "{% autoescape true %}<p>" + ts[main] + "</p>{% endautoescape %}" if "extends" not in ts[main] else ts[main]
            if idx % 4 == 3 and "extends" not in ts[main]:
                # a partial that is included without context AND imported and printed as a module: the entry
                # points run one after the other on one environment, so state kept in the cached module
                # (TemplateModule._body_stream) is shared between them
                libs = [n for n in ts if n.startswith(("lib", "inc"))] or ["part.html"]
                part = libs[0]
                ts.setdefault(part, "[partial {{ 1 + 1 }}]")
                ts[main] = ("{% include '" + part + "' without context %}|" + ts[main]
                            + "|{% import '" + part + "' as MM %}{{ MM }}|{% include '" + part + "' without context %}")
            if idx % 5 == 4 and "extends" not in ts[main]:
                ts[main] = "\u00e9\u20ac\U0001d11e<" + ts[main]      # text no single-byte codec can encode
            data = g.data() if idx % 7 else {}
            if not data and "extends" not in ts[main]:
                ts[main] += "|{{ gv }}"          # a template-level global (see the globals history in the oracle)
            case = {"templates": ts, "data": data, "index": idx, "autoescape": auto}
            w = oracle_entry_points(jinja2, ts, main, data, tmpdir, ctx, auto)
            if w == "skip":
                ctx.count("o_render_error")
                continue
            ctx.count("o_rendered")
            if w:
                ctx.reject(case, w)
        # names the module object uses itself (and other engine-internal spellings) as top-level assignment
        # targets, macro names and import aliases: the module's text must still be the rendered text
        INTERNAL = ["_body_stream", "__name__", "__str__", "__html__", "__repr__", "__dict__", "__class__", "_TemplateModule__x",
                    "environment", "context", "blocks", "name", "root", "self", "_x", "x_"]
        FORMS = ["{{% set {n} = ['?'] %}}a{{{{ 1 }}}}b", "{{% set t, {n} = 'T', ['?'] %}}<{{{{ t }}}}>", "{{% set {n}, t = ['?'], 'T' %}}<{{{{ t }}}}>",
                 "{{% set {n} %}}?{{% endset %}}body{{{{ 2 }}}}", "{{% macro {n}() %}}m{{% endmacro %}}y{{{{ 3 }}}}",
                 "{{% import 'lib0' as {n} %}}z{{{{ 4 }}}}", "{{% from 'lib0' import mm as {n} %}}w{{{{ 5 }}}}",
                 "{{% set a, (b, {n}) = 1, (2, ['?']) %}}v{{{{ a }}}}{{{{ b }}}}", "{{% with %}}{{% set {n} = 1 %}}{{% endwith %}}u{{{{ 6 }}}}",
                 "{{% for {n} in [1] %}}{{% endfor %}}{{% set q, r = 1, 2 %}}s{{{{ q }}}}"]
        for n_ in INTERNAL:
            for fi, form in enumerate(FORMS):
                ts = {"main.html": form.format(n=n_), "lib0": "{% macro mm() %}M{% endmacro %}L"}
                case = {"templates": ts, "data": {}, "index": -1, "autoescape": fi % 2 == 1}
                w = oracle_entry_points(jinja2, ts, "main.html", {}, tmpdir, ctx, fi % 2 == 1)
                ctx.count("o_internal_names" if w != "skip" else "o_internal_names_rejected")
                if w and w != "skip":
                    ctx.reject(case, w)
    finally:
        for f in os.listdir(tmpdir):
            os.unlink(os.path.join(tmpdir, f))
        os.rmdir(tmpdir)


def oracle_entry_points(jinja2, ts, main, data, tmpdir, ctx, autoescape=False):
    env = jinja2.Environment(loader=jinja2.DictLoader(ts), autoescape=autoescape)
    try:
        t = env.get_template(main)
        ref = t.render(**data)
    except Exception:
        ctx.case()
        return "skip"
    try:
        pieces = list(t.generate(**data))
        if "".join(pieces) != ref:
            return "concatenation of generate() differs from render()"
        if "".join(t.stream(**data)) != ref:
            return "concatenation of stream() differs from render()"
        for size in list(range(2, 9)) + [50, 1000]:
            st = t.stream(**data)
            st.enable_buffering(size)
            chunks = list(st)
            w = oracle_chunks(size, pieces, chunks)
            if w:
                return f"buffer size {size}: {w}"
        # buffering switched on and off again; manual iteration with next()
        st = t.stream(**data)
        st.enable_buffering(3)
        st.disable_buffering()
        if list(st) != pieces:
            return "stream after enable_buffering + disable_buffering does not yield the pieces"
        st = t.stream(**data)
        got = []
        while True:
            try:
                got.append(next(st))
            except StopIteration:
                break
        if got != pieces:
            return "manual next() over the stream does not yield the pieces"
        if not data and str(t.module) != ref:
            return "str(template.module) differs from render() without data"
        p = os.path.join(tmpdir, "out.txt")
        st = t.stream(**data)
        st.enable_buffering(3)
        st.dump(p, encoding="utf-8")
        if open(p, encoding="utf-8", newline="").read() != ref:
            return "dump(path, utf-8) differs from render()"
        bio = io.BytesIO()
        t.stream(**data).dump(bio, encoding="utf-8")
        if bio.getvalue() != ref.encode("utf-8"):
            return "dump(fp, utf-8) differs from render()"
        # encodings with a byte order mark / encoder state: the dumped bytes must decode to the text
        for enc in ("utf-16", "utf-8-sig", "utf-32", "utf-16-le"):
            for bufsize in (None, 2, 3):
                bio = io.BytesIO()
                st = t.stream(**data)
                if bufsize:
                    st.enable_buffering(bufsize)
                st.dump(bio, encoding=enc)
                if bio.getvalue().decode(enc) != ref:
                    return f"dump(fp, {enc}, buffer={bufsize}) does not decode to render()"
        sio = io.StringIO()
        t.stream(**data).dump(sio)
        if sio.getvalue() != ref:
            return "dump(text fp) differs from render()"
        # file-like targets that only have write(); error handlers; a path without an encoding (utf-8)
        class W:
            def __init__(self):
                self.parts = []
            def write(self, x):
                self.parts.append(x)
        for enc, errors, bufsize in ((None, None, None), (None, None, 3), ("utf-8", "strict", None), ("utf-16", "strict", 2),
                                     ("ascii", "replace", None), ("ascii", "xmlcharrefreplace", 3), ("latin-1", "ignore", 2),
                                     ("ascii", "backslashreplace", None)):
            w_ = W()
            st = t.stream(**data)
            if bufsize:
                st.enable_buffering(bufsize)
            if enc is None:
                st.dump(w_)
                got, want = "".join(w_.parts), ref
            else:
                st.dump(w_, encoding=enc, errors=errors)
                if not all(isinstance(x, bytes) for x in w_.parts):
                    return f"dump(write-only fp, {enc}) wrote a non-bytes item"
                got, want = b"".join(w_.parts), ref.encode(enc, errors)
            if got != want:
                return f"dump(write-only fp, encoding={enc}, errors={errors}, buffer={bufsize}) differs from render()"
            bio = io.BytesIO()
            if enc is not None:
                t.stream(**data).dump(bio, encoding=enc, errors=errors)
                if bio.getvalue() != want:
                    return f"dump(fp, encoding={enc}, errors={errors}) differs from the encoded render()"
        t.stream(**data).dump(p)
        if open(p, "rb").read() != ref.encode("utf-8"):
            return "dump(path) without an encoding is not the utf-8 encoding of render()"
        mod = t.make_module(data)
        if str(mod) != ref:
            return "str(make_module()) differs from render()"
        if str(mod) != ref or mod.__html__() != ref:
            return "str()/__html__() of the module differ on a second conversion"
        if t.render(**data) != ref:
            return "a second render() after the other entry points differs from the first"
        if "".join(t.generate(**data)) != ref:
            return "generate() after str(module) differs from render()"
        if not data:
            # history: the cached template's globals are updated by a later get_template(name, globals=...)
            # (values that compare equal but render differently included: 1 == True == 1.0, 0 == False == -0.0)
            for gval in ("G1", "G2", "G1", 1, True, 1.0, 0, False, -0.0, 0.0, "1"):
                tg = env.get_template(main, globals={"gv": gval})
                if str(tg.module) != tg.render():
                    return ("str(template.module) differs from render() after get_template(name, globals=...) "
                            f"set the template global to {gval!r}")
                if "".join(tg.stream()) != tg.render():
                    return "stream() differs from render() after a globals update"
    except Exception as e:
        return f"entry point raised {type(e).__name__}: {e} although render() succeeded"
    nontriv = len(pieces) >= 2 and ref != ""
    ctx.case(sample={"templates": ts, "data": repr(data), "render": ref[:80]} if nontriv and len(ctx.samples) < 4 else None,
             key=("tpl", ts[main]) if nontriv else None)
    ctx.validated()
    return None


def replay(ctx, data):
    jinja2 = lib.use_repo_jinja()
    case = data.get("case")
    if data.get("kind") != "failing-input" or case is None:
        print("replay: this file names a broken theorem/correspondence, not an input:", data.get("broken"))
        return run(ctx)
    if "pieces" in case:
        impl = real_buffered(jinja2, case["size"], case["pieces"])
        m = ctx.driver("stream", [f"{max(case['size'],0)} " + " ".join(enc_piece(p) for p in case["pieces"])])[0]
        print("model:", m, "\nimpl :", impl)
        if impl != m:
            ctx.reject(case, "model and implementation differ on replayed case")
    else:
        tmpdir = tempfile.mkdtemp(prefix="c10_", dir=lib.BUILD)
        w = oracle_entry_points(jinja2, case["templates"], "main.html", case["data"], tmpdir, ctx, case.get("autoescape", False))
        for f in os.listdir(tmpdir):
            os.unlink(os.path.join(tmpdir, f))
        os.rmdir(tmpdir)
        print("oracle:", w)
        if w and w != "skip":
            ctx.reject(case, w)
