"""C03 — statements and variable scoping follow Jinja's scoping rules.

proof : Properties/C03.v — binding_sound / binding_covers (static, exact model of idtracking.py),
        scoping_correct_loopfilter_with (FrameExec = SpecStmt for every program of the fragment with
        loop filters and with-targets, by induction, under decidable guards; scoping_correct_core is
        its special case), C03_alias_refuted, scoping_refuted_rbw.
tie   : K-sym  the model's Symbols (refs, loads — ordered — stores, level) of EVERY frame ==
               the real Symbols captured by a recording CodeGenerator subclass in enter_frame,
               and == idtracking.symbols_for_node on the real AST for the root frame;
        K-run  extracted FrameExec == Template.render + make_module exports (text, error class,
               exported variables) on generated statement trees x 3 data assignments.
oracle: extracted SpecStmt (documented scoping rules) == the real engine; alpha-renaming
        metamorphic runs; hypothesis probes (NFKC-equal identifiers, helper-like names).
"""
import ast
import json

from . import lib
from . import scope_cfg as C
from . import scope_gen as G
from . import scope_ref as R

RULE = ("statement trees of size <= N (12 quick / 25 thorough) over the name pool {a, b, c, n} + macro names {m, k}, "
        "half of them restricted to the proved core fragment, each rendered on 3 data assignments (int / str / list "
        "values, ~30% of the names left undefined); distinct = (template source, data); non-trivial = renders "
        "without error, has at least one scoping construct (for / with / set block / filter / macro / call) and at "
        "least one assignment; plus chains of 3-5 nested scoping constructs whose own statements use 1-2 name subsets "
        "(pass-through scopes). Probes: NFKC-equal identifier pairs, helper-like and keyword-like identifiers, "
        "alpha-renamed copies.  Round 7: statement trees over the EXTENDED syntax (tuple targets of for / set, "
        "recursive loops with loop(...), break / continue, filtered block sets, loop.index0/first/last/length/revindex) "
        "judged by the python reference O2 on render arguments of many kinds (bool, float, Markup, a str subclass "
        "overriding __str__, tuple, dict, generator, iterator, __iter__-only and __getitem__-only objects, an object "
        "whose attribute protocol raises); every sampled program is also rendered under one of 15 environment "
        "configurations, and ONE environment is driven through sequences of operations compared with fresh ones.")

SIG_RBW = "C03:inner-scope-read-of-context-variable-assigned-later-by-enclosing-frame"
SIG_NFKC = "C03:nfkc-equal-identifiers-alias"
SIG_ESC = "C03:macro-called-after-its-defining-scope-ended"

SCOPING = {"for", "with", "setb", "filt", "macro", "callb"}
ASSIGN = {"set", "setb", "nsnew", "seta", "macro"}
WEIRD_NAMES = ["class", "def", "lambda", "import", "resolve", "missing", "context", "t_1", "l_0_a",
               "environment", "undefined", "concat", "str", "Ünï", "жук", "x9", "A", "_p"]


def tup(x):
    """json -> program tuples"""
    if isinstance(x, list):
        if x and isinstance(x[0], str) and x[0] in ("n", "i", "s", "cat", "add", "attr", "out", "if", "for", "set", "seta",
                                                     "nsnew", "setb", "with", "filt", "macro", "callo", "callb"):
            return tuple(tup(y) for y in x)
        return [tup(y) for y in x]
    return x


def fix_pairs(p):
    """binds / kvs are lists of pairs; params are lists of strings (json round trip keeps that)"""
    out = []
    for s in p:
        s = list(s)
        k = s[0]
        if k == "with":
            s[1] = [tuple(b) for b in s[1]]
            s[2] = fix_pairs(s[2])
        elif k == "nsnew":
            s[2] = [tuple(b) for b in s[2]]
        elif k == "if":
            s[2], s[3], s[4] = fix_pairs(s[2]), fix_pairs(s[3]), fix_pairs(s[4])
        elif k == "for":
            s[4], s[5] = fix_pairs(s[4]), fix_pairs(s[5])
        elif k in ("setb", "filt"):
            s[2] = fix_pairs(s[2])
        elif k == "macro":
            s[3] = fix_pairs(s[3])
        elif k == "callb":
            s[4] = fix_pairs(s[4])
        out.append(tuple(s))
    return out


class Runner:
    def __init__(self, ctx):
        self.ctx = ctx
        self.jinja2 = lib.use_repo_jinja()
        self.env = G.make_env(self.jinja2)
        self.rec = []
        self.rec_env = G.make_env(self.jinja2, record=self.rec)

    def real_symbols(self, src, N):
        from jinja2 import idtracking
        del self.rec[:]
        try:
            self.rec_env.compile(src, raw=True)
            ast = self.rec_env.parse(src)
            root = idtracking.symbols_for_node(ast)
        except Exception as e:  # noqa
            return "compile:" + type(e).__name__, None
        root_s = G.fmt_symbols((root.level, list(root.refs.items()), list(root.loads.items()), sorted(root.stores)), N)
        return " / ".join(G.fmt_symbols(s, N) for s in self.rec), root_s

    def judge(self, batch):
        """batch: list of dicts {prog, datas, kind}.  Runs model + spec (one driver call) and the
        real engine, reports through ctx."""
        ctx = self.ctx
        lines, meta = [], []
        for b in batch:
            N = G.Names()
            b["N"] = N
            first = len(lines)
            for d in b["datas"]:
                lines.append(G.run_line(b["prog"], d, N))
            lines.append(G.sym_line(b["prog"], N))
            meta.append(first)
        st = {}
        out = G.run_driver(lines, stats=st)
        if st.get("skipped"):
            ctx.count("skipped_model_did_not_finish", st["skipped"])
        for b, first in zip(batch, meta):
            self.judge_one(b, out[first:first + len(b["datas"]) + 1])

    def judge_one(self, b, outs):
        ctx = self.ctx
        p, N = b["prog"], b["N"]
        src = G.p_src(p)
        kinds = G.kinds_of(p)
        case0 = {"prog": p, "src": src, "kind": b["kind"]}
        # ---- K-sym
        msym = outs[-1]
        if msym is None or any(o is None for o in outs):
            return      # the model did not finish on this program (see scope_gen.run_driver): skipped
        rsym, rroot = self.real_symbols(src, N)
        ctx.count("ksym")
        if rsym != msym or (rroot is not None and rroot != msym.split(" / ")[0]):
            b["sym_bad"] = True
            self.sym_mismatch = getattr(self, "sym_mismatch", [])
            self.sym_mismatch.append((len(src), dict(case0, data=b["datas"][0]), msym, rsym))
        else:
            ctx.validated()
        # ---- K-run and oracle
        for d, line in zip(b["datas"], outs[:-1]):
            f, s, rs, guards = G.parse_run(line, N)
            real = G.real_render(self.env, src, d)
            case = dict(case0, data=d)
            # ---- O2 (python reference for the extended syntax) == extracted SpecStmt on the common AST
            o2 = R.Ref(d).render(p)
            if o2[0] != "skip" and "Fuel" not in (o2[-1], s[-1]):
                ctx.count("o2_vs_spec")
                if o2 != s:
                    self.o2_mismatch = getattr(self, "o2_mismatch", [])
                    self.o2_mismatch.append((len(src), case, o2, s))
            nontriv = real[0] == "ok" and (kinds & SCOPING) and (kinds & ASSIGN)
            ctx.case(sample={"src": src, "data": d, "render": real[1][:60] if real[0] == "ok" else real[1],
                             "exported": [list(x) for x in real[2]] if real[0] == "ok" else []}
                     if nontriv and len(src) > 60 else None,
                     key=(src, json.dumps(d, sort_keys=True)) if nontriv else None)
            ctx.count("run_" + b["kind"] + ("_ok" if real[0] == "ok" else "_" + str(real[1]).split(":")[0]))
            if guards["core"]:
                ctx.count("core_fragment")
            if guards["core2"] or guards["core3"]:
                ctx.count("proved_fragment")
            oracle_fail = None
            if real != s:
                oracle_fail = f"engine gives {real!r}, the scoping rules give {s!r}"
            if real[0] == "compile" and not guards["noalias"] and "SyntaxError" in real[1]:
                # NFKC-equal parameter names: CPython rejects the generated function definition
                ctx.reject(case, "generated code does not compile: " + real[1], SIG_NFKC)
                ctx.count("oracle_known_nfkc")
                continue
            if not guards["noalias"]:
                # NFKC-equal identifiers: outside the model's exactness claim (e.g. a parameter-typed
                # local can then hold `missing`, which the generated code prints unchecked); whatever the
                # engine does differently from the rules here is the recorded aliasing finding
                if oracle_fail:
                    ctx.reject(case, oracle_fail, SIG_NFKC)
                    ctx.count("oracle_known_nfkc")
                else:
                    ctx.validated()
                continue
            if real != f:
                self.run_mismatch = getattr(self, "run_mismatch", [])
                self.run_mismatch.append((len(src), case, f, real, oracle_fail, guards))
                continue
            ctx.validated()
            if oracle_fail:
                if (guards["core2"] or guards["core3"]) and guards["wf"] and guards["noalias"] and guards["rbw"]:
                    # contradicts scoping_correct_loopfilter_with / _macrodefs on an input where model == engine
                    ctx.reject(case, "a proved theorem (scoping_correct_*) is contradicted: " + oracle_fail, None)
                elif not guards["noalias"]:
                    ctx.reject(case, oracle_fail, SIG_NFKC)
                    ctx.count("oracle_known_nfkc")
                elif not guards["rbw"]:
                    ctx.reject(case, oracle_fail, SIG_RBW)
                    ctx.count("oracle_known_rbw")
                else:
                    ctx.reject(case, oracle_fail, None)

    def flush(self):
        """report model/engine disagreements, smallest first"""
        ctx = self.ctx
        for _, case, msym, rsym in sorted(getattr(self, "sym_mismatch", []), key=lambda t: t[0])[:5]:
            # the symbol tables differ: is the rendered output still what the rules say?
            N = G.Names()
            line = G.run_driver([G.run_line(case["prog"], case["data"], N)])[0]
            if line is None:
                continue
            f, s, rs, guards = G.parse_run(line, N)
            real = G.real_render(self.env, case["src"], case["data"])
            of = None
            if real != s and not (real == f and not guards["rbw"]):
                of = f"engine gives {real!r}, the scoping rules give {s!r}"
            ctx.model_mismatch("K-sym Symbols of a frame", case, msym, rsym, of)
        for _, case, f, real, of, guards in sorted(getattr(self, "run_mismatch", []), key=lambda t: t[0])[:8]:
            ctx.model_mismatch("K-run FrameExec vs Template.render", case, repr(f), repr(real), of)
        for _, case, o2, s in sorted(getattr(self, "o2_mismatch", []), key=lambda t: t[0])[:3]:
            ctx.model_mismatch("O2 python reference vs extracted SpecStmt (common AST)", case, repr(o2), repr(s), None)
        self.sym_mismatch, self.run_mismatch, self.o2_mismatch = [], [], []


def setblock_filter_ksym(run_, ctx, rng):
    """K-sym for {% set x | default(args) %}body{% endset %} after some statements: the filter
    arguments are analysed in the block's frame (RootVisitor.visit_AssignBlock)."""
    cases, lines = [], []
    for i in range(ctx.size(300, 2000)):
        g = G.SGen(rng, size=rng.randint(2, 8))
        pre = g.program() if rng.random() < 0.6 else []
        body = g.program()
        x = g.name()
        args = [g.expr(1) for _ in range(rng.randint(1, 2))]
        N = G.Names()
        src = G.p_src(pre) + "{% set " + x + " | default(" + ", ".join(G.e_src(e) for e in args[:1]) + ")" \
            + ("|replace('q', " + G.e_src(args[1]) + ")" if len(args) > 1 else "") + " %}" + G.p_src(body) + "{% endset %}"
        line = ("(symf " + str(N.id(x)) + " (args " + " ".join(G.e_sx(e, N) for e in args) + ") (pre "
                + " ".join(G.s_sx(s, N) for s in pre) + ") (body " + " ".join(G.s_sx(s, N) for s in body) + "))")
        cases.append((src, N))
        lines.append(line)
    out = G.run_driver(lines)
    bad = []
    for (src, N), msym in zip(cases, out):
        if msym is None:
            continue
        rsym, _ = run_.real_symbols(src, N)
        ctx.case(key=("setblock-filter", src))
        ctx.count("ksym_setblock_filter")
        if rsym == "compile:AssertionError":
            # the code generator could not resolve a name of the template: every name must resolve
            # to a binder or to the context (binding_covers)
            ctx.reject({"src": src, "kind": "setblock-filter", "data": {}},
                       "compiling the template raises an internal AssertionError (a name used in the filter "
                       "arguments of a block set is unknown to the block's frame)", None)
        elif rsym != msym:
            bad.append((len(src), src, msym, rsym))
        else:
            ctx.validated()
    for _, src, m, r in sorted(bad)[:3]:
        ctx.model_mismatch("K-sym Symbols of a filtered block set", {"src": src, "kind": "setblock-filter"}, m, r, None)


NEW_KINDS = {"break", "continue", "loopcall"}


def ext_features(p, acc=None):
    """which round-7 constructs a program uses"""
    acc = set() if acc is None else acc
    for s in p:
        k = s[0]
        if k in NEW_KINDS:
            acc.add(k)
        if k == "for":
            if not isinstance(s[1], str):
                acc.add("tuple-for")
            if len(s) > 6 and s[6]:
                acc.add("recursive")
            ext_features(s[4], acc), ext_features(s[5], acc)
        elif k == "set" and not isinstance(s[1], str):
            acc.add("tuple-set")
        elif k == "setb":
            if len(s) > 3 and s[3] is not None:
                acc.add("setb-filter")
            ext_features(s[2], acc)
        elif k == "if":
            ext_features(s[2], acc), ext_features(s[3], acc), ext_features(s[4], acc)
        elif k in ("with", "filt"):
            if k == "filt" and not isinstance(s[1], str):
                acc.add("filter-args")
            ext_features(s[2], acc)
        elif k == "macro":
            ext_features(s[3], acc)
        elif k == "callb":
            acc.add("callb")
            ext_features(s[4], acc)
        elif k in ("nsnew", "seta"):
            acc.add("namespace")
        elif k == "calla":
            acc.add("ns-call")
        elif k == "callo":
            acc.add("call")
    return acc


def ext_env(jinja2):
    env = G.make_env(jinja2)
    env.add_extension("jinja2.ext.loopcontrols")
    return env


def ext_judge(ctx, env, p, ds, kind="ext"):
    """oracle O2 on one extended program: engine == reference (text, error class, exported variables)"""
    src = R.p2_src(p)
    mk = lambda: R.make_data(ds)      # noqa
    ref = R.Ref(mk())
    want = ref.render(p)
    if want[0] == "skip":
        ctx.count("ext_skipped_budget")
        return None, src
    real = R.real_render2(env, src, mk)
    feats = ext_features(p)
    kinds = {v[0] if v[0] != "plain" else type(v[1]).__name__ for v in ds.values()}
    ctx.case(key=("ext", src, repr(sorted(ds.items()))) if real[0] == "ok" and feats else None)
    for f in feats:
        ctx.count("ext_uses_" + f)
    for k in kinds:
        ctx.count("ext_value_" + k)
    ctx.count("ext_" + (real[0] if real[0] != "err" else real[1]))
    if R.norm_obs(real) != R.norm_obs(want) and R.stable(ds) != ds:
        # the text of a real generator carries its address (and a loop can walk over that text): judge this
        # program on single-use iterators with a stable text form instead
        return ext_judge(ctx, env, p, R.stable(ds), kind)
    if ref.escaped:
        ctx.count("ext_macro_called_after_its_scope_ended")
    if R.norm_obs(real) != R.norm_obs(want):
        # a macro called after a scope of its defining chain has ended reads that scope's python locals after
        # they were reset (recorded finding); every other difference is a violation
        ctx.reject({"prog_repr": repr(p), "dspec_repr": repr(ds), "src": src, "kind": kind},
                   f"engine gives {R.norm_obs(real)!r}, the scoping rules (reference O2) give {R.norm_obs(want)!r}",
                   SIG_ESC if ref.escaped else None)
        if ref.escaped:
            ctx.count("oracle_known_macro_escape")
    else:
        ctx.validated()
    return real, src


_say = lambda *es: ("out", list(es))      # noqa
_M = ("macro", "m", [], [_say(("s", "["), ("n", "a"), ("s", "]"))])
EXT_PROBES = [
    # a macro leaves its defining scope through a namespace attribute and is called afterwards
    ([("nsnew", "n", []), ("for", "a", ("s", "p"), None, [_M, ("seta", "n", "v", ("n", "m"))], []), ("calla", "n", "v", [])], {}),
    ([("nsnew", "n", []), ("with", [("a", ("i", 1))], [_M, ("seta", "n", "v", ("n", "m"))]),
      ("with", [("a", ("i", 2))], [("calla", "n", "v", [])]), ("calla", "n", "v", [])], {}),
    # ... and called inside its scope: must agree with the rules
    ([("nsnew", "n", []), ("with", [("a", ("i", 1))], [_M, ("seta", "n", "v", ("n", "m")), ("calla", "n", "v", [])])], {}),
    # block-set filter argument read before a later assignment (fixed in /repo, see known_findings.d/C03.json)
    ([("setb", "b", [_say(("s", "q"))], ("rep", ("n", "c"))), _say(("n", "b")), ("set", "c", ("s", "Q"))], {"c": ("plain", "Z")}),
    ([("filt", ("rep", ("n", "c")), [_say(("s", "q"))]), ("set", "c", ("s", "Q"))], {"c": ("plain", "Z")}),
    # namespace(source) copies: neither the source nor a second namespace made from it changes with the first
    ([("nsnew", "n", [(None, ("n", "a"))]), ("seta", "n", "v", ("s", "new")), _say(("attr", "a", "v"), ("s", "|"), ("attr", "n", "v")),
      ("nsnew", "b", [(None, ("n", "a"))]), _say(("s", "|"), ("attr", "b", "v"), ("n", "a"))], {"a": ("dict", [("v", "old"), ("w", 1)])}),
    ([("nsnew", "n", [(None, ("n", "a")), ("w", ("i", 2))]), ("seta", "n", "v", ("i", 6)), _say(("attr", "a", "v"), ("attr", "a", "w"), ("attr", "n", "w"))],
     {"a": ("dict", [("v", 0)])}),
    ([("nsnew", "n", [(None, ("n", "a"))]), ("for", "c", ("s", "pq"), None, [("seta", "n", "v", ("cat", ("attr", "n", "v"), ("n", "c")))], []),
      _say(("attr", "n", "v"), ("n", "a"))], {"a": ("plain", [["v", "x"]])}),
    # round 9 (fixed in /repo): assignments in the body of a filter block / block set leaked into the tag's arguments
    ([("set", "c", ("s", "o")), ("filt", ("rep", ("n", "c")), [("set", "c", ("s", "i")), _say(("s", "A"))])], {}),
    ([("set", "c", ("s", "o")), ("setb", "b", [("set", "c", ("s", "i")), _say(("s", "A"))], ("rep", ("n", "c"))), _say(("n", "b"))], {}),
]


def extended_stream(run_, ctx, rng, keep):
    env = ext_env(run_.jinja2)
    for p, ds in EXT_PROBES:
        ext_judge(ctx, env, p, ds, kind="ext-probe")
    for p, ds in R.special_sweep():
        ext_judge(ctx, env, p, ds, kind="ext-special")
    n = ctx.size(1000, 10000)
    for i in range(n):
        g = R.EGen(rng, size=rng.randint(3, ctx.size(14, 22)))
        p = g.program()
        avoid = R.unsafe_names(p)
        m = {}
        if i % 4 == 3:
            # the same judgement on a consistently renamed copy (fresh, Unicode, keyword-like, helper-like names)
            m = alpha_maps(rng, ["a", "b", "c", "n", "m", "k"])[rng.randrange(2)]
            p = R.rename2(p, m)
            ctx.count("ext_renamed")
        for _ in range(2):
            ds = {m.get(x, x): v for x, v in g.dspec(avoid).items()}
            real, src = ext_judge(ctx, env, p, ds)
            if real is not None and len(keep) < 4000:
                keep.append((p, ds, src, real))


def config_stream(run_, ctx, rng, keep):
    """every kept (program, data) rendered under one sampled configuration (round-robin over all of them):
    the observation must be the default configuration's"""
    cf = C.Configs(run_.jinja2)
    run_.ext_env = ext_env(run_.jinja2)
    ctx.extra["configurations"] = {"explored": C.NAMES, "excluded": C.EXCLUDED}
    # a FIXED set first, under EVERY configuration on every run (not subject to sampling): loops with a filter whose
    # iterable mentions the name of the loop target (top level, nested, over a macro parameter, tuple target, in a
    # call block), judged by the reference O2 and compared across configurations
    _o = lambda *es: ("out", list(es))      # noqa
    fixed = [
        ([("for", "a", ("n", "a"), ("n", "a"), [_o(("s", "["), ("n", "a"), ("s", "]"))], []), _o(("s", "|"), ("n", "a"))], {"a": ("plain", [1, 0, 2])}),
        ([("for", "b", ("n", "c"), None, [("for", "b", ("n", "b"), ("n", "b"), [_o(("n", "b"), ("attr", "loop", "index"))], [_o(("s", "e"))])], [])],
         {"c": ("plain", [[1, 0], [0], [2, 3]])}),
        ([("macro", "m", ["a"], [("for", "a", ("n", "a"), ("n", "a"), [_o(("n", "a"))], [_o(("s", "none"))])]), ("callo", "m", [("n", "c")]),
          ("callo", "m", [("n", "b")])], {"c": ("plain", [3, 0, 4]), "b": ("plain", [0])}),
        ([("for", ["a", "b"], ("n", "a"), ("n", "b"), [_o(("n", "a"), ("n", "b"))], [])], {"a": ("plain", [[1, 2], [3, 0], [5, "q"]])}),
        ([("macro", "m", [], [("callo", "caller", [("n", "c")])]),
          ("callb", ["a"], "m", [], [("for", "a", ("n", "a"), ("attr", "loop", "length"), [_o(("n", "a"))], [])])], {"c": ("tuple", ["p", "q"])}),
        ([("for", "a", ("n", "a"), ("n", "a"), [_o(("n", "a")), ("if", ("n", "a"), [("continue",)], [], []), _o(("s", "x"))], [])],
         {"a": ("oneshot", [2, 0, 1])}),
    ]
    for p, ds in fixed:
        base, src = ext_judge(ctx, run_.ext_env, p, ds, kind="ext-fixed")
        if base is None:
            continue
        mk = lambda: R.make_data(ds)      # noqa
        for name in C.NAMES:
            want = C.comparable(name, R.norm_obs(base), src)
            if want is None:
                continue
            got = R.norm_obs(cf.render(name, src, mk))
            if got[0] == "skip":
                continue
            ctx.case()
            ctx.count("config_fixed_" + name)
            if got != want:
                ctx.reject({"prog_repr": repr(p), "dspec_repr": repr(ds), "src": src, "kind": "config", "config": name},
                           f"configuration {name} changes the result: default {want!r}, {name} {got!r}", None)
            else:
                ctx.validated()
    n = ctx.size(650, 6000)
    for i in range(min(n, len(keep))):
        p, ds, src, base = keep[rng.randrange(len(keep))]
        name = C.NAMES[i % len(C.NAMES)]
        want = C.comparable(name, R.norm_obs(base), src)
        if want is None:
            ctx.count("config_not_comparable_" + name)
            continue
        mk = lambda: R.make_data(ds)      # noqa
        got = R.norm_obs(cf.render(name, src, mk))
        if got[0] == "skip":
            ctx.count("config_skip_" + name + "_" + got[1])
            continue
        if got[0] == "compile" and want[0] == "compile":
            got = want
        if got != want and R.stable(ds) != ds:
            ds = R.stable(ds)       # addresses in the text of real generators: compare on stable stand-ins
            want = C.comparable(name, R.norm_obs(R.real_render2(run_.ext_env, src, mk)), src)
            got = R.norm_obs(cf.render(name, src, mk)) if want is not None else None
        ctx.case()
        ctx.count("config_" + name)
        if got != want:
            ctx.reject({"prog_repr": repr(p), "dspec_repr": repr(ds), "src": src, "kind": "config", "config": name},
                       f"configuration {name} changes the result: default {want!r}, {name} {got!r}", None)
        else:
            ctx.validated()


def config_one(run_, ctx, p, ds, src, base, name):
    cf = C.Configs(run_.jinja2)
    want = C.comparable(name, R.norm_obs(base), src)
    got = R.norm_obs(cf.render(name, src, lambda: R.make_data(ds)))
    print("config  :", name, got)
    if want is not None and got[0] != "skip" and got != want:
        ctx.reject({"prog_repr": repr(p), "dspec_repr": repr(ds), "src": src, "kind": "config", "config": name},
                   f"configuration {name} changes the result: default {want!r}, {name} {got!r}", None)


def history_stream(run_, ctx, rng, keep):
    """state that survives a call (template cache, cached .module, globals, the Template object itself): ONE
    environment for the whole stream, sequences of operations, each compared with a fresh environment"""
    env = ext_env(run_.jinja2)
    fresh = lambda: ext_env(run_.jinja2)      # noqa
    for i in range(ctx.size(100, 800)):
        items = []
        for _ in range(rng.randint(1, 3)):
            p, ds, src, base = keep[rng.randrange(len(keep))]
            g = R.EGen(rng)
            alt, ds = R.stable(g.dspec(R.unsafe_names(p))), R.stable(ds)
            if R.Ref(R.make_data(alt)).render(p)[0] == "skip":
                alt = ds        # the text explodes on that data: not handed to the engine
            items.append((src, [lambda ds=ds: R.make_data(ds), lambda alt=alt: R.make_data(alt)]))
        for op, src, got, want in C.history(run_.jinja2, env, rng, items, fresh):
            ctx.case()
            ctx.count("history_" + op)
            if R.norm_obs(got) != R.norm_obs(want) if got[0] == "ok" and len(got) == 3 else _n(got) != _n(want):
                ctx.reject({"src": src, "kind": "history", "op": op, "others": [s for s, _ in items]},
                           f"after other operations on the same environment, {op} gives {got!r}; a fresh environment gives {want!r}", None)
            else:
                ctx.validated()


def _n(o):
    return tuple(R._addr.sub("", x) if isinstance(x, str) else x for x in o)


def alpha_maps(rng, names):
    fresh = [f"v{i}_{rng.randint(0, 99)}" for i in range(len(names))]
    weird = rng.sample(WEIRD_NAMES, len(names))
    return dict(zip(names, fresh)), dict(zip(names, weird))


def alpha_check(run, ctx, p, d, rng):
    names = ["a", "b", "c", "n", "m", "k"]
    src = G.p_src(p)
    base = G.real_render(run.env, src, d)
    if base[0] == "compile":
        return
    for m in alpha_maps(rng, names):
        p2 = G.rename_prog(p, m)
        d2 = {m.get(k, k): v for k, v in d.items()}
        src2 = G.p_src(p2)
        got = G.real_render(run.env, src2, d2)
        ctx.case()
        ctx.count("alpha")
        if base[0] == "ok":
            # a printed macro object carries its NAME (<Macro 'k'>, also lower- / upper-cased by a filter block): the
            # renamed program legitimately prints the new name, so such programs are not compared textually
            if "<macro" in base[1].lower() or any("<macro" in v.lower() for _, v in base[2]):
                ctx.count("alpha_skipped_prints_macro_name")
                continue
            want = ("ok", base[1], tuple(sorted((m.get(k, k), v) for k, v in base[2] if not m.get(k, k).startswith("_"))))
            if got[0] == "ok":
                got = ("ok", got[1], tuple(sorted(got[2])))
        else:
            want = base
        if got != want:
            ctx.reject({"prog": p, "src": src, "data": d, "renamed_src": src2, "kind": "alpha"},
                       f"consistent renaming {m} changed the result: {want!r} -> {got!r}", None)
        else:
            ctx.validated()


PROBES = [
    # (program, data): the two recorded refutation witnesses first, through the real engine
    ([("set", "ﬁ", ("i", 1)), ("set", "fi", ("i", 2)), ("out", [("n", "ﬁ")])], {}),
    ([("set", "µ", ("i", 1)), ("set", "μ", ("i", 2)), ("out", [("n", "µ")])], {}),
    ([("set", "a", ("i", 1)), ("set", "ª", ("i", 2)), ("out", [("n", "a"), ("s", "|"), ("n", "ª")])], {}),
    ([("out", [("n", "ª"), ("s", "|"), ("n", "a")])], {"ª": "X", "a": "Y"}),      # no assignment at all: two render arguments
    ([("for", "i", ("n", "x"), None, [("out", [("n", "a")])], []), ("set", "a", ("i", 1))], {"a": 5, "x": [0, 0]}),
    ([("with", [], [("out", [("n", "a")])]), ("set", "a", ("i", 1))], {"a": 5}),
    ([("filt", "u", [("out", [("n", "a")])]), ("set", "a", ("s", "z"))], {"a": "q"}),
    ([("setb", "b", [("out", [("n", "a")])]), ("set", "a", ("i", 1)), ("out", [("n", "b")])], {"a": 5}),
    ([("macro", "m", [], [("out", [("n", "a")])]), ("callo", "m", []), ("set", "a", ("i", 1)), ("callo", "m", [])], {"a": 5}),
    # same shapes with the guard satisfied (a is not supplied): must agree with the rules
    ([("for", "i", ("n", "x"), None, [("out", [("n", "a")])], []), ("set", "a", ("i", 1)), ("out", [("n", "a")])], {"x": [0, 0]}),
    # full-width identifiers (NFKC folds them onto the ASCII ones)
    ([("set", "ａ", ("i", 1)), ("for", "a", ("s", "pq"), None, [("out", [("n", "ａ"), ("n", "a")])], [])], {}),
]


def run(ctx):
    run_ = Runner(ctx)
    ctx.extra["rule"] = RULE
    ctx.assumptions += [
        "values are ints, simple strings, lists of them, undefined, namespaces, macros; autoescape off; default Undefined",
        "CPython normalises identifiers with NFKC (pynorm); the harness computes it with unicodedata.normalize",
        "the generated Python is executed by CPython as the FrameExec model describes (locals, closures, generators): "
        "tied by K-run, not proved",
        "fuel: model and spec consume fuel identically; a Fuel result is compared with RecursionError",
    ]
    ctx.proof("C03")

    size = ctx.size(12, 25)
    nprog = ctx.size(1500, 12000)
    batch = []
    # hypothesis probes and the recorded witnesses
    for p, d in PROBES:
        batch.append({"prog": p, "datas": [d], "kind": "probe"})
    rng = ctx.rng
    core_feats = ["if", "for", "set", "setb", "with", "filt", "ns"]
    progs = []
    for i in range(nprog):
        feats = core_feats if i % 2 == 0 else None
        g = G.SGen(rng, features=feats, size=rng.randint(3, size))
        p = g.program()
        datas = [g.data() for _ in range(3)]
        progs.append((p, datas))
        batch.append({"prog": p, "datas": datas, "kind": "core" if feats else "full"})
    # deep nesting with pass-through scopes (a variable owned by an outer non-root scope, not mentioned
    # in between, conditionally assigned and read further inside)
    for i in range(ctx.size(500, 4000)):
        g = G.NGen(rng)
        p = g.program()
        datas = [g.data() for _ in range(2)]
        progs.append((p, datas))
        batch.append({"prog": p, "datas": datas, "kind": "nest"})
    # NFKC hypothesis-violating inputs inside the quantifier: rename two pool names onto an NFKC-equal pair
    for i in range(ctx.size(60, 300)):
        p, datas = progs[rng.randrange(len(progs))]
        pair = rng.choice([("ﬁ", "fi"), ("µ", "μ"), ("ｂ", "b"), ("ⅰ", "i"), ("ª", "a"), ("ℌ", "H"), ("ǆ", "dž")])
        m = {"a": pair[0], "b": pair[1]}
        batch.append({"prog": G.rename_prog(p, m), "datas": [{m.get(k, k): v for k, v in datas[0].items()}], "kind": "nfkc"})
    for i in range(0, len(batch), 400):
        run_.judge(batch[i:i + 400])
    run_.flush()
    setblock_filter_ksym(run_, ctx, rng)
    # alpha-renaming metamorphic runs
    for p, datas in progs[:ctx.size(400, 2000)]:
        alpha_check(run_, ctx, p, datas[0], rng)
    # round 7: extended syntax / value kinds judged by O2; configurations; histories
    keep = []
    for p, datas in progs[:ctx.size(400, 3000)]:
        ds = {k: ("plain", v) for k, v in datas[0].items()}
        src = R.p2_src(p)
        keep.append((p, ds, src, R.real_render2(run_.env, src, lambda: R.make_data(ds))))
    extended_stream(run_, ctx, rng, keep)
    config_stream(run_, ctx, rng, keep)
    history_stream(run_, ctx, rng, keep)


def replay(ctx, data):
    case = data.get("case")
    if data.get("kind") == "failing-input" and isinstance(case, dict) and case.get("kind") == "setblock-filter":
        run_ = Runner(ctx)
        rsym, _ = run_.real_symbols(case["src"], G.Names())
        print("template:", case["src"], "\nsymbols engine:", rsym)
        if rsym == "compile:AssertionError":
            ctx.reject(case, "compiling the template raises an internal AssertionError", None)
        return
    if data.get("kind") == "failing-input" and isinstance(case, dict) and "prog_repr" in case:
        run_ = Runner(ctx)
        p, ds = ast.literal_eval(case["prog_repr"]), ast.literal_eval(case["dspec_repr"])
        real, src = ext_judge(ctx, ext_env(run_.jinja2), p, ds)
        print("template:", src, "\ndata    :", ds, "\nengine  :", real, "\nrules   :", R.Ref(R.make_data(ds)).render(p))
        if case.get("kind") == "config":
            config_one(run_, ctx, p, ds, src, real, case["config"])
        return
    if data.get("kind") == "failing-input" and isinstance(case, dict) and case.get("kind") == "history":
        print("replay: a history case depends on the whole sequence; re-running the check with the same seed")
        return run(ctx)
    if data.get("kind") != "failing-input" or not isinstance(case, dict) or "prog" not in case:
        print("replay: this file names a broken theorem / correspondence, not an input:", data.get("broken"))
        return run(ctx)
    run_ = Runner(ctx)
    p = fix_pairs(tup(case["prog"]))
    d = case.get("data", {})
    N = G.Names()
    line = G.run_driver([G.run_line(p, d, N), G.sym_line(p, N)], line_timeout=60)
    if line[0] is None or line[1] is None:
        print("replay: the model does not finish on this input")
        return
    f, s, rs, guards = G.parse_run(line[0], N)
    src = G.p_src(p)
    real = G.real_render(run_.env, src, d)
    rsym, _ = run_.real_symbols(src, N)
    print("template:", src, "\ndata    :", d, "\nengine  :", real, "\nmodel   :", f, "\nspec    :", s, "\nguards  :", guards)
    print("symbols engine:", rsym, "\nsymbols model :", line[1])
    if case.get("kind") == "alpha":
        alpha_check(run_, ctx, p, d, ctx.rng)
        return
    run_.judge([{"prog": p, "datas": [d], "kind": "replay"}])
    run_.flush()
