"""Template sets with include / import / from-import for C05 (reused by C31).

stmt := ("o", text) | ("p", var) | ("a", mod, attr) | ("s", var, ("c", text) | ("v", var)) | ("m", name, text)
      | ("i", [targets], is_list, with_ctx, ignore) | ("I", target, alias, with_ctx)
      | ("F", target, [(name, alias)], with_ctx) | ("S", kind, var, [vals], [stmts])     kind: f / w / m / b (block rendered in place) / B (scoped block)
target := ("n", template name) | ("o", template name)     (by name / Template object in a data variable)
tset := {"templates": {name: {"globals": {...}, "body": [stmts]}}, "main": name, "data": {...},
         "env_globals": {...}}
"""
from __future__ import annotations

from markupsafe import Markup

from .inh_gen import enc_str, dec_str  # noqa: F401

NAMES = {"a": 1, "b": 2, "c": 3, "d": 4, "x": 5, "y": 6, "g": 7, "mg": 8, "tg": 9, "i": 11, "j": 12, "w": 13, "k": 14,
         "f1": 20, "f2": 21, "m1": 30, "m2": 31, "q1": 40, "q2": 41, "_p": 100, "_q": 101}
TNAMES = {"main": 1, "t1": 2, "t2": 3, "t3": 4, "nope": 9, "nope2": 10}
PUBLIC_VARS = ["a", "b", "c", "d"]
PROBE_POOL = ["a", "b", "c", "d", "x", "y", "g", "mg", "tg", "i", "j", "w", "k", "f1", "f2", "q1", "q2", "_p"]


def probe_src(e):
    return ("{%% if %s is undefined %%}?{%% elif %s is string %%}{{ %s }}{%% elif %s is callable %%}M{{ %s() }}"
            "{%% else %%}#{%% endif %%}" % ((e,) * 5))


class StrSub(str):
    """a user-defined str subclass (neither exactly str nor Markup)"""


STR_KINDS = {"str": str, "markup": Markup, "sub": StrSub}


def target_src(t):
    """how a target is written: a literal name, a Template object in a render variable, a NAME in a render variable
    (exact str / Markup / user str subclass), a name produced by a set block (Markup under autoescape), a literal
    marked |safe (Markup)"""
    k = t[0]
    if k == "n":
        return repr(t[1])
    if k == "o":
        return "tobj_" + t[1]
    if k == "v":
        return "tnm_%s_%s" % (t[1], t[2])
    if k == "s":
        return "zn_" + t[1]
    if k == "f":
        return "%r|safe" % t[1]
    raise AssertionError(t)


def target_pre(ts_):
    return "".join("{%% set zn_%s %%}%s{%% endset %%}" % (t[1], t[1]) for t in ts_ if t[0] == "s")


IF_WRAPS = [("", ""), ("{% if 1 %}", "{% endif %}"), ("{% if 0 %}{% else %}", "{% endif %}"),
            ("{% if 0 %}{% elif 1 %}", "{% endif %}"), ("{% if 1 %}{% if 1 %}", "{% endif %}{% endif %}")]


class Src:
    def __init__(self):
        self.n = 0
        self.k = 0

    def wrapped(self, text):
        """an assignment / macro definition directly or under a top-level if / else / elif (a soft frame: same scope,
        same exports), chosen by position so that the source of a template is stable"""
        self.k += 1
        o, c = IF_WRAPS[self.k % len(IF_WRAPS)]
        return o + text + c

    def stmts(self, ss, out):
        for s in ss:
            k = s[0]
            if k == "o":
                out.append(s[1])
            elif k == "p":
                out.append(probe_src(s[1]))
            elif k == "a":
                out.append(probe_src(s[1] + "." + s[2]))
            elif k == "s":
                out.append(self.wrapped("{%% set %s = %s %%}" % (s[1], repr(s[2][1]) if s[2][0] == "c" else s[2][1])))
            elif k == "T":
                out.append(self.wrapped("{%% set %s = %s %%}" % (", ".join(n for n, _ in s[1]),
                                                                   ", ".join(repr(v) for _, v in s[1]))))
            elif k == "m":
                out.append(self.wrapped("{%% macro %s() %%}%s{%% endmacro %%}" % (s[1], s[2])))
            elif k == "i":
                _, ts, is_list, wc, ign = s
                out.append(target_pre(ts) if is_list != "var" else "")
                if is_list == "var":
                    e = "lst_" + "_".join(t[0] + t[1] for t in ts) if ts else "lst_empty"
                elif is_list == "tuple":
                    e = "(" + ", ".join(target_src(t) for t in ts) + ("," if len(ts) == 1 else "") + ")"
                else:
                    e = "[" + ", ".join(target_src(t) for t in ts) + "]" if is_list else target_src(ts[0])
                out.append("{%% include %s%s%s %%}" % (e, " ignore missing" if ign else "",
                                                      "" if wc is None else (" with context" if wc else " without context")))
            elif k == "I":
                _, t, alias, wc = s
                out.append(target_pre([t]))
                out.append("{%% import %s as %s%s %%}" % (target_src(t), alias,
                                                        "" if wc is None else (" with context" if wc else " without context")))
            elif k == "F":
                _, t, names, wc = s
                out.append(target_pre([t]))
                out.append("{%% from %s import %s%s %%}" % (
                    target_src(t), ", ".join(n if n == a else f"{n} as {a}" for n, a in names),
                    "" if wc is None else (" with context" if wc else " without context")))
            elif k == "X":
                pass        # printed first by sources()
            elif k == "S":
                _, kind, v, vals, body = s
                if kind == "f":
                    out.append("{%% for %s in [%s] %%}" % (v, ", ".join(repr(x) for x in vals)))
                    self.stmts(body, out)
                    out.append("{% endfor %}")
                elif kind == "w":
                    out.append("{%% with %s = %r %%}" % (v, vals[0]))
                    self.stmts(body, out)
                    out.append("{% endwith %}")
                elif kind in ("b", "B"):
                    self.n += 1
                    out.append("{%% block blk%d%s %%}" % (self.n, " scoped" if kind == "B" else ""))
                    self.stmts(body, out)
                    out.append("{% endblock %}")
                else:
                    self.n += 1
                    me = self.n
                    out.append("{%% macro _m%d() %%}{%% set %s = %r %%}" % (me, v, vals[0]))
                    self.stmts(body, out)
                    out.append("{%% endmacro %%}{{ _m%d() }}" % me)
            else:
                raise AssertionError(s)


def sources(ts):
    res = {}
    for n, t in ts["templates"].items():
        out = [target_pre([s[1]]) + "{%% extends %s %%}" % target_src(s[1]) for s in t["body"] if s[0] == "X"]
        Src().stmts(t["body"], out)
        res[n] = "".join(out)
    return res


def flag(wc, default):
    return default if wc is None else wc


def enc_target(t, out):
    out += ["o" if t[0] == "o" else "n", str(TNAMES[t[1]])]


def expand_tuple_sets(ss):
    """a multi-target assignment of constants is, for the model, the assignments one after the other"""
    res = []
    for s in ss:
        if s[0] == "T":
            res += [("s", n, ("c", v)) for n, v in s[1]]
        else:
            res.append(s)
    return res


def enc_stmts(ss, out):
    ss = expand_tuple_sets(ss)
    out.append(str(len(ss)))
    for s in ss:
        k = s[0]
        if k == "o":
            out += ["o", enc_str(s[1])]
        elif k == "p":
            out += ["p", str(NAMES[s[1]])]
        elif k == "a":
            out += ["a", str(NAMES[s[1]]), str(NAMES[s[2]])]
        elif k == "s":
            out += ["s", str(NAMES[s[1]])] + (["c", enc_str(s[2][1])] if s[2][0] == "c" else ["v", str(NAMES[s[2][1]])])
        elif k == "m":
            out += ["m", str(NAMES[s[1]]), enc_str(s[2])]
        elif k == "i":
            _, ts, is_list, wc, ign = s
            out += ["i", "1" if is_list else "0", "1" if flag(wc, True) else "0", "1" if ign else "0", str(len(ts))]
            for t in ts:
                enc_target(t, out)
        elif k == "I":
            out.append("I")
            enc_target(s[1], out)
            out += [str(NAMES[s[2]]), "1" if flag(s[3], False) else "0"]
        elif k == "F":
            out.append("F")
            enc_target(s[1], out)
            out.append(str(len(s[2])))
            for n, a in s[2]:
                out += [str(NAMES[n]), str(NAMES[a])]
            out.append("1" if flag(s[3], False) else "0")
        elif k == "X":
            out.append("X")
            enc_target(s[1], out)
        elif k == "S":
            _, kind, v, vals, body = s
            out += ["S", kind, str(NAMES[v]), str(len(vals))] + [enc_str(x) for x in vals]
            enc_stmts(body, out)


def model_line(ts, mode="r", fuel=400, main=None):
    out = [str(fuel), mode, str(TNAMES[main or ts["main"]])]
    data = [(NAMES[k], v) for k, v in ts["data"].items() if k in NAMES] if mode == "r" else []
    out.append(str(len(data)))
    for k, v in data:
        out += [str(k), enc_str(v)]
    out.append(str(len(ts["templates"])))
    for n, t in ts["templates"].items():
        g = dict(ts["env_globals"])
        g.update(t["globals"])
        out += [str(TNAMES[n]), str(len(g))]
        for k, v in g.items():
            out += [str(NAMES[k]), enc_str(v)]
        enc_stmts(t["body"], out)
    return " ".join(out)


# ---------------------------------------------------------------- the real engine
ENV_KINDS = ["plain", "async", "autoescape", "sandbox", "async+autoescape", "custom"]


def make_env(jinja2, ts, srcs=None, loader=None, kind="plain"):
    loader = loader or jinja2.DictLoader(srcs if srcs is not None else sources(ts))
    if kind == "custom":
        # every documented extension point overridden (context_class, template_class, code_generator_class, concat,
        # undefined, finalize) in a behaviour-preserving way
        from .inh_gen import custom_environment_class
        cls, undef = custom_environment_class(jinja2)
        env = cls(loader=loader, undefined=undef, finalize=lambda v: v)
    elif kind == "sandbox":
        from jinja2.sandbox import SandboxedEnvironment
        env = SandboxedEnvironment(loader=loader)
    else:
        env = jinja2.Environment(loader=loader, enable_async="async" in kind, autoescape="autoescape" in kind)
    env.globals.update(ts["env_globals"])
    return env


def canon_exc(jinja2, e):
    from jinja2 import exceptions as X
    if isinstance(e, X.UndefinedError):
        return "E Undefined"
    if isinstance(e, X.TemplateNotFound):      # TemplatesNotFound is a subclass
        return "E NotFound"
    if isinstance(e, RecursionError):
        return "E Fuel"
    if isinstance(e, KeyError):
        return "E Key"
    return "X:" + type(e).__name__ + ":" + str(e)[:60]


def preload(env, ts):
    # template-level globals: get_template(name, globals=...) before anything is rendered
    for n, t in ts["templates"].items():
        if t["globals"]:
            env.get_template(n, globals=dict(t["globals"]))


def real_render(jinja2, ts, env=None, history=False):
    try:
        env = env or make_env(jinja2, ts)
        preload(env, ts)
        data = dict(ts["data"])
        for n in ts.get("objects", []):
            data["tobj_" + n] = env.get_template(n)
        for n, kind in ts.get("names", []):
            data["tnm_%s_%s" % (n, kind)] = STR_KINDS[kind](n)
        def fresh_lists():
            res = {}
            try:
                main_src = env.loader.get_source(env, ts["main"])[0]
            except Exception:  # noqa: a loader without sources (ModuleLoader): one-shot iterables are not used
                main_src = None
            for vi, (var, targets) in enumerate(sorted(ts.get("lists", {}).items())):
                vals = [env.get_template(t[1]) if t[0] == "o" else
                        (Markup(t[1]) if i % 2 else StrSub(t[1]) if i % 3 == 0 else t[1]) for i, t in enumerate(targets)]
                # every kind of iterable of names: list, tuple, generator, iterator, and a set when its iteration order
                # cannot matter (at most one candidate exists)
                kind = ts.get("list_kinds", {}).get(var, (len(var) + vi + len(targets)) % 5)
                existing = {t[1] for t in targets if t[0] == "o" or t[1] in ts["templates"]}
                if kind == 1:
                    vals = tuple(vals)
                elif kind == 2 and main_src is not None and main_src.count(var) == 1:
                    vals = (v for v in list(vals))
                elif kind == 3 and main_src is not None and main_src.count(var) == 1:
                    vals = iter(list(vals))
                elif kind == 4 and len(existing) <= 1 and all(t[0] != "o" for t in targets):
                    vals = set(vals)
                res[var] = vals
            return res
        data.update(fresh_lists())
        if history:
            # an earlier render of the same environment (cached templates, cached default modules) with other data
            # and with OTHER VALUES of the same template-level globals: the named templates re-fetched with new globals
            # (since db6ea53 a globals update rebuilds the cached default module), and an UNNAMED template
            # (from_string) with the main template's source and other global values
            try:
                # only the rendered template is re-fetched with other values: a template that others include or import
                # without context has its output inside THEIR cached default modules, which a later globals update
                # does not rebuild (cache freshness, C25 - not C05's visibility rule)
                mt = ts["templates"][ts["main"]]
                if mt["globals"]:
                    env.get_template(ts["main"], globals={k: "OLD" + str(v) for k, v in mt["globals"].items()})
                try:
                    src0 = env.loader.get_source(env, ts["main"])[0]
                    env.from_string(src0, globals={k: "OLD" + str(v) for k, v in
                                                   ts["templates"][ts["main"]]["globals"].items()}).render(
                        dict({k: v for k, v in data.items() if k.startswith(("tobj_", "tnm_"))}, **fresh_lists()))
                except Exception:  # noqa
                    pass
                d0 = {k: (v if k.startswith(("tobj_", "lst_", "tnm_")) else "OLD" + str(k)) for k, v in data.items()}
                d0.update({k: "OLD" + k for k in ("a", "b", "c", "d", "x", "y", "i", "mg")})
                d0.update(fresh_lists())
                env.get_template(ts["main"]).render(d0)
            except Exception:  # noqa
                pass
            preload(env, ts)
            data.update(fresh_lists())
        return "O " + enc_str(env.get_template(ts["main"]).render(data))
    except BaseException as e:  # noqa
        if isinstance(e, (KeyboardInterrupt, SystemExit)):
            raise
        return canon_exc(jinja2, e)


def show_value(v):
    from jinja2.runtime import Macro, Undefined
    if isinstance(v, Undefined):
        return "?"
    if isinstance(v, str):
        return enc_str(v)
    if isinstance(v, Macro):
        return "M" + enc_str(str(v()))
    return "#"


def real_module(jinja2, ts, name, env=None):
    try:
        env = env or make_env(jinja2, ts)
        preload(env, ts)
        m = env.get_template(name).module
        ex = sorted((NAMES[k], show_value(v)) for k, v in vars(m).items()
                    if k in NAMES and k not in ("_body_stream",))
        return "O " + enc_str(str(m)) + " ; " + ",".join(f"{k}={v}" for k, v in ex)
    except BaseException as e:  # noqa
        if isinstance(e, (KeyboardInterrupt, SystemExit)):
            raise
        return canon_exc(jinja2, e)


# ---------------------------------------------------------------- generator
class IGen:
    def __init__(self, rng, own_globals=0.25, shadow=0.1):
        self.r = rng
        self.own_globals = own_globals
        self.shadow = shadow

    def word(self):
        r = self.r
        return "".join(r.choice("abcXYZ0123456789") for _ in range(r.randint(1, 2)))

    def target(self, tnames, is_main, allow_missing=True):
        r = self.r
        k = r.random()
        if allow_missing and k < 0.12:
            return self.spell(r.choice(["nope", "nope2"]), is_main)
        fwd, back = tnames
        n = r.choice(back) if (not fwd or r.random() < 0.008) else r.choice(fwd)
        if is_main and k > 0.88:
            self.objects.add(n)
            return ("o", n)
        return self.spell(n, is_main)

    def spell(self, n, is_main):
        """the name as a literal or as a computed value of some str kind"""
        r = self.r
        k = r.random()
        if k < 0.75:
            return ("n", n)
        if k < 0.85:
            return ("s", n)
        if k < 0.92 or not is_main:
            return ("f", n)
        kind = r.choice(["str", "markup", "sub"])
        self.names.add((n, kind))
        return ("v", n, kind)

    def body(self, tname, tnames, top, depth, assigned, later, frame_assigned=None):
        """assigned: names bound so far in this function (readable); later: names that will be bound later in an
        enclosing scope of this template and must not be read before (engine quirk outside C05)"""
        r = self.r
        is_main = tname == "main"
        out = []
        n = r.randint(2, 5) if top else r.randint(1, 3)
        plan = []
        for _ in range(n):
            plan.append(r.random())
        # names this body will bind (decided up front so that nothing reads them too early)
        will = set()
        stmts = []
        leaf = not tnames[0]
        for k in plan:
            if leaf and 0.24 <= k < 0.72 and r.random() > 0.015:
                k = 0.9 if r.random() < 0.6 else 0.1
            if k < 0.045:
                # one assignment statement with several targets: every mix of private and public names (one, two or no
                # public name; names of one and of several characters)
                pool_t = ["a", "b", "q1", "q2", "m1", "_p", "_q", "_p", "_q"] if top else ["a", "b", "q1", "k"]
                names_t = r.sample(pool_t, r.randint(2, 3))
                names_t = list(dict.fromkeys(names_t))
                if len(names_t) >= 2:
                    stmts.append(["T", [(n_, self.word()) for n_ in names_t]])
                    will.update(names_t)
                    continue
            if k < 0.16:
                x = r.choice(PUBLIC_VARS + ["m1", "q1"] + (["_p"] if top else []))
                e = ("c", self.word()) if r.random() < 0.8 else ("v", r.choice(["x", "y", "g", "nosuch"] if False else ["x", "y", "g"]))
                stmts.append(["s", x, e])
                will.add(x)
            elif k < 0.24 and top:
                m = r.choice(["f1", "f2", "_q"])
                stmts.append(["m", m, self.word()])
                will.add(m)
            elif k < 0.50:
                is_list = r.random() < 0.35
                ts_ = [self.target(tnames, is_main) for _ in range(r.randint(0, 3) if is_list else 1)]
                if is_list:
                    k2 = r.random()
                    if k2 < 0.2:
                        is_list = "tuple"
                    elif k2 < 0.45 and is_main and top:
                        # the list travels in a render variable (get_or_select_template)
                        is_list = "var"
                        self.lists["lst_" + "_".join(t[0] + t[1] for t in ts_) if ts_ else "lst_empty"] = ts_
                wc = r.choice([None, None, True, False, False])
                stmts.append(["i", ts_, is_list, wc, r.random() < 0.3])
            elif k < 0.62:
                alias = r.choice(["m1", "m2"])
                stmts.append(["I", self.target(tnames, is_main, allow_missing=r.random() < 0.3), alias,
                              r.choice([None, None, True, False])])
                will.add(alias)
            elif k < 0.72:
                names = []
                for _ in range(r.randint(1, 2)):
                    nme = r.choice(["a", "b", "c", "f1", "f2", "d"])
                    al = r.choice([nme, "q1", "q2"])
                    if al not in [a for _, a in names]:
                        names.append((nme, al))
                stmts.append(["F", self.target(tnames, is_main, allow_missing=r.random() < 0.3), names,
                              r.choice([None, None, True, False])])
                will.update(a for _, a in names)
            elif k < 0.84 and depth < 2:
                kind = r.choice(["f", "w", "m", "b", "B", "B"])
                v = {"f": r.choice(["i", "j"]), "w": "w", "m": "k", "b": "k", "B": "k"}[kind]
                vals = [self.word() for _ in range(r.randint(0, 3) if kind == "f" else 1)]
                stmts.append(["S", kind, v, vals, None])
            elif k < 0.93:
                stmts.append(["p", None])
            else:
                stmts.append(["o", self.word()])
        stmts.append(["p", None])
        assigned = set(assigned)
        # names bound in THIS function frame (a block is a function of its own: what the enclosing template level
        # assigned reaches it through the context, but a later assignment inside the block makes the name local)
        frame_assigned = assigned if frame_assigned is None else set(frame_assigned)
        for i, s in enumerate(stmts):
            pending = set()
            for s2 in stmts[i:]:
                if s2[0] in ("s", "m"):
                    pending.add(s2[1])
                elif s2[0] == "T":
                    pending.update(n_ for n_, _ in s2[1])
                elif s2[0] == "I":
                    pending.add(s2[2])
                elif s2[0] == "F":
                    pending.update(a for _, a in s2[2])
            blocked = (pending | later) - frame_assigned
            if s[0] == "p":
                pool = [p for p in PROBE_POOL if p not in blocked]
                mods = [m for m in ("m1", "m2") if m in assigned and m not in blocked]
                if mods and r.random() < 0.4:
                    out.append(("a", r.choice(mods), r.choice(["a", "b", "c", "d", "f1", "f2", "_p", "x"])))
                else:
                    out.append(("p", r.choice(pool)))
            elif s[0] == "s":
                e = s[2]
                if e[0] == "v" and e[1] in blocked:
                    e = ("c", self.word())
                out.append(("s", s[1], e))
                assigned.add(s[1])
                frame_assigned.add(s[1])
            elif s[0] == "T":
                out.append(("T", s[1]))
                assigned.update(n_ for n_, _ in s[1])
                frame_assigned.update(n_ for n_, _ in s[1])
            elif s[0] == "m":
                out.append(("m", s[1], s[2]))
                assigned.add(s[1])
                frame_assigned.add(s[1])
            elif s[0] == "i":
                out.append(("i", s[1], s[2], s[3], s[4]))
            elif s[0] == "I":
                out.append(("I", s[1], s[2], s[3]))
                assigned.add(s[2])
                frame_assigned.add(s[2])
            elif s[0] == "F":
                out.append(("F", s[1], s[2], s[3]))
                assigned.update(a for _, a in s[2])
                frame_assigned.update(a for _, a in s[2])
            elif s[0] == "S":
                inner_later = blocked
                body = self.body(tname, tnames, False, depth + 1,
                                 (assigned if s[1] in ("b", "B") else assigned | {s[2]}),
                                 (set() if s[1] in ("b", "B") else inner_later),
                                 frame_assigned=(set() if s[1] in ("b", "B") else frame_assigned | {s[2]}))
                out.append(("S", s[1], s[2], s[3], body))
            else:
                out.append(("o", s[1]))
        return out

    def tset(self):
        r = self.r
        self.objects = set()
        self.names = set()
        self.lists = {}
        nt = r.randint(2, 4)
        tnames = ["main", "t1", "t2", "t3"][:nt]
        templates = {}
        for n in tnames:
            g = {}
            if n == "main" and r.random() < 0.6:
                g["mg"] = "MG"
            if n != "main" and r.random() < self.own_globals:
                g["tg"] = "TG" + n[1]
            # includes / imports may point anywhere (cycles end in RecursionError); mostly forward
            later = [m for m in tnames if m > n and m != "main"]
            others = [m for m in tnames if m != "main"]
            pool = (later, others)
            if later and r.random() < 0.2:
                # a template that extends: its own top level only assigns, defines macros and imports; the parent's
                # root then runs with the same context (modelled as the last statement)
                body = [s for s in self.body(n, pool, True, 0, set(), set()) if s[0] in ("s", "m", "I", "F", "T")]
                templates[n] = {"globals": g, "body": body + [("X", ("n", r.choice(later)))]}
            else:
                templates[n] = {"globals": g, "body": self.body(n, pool, True, 0, set(), set())}
        data = {}
        if r.random() < 0.8:
            data["x"] = r.choice(["DX", "DX", Markup("DX")])      # a str subclass is still a string
        if r.random() < 0.4:
            data["y"] = "DY"
        for nm, pr in (("a", 0.35), ("b", 0.3), ("c", 0.25), ("d", 0.2), ("q1", 0.15)):
            if r.random() < pr:
                data[nm] = "D" + nm.upper()
        if r.random() < 0.2:
            data["g"] = "DG"
        if r.random() < self.shadow:
            data["mg"] = "DMG"
        if r.random() < 0.2:
            data["i"] = "DI"
        return {"templates": templates, "main": "main", "data": data, "env_globals": {"g": "G"},
                "objects": sorted(self.objects), "lists": dict(self.lists),
                "names": sorted(self.names)}


def directed_sets():
    """small-scope family: a statement that hands the current scope to another template, placed BEFORE and AFTER
    an assignment of a name in the same scope, for every scope kind, with the name present / absent in the render
    data; and include lists whose later candidate was loaded earlier while the first existing one was not"""
    out = []
    probe_t = {"globals": {}, "body": [("o", "("), ("p", "a"), ("p", "b"), ("o", ")"), ("s", "c", ("v", "a"))]}
    handers = {
        "inc": lambda: [("i", [("n", "t1")], False, None, False)],
        "incw": lambda: [("i", [("n", "t1")], False, True, False)],
        "incl": lambda: [("i", [("n", "nope"), ("n", "t1")], True, None, False)],
        "imp": lambda: [("I", ("n", "t1"), "m1", True), ("a", "m1", "c")],
        "from": lambda: [("F", ("n", "t1"), [("c", "q1")], True), ("p", "q1")],
    }
    for hk, h in handers.items():
        for scope in ("top", "f", "w", "m"):
            for data in ({"a": "DA", "b": "DB"}, {"b": "DB"}, {}):
                inner = h() + [("s", "a", ("c", "S"))] + h() + [("s", "b", ("c", "T"))] + h()
                if scope == "top":
                    body = inner
                else:
                    v = {"f": "i", "w": "w", "m": "k"}[scope]
                    body = [("S", scope, v, ["1", "2"] if scope == "f" else ["1"], inner)] + h()
                out.append({"templates": {"main": {"globals": {}, "body": body}, "t1": probe_t},
                            "main": "main", "data": data, "env_globals": {"g": "G"}, "objects": []})
    # template-level globals of the importing template seen by imports made in every kind of scope (also a scoped
    # block inside a loop: Context.derived) and by includes without context made there
    glob_t = {"globals": {}, "body": [("o", "<"), ("p", "mg"), ("p", "g"), ("o", ">"), ("s", "c", ("v", "mg"))]}
    for scope in ("top", "f", "w", "m", "b", "B", "fB", "Bf"):
        for data in ({}, {"mg": "DMG"}):
            inner = [("I", ("n", "t1"), "m1", None), ("a", "m1", "c"), ("F", ("n", "t1"), [("c", "q1")], None), ("p", "q1"),
                     ("i", [("n", "t1")], False, False, False), ("i", [("n", "t1")], False, None, False)]
            body = inner
            for k in reversed(scope if scope != "top" else ""):
                v = {"f": "i", "w": "w", "m": "k", "b": "k", "B": "k"}[k]
                body = [("S", k, v, ["1"], body)]
            out.append({"templates": {"main": {"globals": {"mg": "MG"}, "body": body}, "t1": glob_t},
                        "main": "main", "data": data, "env_globals": {"g": "G"}, "objects": []})
    # `ignore missing` covers the lookup only: the target exists, what fails is a lookup INSIDE it
    for inner in ([("i", [("n", "nope")], False, None, False)], [("I", ("n", "nope"), "m1", None)],
                  [("i", [("n", "nope"), ("n", "nope2")], True, False, False)], [("F", ("n", "nope"), [("a", "q1")], None)]):
        for wc in (None, False, True):
            for scope in ("top", "m", "f"):
                inc = [("o", "["), ("i", [("n", "t1")], False, wc, True), ("o", "]")]
                body = inc if scope == "top" else [("S", scope, "k" if scope == "m" else "i", ["1"], inc)]
                out.append({"templates": {"main": {"globals": {}, "body": body},
                                          "t1": {"globals": {}, "body": [("o", "t")] + inner}},
                            "main": "main", "data": {}, "env_globals": {"g": "G"}, "objects": []})
    # locals handed to a target must not stay in the including context after their scope has ended (the includer
    # has no top-level assignment, so get_all() is its live parent dict)
    seen_t = {"globals": {}, "body": [("o", "("), ("p", "i"), ("p", "w"), ("p", "k"), ("o", ")")]}
    for hand in ([("i", [("n", "t1")], False, None, False)], [("I", ("n", "t1"), "m1", True)],
                 [("F", ("n", "t1"), [("a", "q1")], True)], [("S", "B", "k", ["1"], [("p", "i")])]):
        for scope, v, vals in (("f", "i", ["1", "2"]), ("w", "w", ["1"]), ("m", "k", ["1"])):
            body = [("S", scope, v, vals, hand), ("o", "|"), ("i", [("n", "t1")], False, None, False),
                    ("S", "B", "k", ["1"], [("p", "i"), ("p", "w"), ("p", "k")]), ("p", "i"), ("p", "w")]
            out.append({"templates": {"main": {"globals": {}, "body": body}, "t1": seen_t},
                        "main": "main", "data": {"x": "DX"}, "env_globals": {"g": "G"}, "objects": []})
    # name lists in which nothing exists, with and without ignore missing, in every list spelling
    for lst in ([("n", "nope")], [("n", "nope"), ("n", "nope2")], []):
        for spelling in (True, "tuple"):
            for ign in (True, False):
                for wc in (None, False):
                    body = [("o", "a"), ("i", lst, spelling, wc, ign), ("o", "b"), ("i", [("n", "t1")], False, None, False)]
                    out.append({"templates": {"main": {"globals": {}, "body": body},
                                              "t1": {"globals": {}, "body": [("o", "one")]}},
                                "main": "main", "data": {}, "env_globals": {"g": "G"}, "objects": []})
    # templates that extend, imported / included / rendered: exports and output of child + parent
    par = {"globals": {}, "body": [("o", "P<"), ("p", "a"), ("p", "b"), ("o", ">"), ("s", "b", ("c", "pb")), ("m", "f2", "pf")]}
    chi = {"globals": {}, "body": [("s", "a", ("c", "ca")), ("m", "f1", "cf"), ("s", "_p", ("c", "priv")),
                                   ("I", ("n", "t3"), "m2", None), ("X", ("n", "t2"))]}
    for use in ([("I", ("n", "t1"), "m1", None), ("a", "m1", "a"), ("a", "m1", "b"), ("a", "m1", "f1"), ("a", "m1", "f2"),
                 ("a", "m1", "_p"), ("a", "m1", "m2")],
                [("F", ("n", "t1"), [("a", "q1"), ("f2", "q2")], None), ("p", "q1"), ("p", "q2")],
                [("i", [("n", "t1")], False, None, False)], [("i", [("n", "t1")], False, False, False)],
                [("I", ("n", "t1"), "m1", True), ("a", "m1", "b")]):
        out.append({"templates": {"main": {"globals": {}, "body": use}, "t1": chi, "t2": par,
                                  "t3": {"globals": {}, "body": [("s", "d", ("c", "3"))]}},
                    "main": "main", "data": {"a": "DA"}, "env_globals": {"g": "G"}, "objects": []})
    # one helper imported (without context) by several importers whose template-level globals have the same NAMES and
    # different VALUES, in one render and after an earlier render
    helper = {"globals": {}, "body": [("s", "c", ("v", "tg")), ("m", "f1", "hf")]}
    for how in ([("I", ("n", "t3"), "m1", None), ("a", "m1", "c")], [("F", ("n", "t3"), [("c", "q1")], None), ("p", "q1")]):
        for wc in (None, False, True):
            body = [("i", [("n", "t1")], False, wc, False), ("o", "|"), ("i", [("n", "t2")], False, wc, False), ("o", "|"),
                    ("i", [("n", "t1")], False, wc, False)]
            out.append({"templates": {"main": {"globals": {"tg": "TGm"}, "body": how + [("o", "/")] + body},
                                      "t1": {"globals": {"tg": "TG1"}, "body": how},
                                      "t2": {"globals": {"tg": "TG2"}, "body": how}, "t3": helper},
                        "main": "main", "data": {}, "env_globals": {"g": "G"}, "objects": []})
    # one assignment statement with several targets, every mix of private / public names, in a template that is then
    # imported, from-imported, included without context and read as Template.module
    for names_t in (["_p", "q1"], ["q1", "_p"], ["_p", "_q", "q1"], ["_p", "a"], ["a", "q1"], ["_p", "_q"], ["a", "b", "q1"],
                    ["_p", "a", "q1"], ["q1", "q2"]):
        lib_t = {"globals": {}, "body": [("T", [(n, "v" + n.strip("_")) for n in names_t]), ("p", names_t[-1])]}
        use = [("I", ("n", "t1"), "m1", None)] + [("a", "m1", n) for n in names_t] + \
              [("F", ("n", "t1"), [(n, n) for n in names_t if not n.startswith("_")][:1] or [("a", "a")], None),
               ("i", [("n", "t1")], False, False, False), ("i", [("n", "t1")], False, None, False)]
        out.append({"templates": {"main": {"globals": {}, "body": use}, "t1": lib_t},
                    "main": "main", "data": {}, "env_globals": {"g": "G"}, "objects": []})
    # a name list in a render variable, as every kind of iterable (list, tuple, generator, iterator, set), with nothing /
    # one thing / the last thing existing, with and without ignore missing
    for kind in range(5):
        for lst in ([("n", "nope")], [("n", "nope"), ("n", "nope2")], [], [("n", "nope"), ("n", "t1")], [("n", "t1")]):
            for ign in (True, False):
                var = "lst_" + "_".join(t[0] + t[1] for t in lst) if lst else "lst_empty"
                body = [("o", "a"), ("i", lst, "var", None, ign), ("o", "b")]
                out.append({"templates": {"main": {"globals": {}, "body": body},
                                          "t1": {"globals": {}, "body": [("o", "one")]}},
                            "main": "main", "data": {}, "env_globals": {"g": "G"}, "objects": [],
                            "lists": {var: lst}, "list_kinds": {var: kind}})
    # include lists / partially cached candidates: t2 is loaded first (by an include or an import), then a
    # list [t1, t2] / [nope, t1, t2] must still select t1
    for first in ([("i", [("n", "t2")], False, None, False)], [("I", ("n", "t2"), "m2", None)],
                  [("F", ("n", "t2"), [("a", "q2")], None)]):
        for lst in ([("n", "t1"), ("n", "t2")], [("n", "nope"), ("n", "t1"), ("n", "t2")],
                    [("n", "t2"), ("n", "t1")], [("n", "nope"), ("n", "t2")]):
            for wc in (None, False):
                body = first + [("o", "|"), ("i", lst, True, wc, False), ("o", "|"), ("i", lst, True, wc, True)]
                out.append({"templates": {"main": {"globals": {}, "body": body},
                                          "t1": {"globals": {}, "body": [("o", "one"), ("s", "a", ("c", "1"))]},
                                          "t2": {"globals": {}, "body": [("o", "two"), ("s", "a", ("c", "2"))]}},
                            "main": "main", "data": {}, "env_globals": {"g": "G"}, "objects": []})
    return out
