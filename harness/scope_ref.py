"""O2 — a reference interpreter in Python for the FULL statement list of C03 (round 7).

The Coq reference SpecStmt (extracted, the oracle of record) covers the statement AST of
coq/theories/Model/ScopeAst.v.  The property text also lists recursion, break / continue, tuple
targets, filtered block sets and arbitrary Python values; those are judged by this interpreter, written
from the same documentation (docs/templates.rst: Assignments, Scoping Behavior, For incl. "recursive",
loop controls, Macros, Call, Block Assignments, With) as an environment chain of scopes.  It is tied to the
Coq spec on every run: on every program of the common AST it must give exactly the extracted SpecStmt's
result (c03.py reports a difference as a broken tie).  Values are plain Python objects and every
operation is the Python operation (str, +, bool, iter, getattr / getitem), never a jinja2 function.

Extended program syntax (superset of scope_gen's):
  ('for', target, it, test, body, els[, recursive])   target: name or [names]
  ('set', target, e)                                   target: name or [names]   e may be ('tup', [e..])
  ('setb', x, body[, filt])                            filt: 'u' | 'l' | ('default', e)
  ('break',) ('continue',) ('loopcall', e)             {% break %} {% continue %} {{ loop(e) }}
  expr ('attr', 'loop', a)  a in index index0 first last length revindex
"""
from __future__ import annotations

from . import scope_gen as G


class RefUndefinedError(Exception):
    pass


class RefRuntimeError(Exception):
    pass


class U:
    """the undefined value"""
    def __str__(self):
        return ""

    def __repr__(self):
        return "Undefined"

    def __bool__(self):
        return False

    def __iter__(self):
        return iter(())


class RNS:
    def __init__(self, attrs):
        self.attrs = dict(attrs)

    def __repr__(self):
        return "<Namespace>"


class RMacro:
    def __init__(self, kind, name, params, body, env, uses_caller):
        self.kind, self.name, self.params, self.body, self.env, self.uses_caller = kind, name, params, body, env, uses_caller

    def __repr__(self):
        return f"<Macro {self.name!r}>" if self.kind == "macro" else "<Macro anonymous>"


class RLoop:
    def __init__(self, items, rec=None):
        self.items, self.i, self.rec = items, 0, rec

    def attr(self, a):
        n = len(self.items)
        return {"index": self.i + 1, "index0": self.i, "first": self.i == 0, "last": self.i == n - 1,
                "length": n, "revindex": n - self.i, "revindex0": n - self.i - 1}.get(a, U())


class _Break(Exception):
    pass


class _Continue(Exception):
    pass


NSCTOR = object()


def mentions(name, body):
    """does the text load `name` anywhere (nested bodies included)"""
    def ex(e):
        k = e[0]
        if k == "n":
            return e[1] == name
        if k in ("cat", "add"):
            return ex(e[1]) or ex(e[2])
        if k == "attr":
            return e[1] == name
        if k == "tup":
            return any(ex(x) for x in e[1])
        return False

    for s in body:
        k = s[0]
        if k == "out" and any(ex(e) for e in s[1]):
            return True
        if k == "if" and (ex(s[1]) or mentions(name, s[2]) or mentions(name, s[3]) or mentions(name, s[4])):
            return True
        if k == "for" and (ex(s[2]) or (s[3] is not None and ex(s[3])) or mentions(name, s[4]) or mentions(name, s[5])):
            return True
        if k in ("set", "seta") and ex(s[-1]):
            return True
        if k == "nsnew" and (name == "namespace" or any(ex(e) for _, e in s[2])):
            return True
        if k == "setb" and (mentions(name, s[2]) or (len(s) > 3 and isinstance(s[3], tuple) and ex(s[3][1]))):
            return True
        if k == "with" and (any(ex(e) for _, e in s[1]) or mentions(name, s[2])):
            return True
        if k in ("filt", ) and mentions(name, s[2]):
            return True
        if k == "macro" and mentions(name, s[3]):
            return True
        if k == "callo" and (s[1] == name or any(ex(e) for e in s[2])):
            return True
        if k == "callb" and (s[2] == name or any(ex(e) for e in s[3]) or mentions(name, s[4])):
            return True
        if k == "loopcall" and (name == "loop" or ex(s[1])):
            return True
    return False


class Ref:
    def __init__(self, data, priv=lambda x: x.startswith("_")):
        self.d = data
        self.priv = priv
        self.depth = 0

    # ------------------------------------------------------------ names
    def lookup(self, env, x):
        for sc in env:
            if x in sc:
                return sc[x]
        if x in self.d:
            return self.d[x]
        if x == "namespace":
            return NSCTOR
        return U()

    # ------------------------------------------------------------ expressions
    def ev(self, env, e):
        k = e[0]
        if k == "n":
            return self.lookup(env, e[1])
        if k == "i":
            return e[1]
        if k == "s":
            return e[1]
        if k == "tup":
            return tuple(self.ev(env, x) for x in e[1])
        if k == "cat":
            a, b = self.ev(env, e[1]), self.ev(env, e[2])
            return str(a) + str(b)
        if k == "add":
            a, b = self.ev(env, e[1]), self.ev(env, e[2])
            if isinstance(a, U) or isinstance(b, U):
                raise RefUndefinedError()
            return a + b
        if k == "attr":
            v = self.lookup(env, e[1])
            return self.getattr(v, e[2])
        raise ValueError(e)

    def getattr(self, v, a):
        if isinstance(v, U):
            raise RefUndefinedError()
        if isinstance(v, RNS):
            return v.attrs.get(a, U())
        if isinstance(v, RLoop):
            return v.attr(a)
        if isinstance(v, RMacro) or v is NSCTOR:
            return U()
        # the documented rule for foo.bar: attribute, then item, else undefined
        try:
            return getattr(v, a)
        except AttributeError:
            pass
        try:
            return v[a]
        except (TypeError, LookupError, AttributeError):
            return U()

    # ------------------------------------------------------------ statements
    def call(self, f, args, caller):
        if isinstance(f, RMacro):
            if len(args) > len(f.params):
                raise TypeError("too many arguments")
            if caller is not None and not f.uses_caller:
                raise TypeError("caller")
            sc = {}
            for i, p in enumerate(f.params):
                sc[p] = args[i] if i < len(args) else U()
            if f.uses_caller:
                sc["caller"] = caller if caller is not None else U()
            self.depth += 1
            if self.depth > 120:
                raise RecursionError()
            try:
                return self.block([sc] + f.env, f.body)
            finally:
                self.depth -= 1
        if f is NSCTOR:
            if args:
                raise TypeError("namespace")
            return RNS({})
        if isinstance(f, U):
            raise RefUndefinedError()
        if isinstance(f, RLoop):
            raise TypeError("loop is not recursive")
        raise TypeError("not callable")

    def assign(self, env, target, v):
        if isinstance(target, str):
            env[0][target] = v
            return
        vals = list(iter(v)) if not isinstance(v, U) else []
        if len(vals) != len(target):
            raise ValueError("unpack")
        for x, w in zip(target, vals):
            env[0][x] = w

    def block(self, env, body):
        out = []
        for s in body:
            out.append(self.stmt(env, s))
        return "".join(out)

    def run_loop(self, env, s, iterable, rec_depth=0):
        target, test, body, els = s[1], s[3], s[4], s[5]
        recursive = len(s) > 6 and s[6]
        if isinstance(iterable, U):
            items = []
        else:
            items = list(iter(iterable))
        # the filter decides which items belong to the loop
        kept = []
        for item in items:
            if test is not None:
                sc = {}
                self.assign([sc], target, item)
                if not bool(self.ev([sc] + env, test)):
                    continue
            kept.append(item)
        out = []
        lp = RLoop(kept, rec=(s, env) if recursive else None)
        ran = False
        for i, item in enumerate(kept):
            lp.i = i
            sc = {}
            self.assign([sc], target, item)
            sc["loop"] = lp
            ran = True
            try:
                out.append(self.block([sc] + env, body))
            except _Continue as c:
                out.append(c.args[0])
                continue
            except _Break as b:
                out.append(b.args[0])
                break
        if not ran and els:
            out.append(self.block([{}] + env, els))
        return "".join(out)

    def stmt(self, env, s):
        k = s[0]
        if k == "out":
            return "".join(str(self.ev(env, e)) for e in s[1])
        if k == "if":
            if bool(self.ev(env, s[1])):
                return self.block(env, s[2])
            for ei in s[3]:
                if bool(self.ev(env, ei[1])):
                    return self.block(env, ei[2])
            return self.block(env, s[4])
        if k == "for":
            return self.run_loop(env, s, self.ev(env, s[2]))
        if k == "loopcall":
            lp = self.lookup(env, "loop")
            arg = self.ev(env, s[1])
            if isinstance(lp, U):
                raise RefUndefinedError()
            if not isinstance(lp, RLoop):
                raise TypeError("not callable")
            if lp.rec is None:
                raise TypeError("loop is not recursive")
            self.depth += 1
            if self.depth > 120:
                raise RecursionError()
            try:
                fs, fenv = lp.rec
                return self.run_loop(fenv, fs, arg)
            finally:
                self.depth -= 1
        if k in ("break", "continue"):
            raise (_Break if k == "break" else _Continue)("")
        if k == "set":
            self.assign(env, s[1], self.ev(env, s[2]))
            return ""
        if k == "seta":
            c = self.lookup(env, s[1])
            if not isinstance(c, RNS):
                raise RefRuntimeError()
            c.attrs[s[2]] = self.ev(env, s[3])
            return ""
        if k == "nsnew":
            c = self.lookup(env, "namespace")
            kv = [(a, self.ev(env, e)) for a, e in s[2]]
            if c is NSCTOR:
                env[0][s[1]] = RNS(kv)
                return ""
            if isinstance(c, U):
                raise RefUndefinedError()
            raise TypeError("not callable")
        if k == "setb":
            inner = [{}] + env
            text = self.block(inner, s[2])
            if len(s) > 3 and s[3] is not None:
                f = s[3]
                if f == "u":
                    text = text.upper()
                elif f == "l":
                    text = text.lower()
                else:
                    self.ev(inner, f[1])      # default(value, arg): the text is defined, the argument is evaluated
            env[0][s[1]] = text
            return ""
        if k == "with":
            vals = [self.ev(env, e) for _, e in s[1]]
            sc = {}
            for (x, _), v in zip(s[1], vals):
                sc[x] = v
            return self.block([sc] + env, s[2])
        if k == "filt":
            t = self.block([{}] + env, s[2])
            return t.upper() if s[1] == "u" else t.lower()
        if k == "macro":
            env[0][s[1]] = RMacro("macro", s[1], s[2], s[3], env, mentions("caller", s[3]))
            return ""
        if k == "callo":
            f = self.lookup(env, s[1])
            args = [self.ev(env, e) for e in s[2]]
            return str(self.call(f, args, None))
        if k == "callb":
            cl = RMacro("caller", None, s[1], s[4], env, mentions("caller", s[4]))
            f = self.lookup(env, s[2])
            args = [self.ev(env, e) for e in s[3]]
            return str(self.call(f, args, cl))
        raise ValueError(s)

    def render(self, p):
        top = {}
        try:
            text = self.block([top], p)
        except (_Break, _Continue):
            return ("err", "loopcontrol-outside-loop")
        except RefUndefinedError:
            return ("err", "UndefinedError")
        except RefRuntimeError:
            return ("err", "TemplateRuntimeError")
        except RecursionError:
            return ("err", "Fuel")
        except Exception as e:  # noqa
            return ("err", type(e).__name__)
        ex = tuple(sorted((k, G.canon_repr(v)) for k, v in top.items() if not self.priv(k)))
        return ("ok", text, ex)


# ------------------------------------------------------------------ printers for the extended syntax
def e2_src(e):
    if e[0] == "tup":
        return "(" + ", ".join(e2_src(x) for x in e[1]) + ("," if len(e[1]) == 1 else "") + ")"
    if e[0] in ("cat", "add"):
        return f"({e2_src(e[1])} {'~' if e[0] == 'cat' else '+'} {e2_src(e[2])})"
    return G.e_src(e)


def tg_src(t):
    return t if isinstance(t, str) else ", ".join(t)


def p2_src(p):
    return "".join(s2_src(s) for s in p)


def s2_src(s):
    k = s[0]
    if k == "out":
        return "".join("{{ " + e2_src(e) + " }}" for e in s[1])
    if k == "if":
        r = "{% if " + e2_src(s[1]) + " %}" + p2_src(s[2])
        for ei in s[3]:
            r += "{% elif " + e2_src(ei[1]) + " %}" + p2_src(ei[2])
        if s[4]:
            r += "{% else %}" + p2_src(s[4])
        return r + "{% endif %}"
    if k == "for":
        r = "{% for " + tg_src(s[1]) + " in " + e2_src(s[2])
        if s[3] is not None:
            r += " if " + e2_src(s[3])
        if len(s) > 6 and s[6]:
            r += " recursive"
        r += " %}" + p2_src(s[4])
        if s[5]:
            r += "{% else %}" + p2_src(s[5])
        return r + "{% endfor %}"
    if k == "loopcall":
        return "{{ loop(" + e2_src(s[1]) + ") }}"
    if k == "break":
        return "{% break %}"
    if k == "continue":
        return "{% continue %}"
    if k == "set":
        return "{% set " + tg_src(s[1]) + " = " + e2_src(s[2]) + " %}"
    if k == "setb":
        f = ""
        if len(s) > 3 and s[3] is not None:
            f = " | upper" if s[3] == "u" else " | lower" if s[3] == "l" else " | default(" + e2_src(s[3][1]) + ")"
        return "{% set " + s[1] + f + " %}" + p2_src(s[2]) + "{% endset %}"
    if k == "seta":
        return "{% set " + s[1] + "." + s[2] + " = " + e2_src(s[3]) + " %}"
    if k == "nsnew":
        return "{% set " + s[1] + " = namespace(" + ", ".join(f"{a}={e2_src(e)}" for a, e in s[2]) + ") %}"
    if k == "with":
        return "{% with " + ", ".join(f"{x} = {e2_src(e)}" for x, e in s[1]) + " %}" + p2_src(s[2]) + "{% endwith %}"
    if k == "filt":
        return "{% filter " + ("upper" if s[1] == "u" else "lower") + " %}" + p2_src(s[2]) + "{% endfilter %}"
    if k == "macro":
        return "{% macro " + s[1] + "(" + ", ".join(s[2]) + ") %}" + p2_src(s[3]) + "{% endmacro %}"
    if k == "callo":
        return "{{ " + s[1] + "(" + ", ".join(e2_src(e) for e in s[2]) + ") }}"
    if k == "callb":
        hd = "{% call" + ("(" + ", ".join(s[1]) + ")" if s[1] else "") + " "
        return hd + s[2] + "(" + ", ".join(e2_src(e) for e in s[3]) + ") %}" + p2_src(s[4]) + "{% endcall %}"
    raise ValueError(s)


# ------------------------------------------------------------------ value kinds
class SubStr(str):
    """a str subclass whose text form differs from its content"""
    def __str__(self):
        return "<" + str.__str__(self) + ">"


class GetItemOnly:
    def __init__(self, items):
        self.items = items

    def __getitem__(self, i):
        return self.items[i]

    def __repr__(self):
        return "GIO" + repr(self.items)


class IterOnly:
    def __init__(self, items):
        self.items = items

    def __iter__(self):
        return iter(list(self.items))

    def __repr__(self):
        return "IO" + repr(self.items)


class AttrRaises:
    def __getattr__(self, name):
        if name.startswith("__"):
            raise AttributeError(name)
        raise ValueError("attribute protocol raises")

    def __repr__(self):
        return "AR"


def make_value(spec):
    """fresh value from a description (generators must be fresh for every render)"""
    k = spec[0]
    if k == "plain":
        return spec[1]
    if k == "markup":
        from markupsafe import Markup
        return Markup(spec[1])
    if k == "substr":
        return SubStr(spec[1])
    if k == "tuple":
        return tuple(spec[1])
    if k == "dict":
        return dict(spec[1])
    if k == "gen":
        return (x for x in spec[1])
    if k == "iter":
        return iter(list(spec[1]))
    if k == "gio":
        return GetItemOnly(list(spec[1]))
    if k == "io":
        return IterOnly(list(spec[1]))
    if k == "ar":
        return AttrRaises()
    raise ValueError(spec)


def make_data(dspec):
    return {x: make_value(s) for x, s in dspec.items()}


# ------------------------------------------------------------------ extended generator
class EGen(G.SGen):
    """SGen plus: tuple targets (for / set), recursive loops with loop(...), break / continue, filtered
    block sets, loop attributes, and data of many Python kinds."""

    def expr(self, d=2, in_loop=False):
        r = self.r
        if in_loop and r.random() < 0.08:
            return ("attr", "loop", r.choice(["index0", "first", "last", "length", "revindex", "index"]))
        return super().expr(d, in_loop)

    def stmt(self, budget, depth, in_loop, macros):
        r = self.r
        k = r.random()
        if in_loop and k < 0.07:
            return ((r.choice(["break", "continue"]),), 1)
        if in_loop and k < 0.12:
            # guarded loop control
            return ("if", self.expr(1, in_loop), [(r.choice(["break", "continue"]),)], [], []), 2
        if k < 0.17:
            xs = r.sample(self.pool, 2)
            e = ("tup", [self.expr(1, in_loop), self.expr(1, in_loop)]) if r.random() < 0.7 else ("n", self.name())
            return ("set", xs, e), 1
        if depth > 0 and budget > 1 and k < 0.24:
            # tuple target / recursive loop
            b = budget - 1
            rec = r.random() < 0.5
            tg = r.sample(self.pool, 2) if r.random() < 0.4 else self.name()
            body, b = self.block(b, depth - 1, True, list(macros))
            if rec:
                body.insert(r.randint(0, len(body)), ("if", self.expr(1, True), [("loopcall", self.expr(1, True))], [], [])
                            if r.random() < 0.7 else ("loopcall", self.expr(1, True)))
            els = []
            if b > 0 and r.random() < 0.3:
                els, b = self.block(b, depth - 1, in_loop and r.random() < 0.1, list(macros))
            test = self.expr(1, False) if r.random() < 0.2 else None
            return ("for", tg, self.iterable(in_loop), test, body, els, rec), budget - b
        if depth > 0 and budget > 1 and k < 0.28:
            b = budget - 1
            body, b = self.block(b, depth - 1, in_loop and r.random() < 0.2, list(macros))
            f = r.choice(["u", "l", ("default", self.expr(1, in_loop))])
            return ("setb", self.name(), body, f), budget - b
        s, used = super().stmt(budget, depth, in_loop, macros)
        # loop controls must not end up inside a macro / call block / filter / set block of the loop
        if s[0] in ("macro", "callb", "filt", "setb"):
            s = strip_controls_stmt(s)
        return s, used

    def dspec(self):
        r = self.r
        d = {}
        for x in self.pool:
            k = r.random()
            if k < 0.2:
                continue
            if k < 0.35:
                d[x] = ("plain", r.choice([0, 1, 5, -2, True, False, 1.5, 2.0]))
            elif k < 0.45:
                d[x] = ("plain", r.choice(["s", "tu", "", "Hi"]))
            elif k < 0.55:
                d[x] = r.choice([("markup", "mk"), ("substr", "sb")])
            elif k < 0.7:
                d[x] = ("plain", [r.randint(0, 5) for _ in range(r.randint(0, 3))])
            elif k < 0.78:
                d[x] = ("tuple", [r.choice([1, "p", (1, 2), [3, 4]]) for _ in range(r.randint(0, 3))])
            elif k < 0.84:
                d[x] = ("plain", [[1, 2], ("a", "b"), [5, "q"]][: r.randint(1, 3)])
            elif k < 0.88:
                d[x] = ("dict", [("v", r.randint(0, 3)), ("w", "dw")][: r.randint(1, 2)])
            elif k < 0.92:
                d[x] = (r.choice(["gen", "iter"]), [r.randint(0, 3) for _ in range(r.randint(0, 3))])
            elif k < 0.97:
                d[x] = (r.choice(["gio", "io"]), [r.randint(0, 3) for _ in range(r.randint(0, 3))])
            else:
                d[x] = ("ar",)
        return d


def strip_controls(p):
    return [strip_controls_stmt(s) for s in p if s[0] not in ("break", "continue")]


def strip_controls_stmt(s):
    k = s[0]
    if k == "if":
        return ("if", s[1], strip_controls(s[2]), [strip_controls_stmt(e) for e in s[3]], strip_controls(s[4]))
    if k == "for":
        return s           # a nested loop may use its own controls
    if k == "setb":
        return (s[0], s[1], strip_controls(s[2])) + tuple(s[3:])
    if k in ("with", "filt"):
        return (s[0], s[1], strip_controls(s[2]))
    if k == "macro":
        return ("macro", s[1], s[2], strip_controls(s[3]))
    if k == "callb":
        return ("callb", s[1], s[2], s[3], strip_controls(s[4]))
    return s
