"""O2 — a reference interpreter in Python for the FULL statement list of C03 (round 7).

The Coq reference SpecStmt (extracted, the oracle of record) covers the statement AST of
coq/theories/Model/ScopeAst.v.  The property text also lists recursion, break / continue, tuple
targets, filtered block sets and arbitrary Python values; those are judged by this interpreter, written
from the same documentation (docs/templates.rst: Assignments, Scoping Behavior, For incl. "recursive",
loop controls, Macros, Call, Block Assignments, With) as an environment chain of scopes.  It is tied to the
Coq spec on every run: on every program of the common AST it must give exactly the extracted SpecStmt's
result (c03.py reports a difference as a broken tie).  Values are plain Python objects and every
operation is the Python operation (str, +, bool, iter, getattr / getitem), never a jinja2 function.

Extended program syntax (superset of scope_gen's):
  ('for', target, it, test, body, els[, recursive])   target: name or [names]
  ('set', target, e)                                   target: name or [names]   e may be ('tup', [e..])
  ('setb', x, body[, filt])                            filt: 'u' | 'l' | ('default', e) | ('rep', e)
  ('filt', filt, body)                                 filt as above: {% filter replace('', e) %}
  ('break',) ('continue',) ('loopcall', e)             {% break %} {% continue %} {{ loop(e) }}
  ('calla', x, attr, [e..])                            {{ x.attr(e, ..) }}   (a macro stored in a namespace attribute)
  ('nsnew', x, [(None, e), (a, e)..])                  namespace(e, a=e): a first item with attribute None is the
                                                        positional source (a dict / pairs), copied
  call arguments may end with ('kw', name, e) items     m(e, name=e): keyword arguments; extra positional / keyword
                                                        arguments reach the macro's special variables varargs / kwargs
  expr ('attr', 'loop', a)  a in index index0 first last length revindex
"""
from __future__ import annotations

import re

from . import scope_gen as G


class RefUndefinedError(Exception):
    pass


class RefRuntimeError(Exception):
    pass


class U:
    """the undefined value"""
    def __str__(self):
        return ""

    def __repr__(self):
        return "Undefined"

    def __bool__(self):
        return False

    def __iter__(self):
        return iter(())


class RNS:
    def __init__(self, attrs):
        self.attrs = dict(attrs)

    def __repr__(self):
        return "<Namespace>"


class RMacro:
    def __init__(self, kind, name, params, body, env, defaults=None):
        self.kind, self.name, self.params, self.body, self.env = kind, name, params, body, env
        self.defaults = dict(defaults or {})      # parameter -> default expression (evaluated at call time)
        # does the macro use its special variable?  True / False / None (not determined by the rules, see special_use)
        self.sp = {n: special_use(n, params, body) for n in ("caller", "kwargs", "varargs")}

    def __repr__(self):
        return f"<Macro {self.name!r}>" if self.kind == "macro" else "<Macro anonymous>"


class RLoop:
    """the special variable `loop`: items are pulled one at a time; length / last / revindex look ahead"""
    def __init__(self, source, rec=None):
        self.source, self.buf, self.i, self.rec, self.done = source, [], -1, rec, False

    def pull(self):
        if self.buf:
            return True, self.buf.pop(0)
        if self.done:
            return False, None
        try:
            return True, next(self.source)
        except StopIteration:
            self.done = True
            return False, None

    def force(self):
        while not self.done:
            try:
                self.buf.append(next(self.source))
            except StopIteration:
                self.done = True

    def attr(self, a):
        if a in ("index", "index0"):
            return self.i + (a == "index")
        if a == "first":
            return self.i == 0
        self.force()
        n = self.i + 1 + len(self.buf)
        return {"last": self.i == n - 1, "length": n, "revindex": n - self.i, "revindex0": n - self.i - 1}.get(a, U())


class _Break(Exception):
    pass


class _Continue(Exception):
    pass


class _Budget(Exception):
    pass


LIMIT = 60000


NSCTOR = object()


def mentions(name, body):
    """does the text load `name` anywhere (nested bodies included)"""
    def ex(e):
        k = e[0]
        if k == "n":
            return e[1] == name
        if k in ("cat", "add"):
            return ex(e[1]) or ex(e[2])
        if k == "attr":
            return e[1] == name
        if k == "tup":
            return any(ex(x) for x in e[1])
        if k == "kw":
            return ex(e[2])
        return False

    for s in body:
        k = s[0]
        if k == "out" and any(ex(e) for e in s[1]):
            return True
        if k == "if" and (ex(s[1]) or mentions(name, s[2]) or mentions(name, s[3]) or mentions(name, s[4])):
            return True
        if k == "for" and (ex(s[2]) or (s[3] is not None and ex(s[3])) or mentions(name, s[4]) or mentions(name, s[5])):
            return True
        if k in ("set", "seta") and ex(s[-1]):
            return True
        if k == "nsnew" and (name == "namespace" or any(ex(e) for _, e in s[2])):
            return True
        if k == "setb" and (mentions(name, s[2]) or (len(s) > 3 and isinstance(s[3], (tuple, list)) and ex(s[3][1]))):
            return True
        if k == "with" and (any(ex(e) for _, e in s[1]) or mentions(name, s[2])):
            return True
        if k in ("filt", ) and (mentions(name, s[2]) or (isinstance(s[1], (tuple, list)) and ex(s[1][1]))):
            return True
        if k == "macro" and (mentions(name, s[3]) or (len(s) > 4 and any(ex(e) for e in s[4].values()))):
            return True
        if k == "callo" and (s[1] == name or any(ex(e) for e in s[2])):
            return True
        if k == "callb" and (s[2] == name or any(ex(e) for e in s[3]) or mentions(name, s[4])
                             or (len(s) > 5 and any(ex(e) for e in s[5].values()))):
            return True
        if k == "loopcall" and (name == "loop" or ex(s[1])):
            return True
        if k == "calla" and (s[1] == name or any(ex(e) for e in s[3])):
            return True
    return False


def is_param(name, body):
    for s in body:
        k = s[0]
        if k == "macro" and (name in s[2] or is_param(name, s[3])):
            return True
        if k == "callb" and (name in s[1] or is_param(name, s[4])):
            return True
        if k == "if" and (is_param(name, s[2]) or is_param(name, s[3]) or is_param(name, s[4])):
            return True
        if k == "for" and (is_param(name, s[4]) or is_param(name, s[5])):
            return True
        if k in ("setb", "with", "filt") and is_param(name, s[2]):
            return True
    return False


def _targets(t):
    return [t] if isinstance(t, str) else list(t)


def binds_anywhere(name, body):
    """is `name` assigned / bound as a target or parameter anywhere in the text (nested bodies included)"""
    for s in body:
        k = s[0]
        if k == "if" and (binds_anywhere(name, s[2]) or binds_anywhere(name, s[3]) or binds_anywhere(name, s[4])):
            return True
        if k == "for" and (name in _targets(s[1]) or binds_anywhere(name, s[4]) or binds_anywhere(name, s[5])):
            return True
        if k == "set" and name in _targets(s[1]):
            return True
        if k == "nsnew" and s[1] == name:
            return True
        if k == "setb" and (s[1] == name or binds_anywhere(name, s[2])):
            return True
        if k == "with" and (any(x == name for x, _ in s[1]) or binds_anywhere(name, s[2])):
            return True
        if k == "filt" and binds_anywhere(name, s[2]):
            return True
        if k == "macro" and (s[1] == name or name in s[2] or binds_anywhere(name, s[3])):
            return True
        if k == "callb" and (name in s[1] or binds_anywhere(name, s[4])):
            return True
    return False


def free_read(name, body, hidden=False):
    """(is there a read of `name` that can reach the variable of the enclosing macro, is the name DEFINITELY
    rebound at the end of this statement list).  Scoping rules only: if-branches share the scope (a store in one
    branch may not happen), loop / with / block-set / filter bodies are scopes of their own, with-values and loop
    iterables are read outside, a nested macro or call block has special variables of its own (not followed)."""
    def ex(e):
        return mentions(name, [("out", [e])])

    found = False
    for s in body:
        k = s[0]
        if k == "out":
            found |= (not hidden) and any(ex(e) for e in s[1])
        elif k == "if":
            found |= (not hidden) and ex(s[1])
            ends = []
            f1, h1 = free_read(name, s[2], hidden)
            found |= f1
            ends.append(h1)
            for ei in s[3]:
                found |= (not hidden) and ex(ei[1])
                f2, h2 = free_read(name, ei[2], hidden)
                found |= f2
                ends.append(h2)
            f3, h3 = free_read(name, s[4], hidden)
            found |= f3
            ends.append(h3)
            hidden = hidden or all(ends)
        elif k == "for":
            found |= (not hidden) and ex(s[2])
            inner = hidden or name in _targets(s[1])
            if s[3] is not None:
                found |= (not inner) and ex(s[3])
            found |= free_read(name, s[4], inner or name == "loop")[0]
            found |= free_read(name, s[5], hidden)[0]
        elif k == "loopcall":
            found |= (not hidden) and (name == "loop" or ex(s[1]))
        elif k == "set":
            found |= (not hidden) and ex(s[2])
            hidden = hidden or name in _targets(s[1])
        elif k == "seta":
            # the TARGET of an attribute assignment is not a use of a special variable: on varargs (a tuple), kwargs
            # (a dict) or caller (a macro) it can only fail, and which error a call with extra arguments then
            # reports is not a scoping matter (the engine does not count it either)
            found |= (not hidden) and ex(s[3])
        elif k == "nsnew":
            found |= (not hidden) and (name == "namespace" or any(ex(e) for _, e in s[2]))
            hidden = hidden or s[1] == name
        elif k == "setb":
            f1, h1 = free_read(name, s[2], hidden)
            found |= f1
            if len(s) > 3 and isinstance(s[3], (tuple, list)):
                found |= (not hidden) and ex(s[3][1])
            hidden = hidden or s[1] == name
        elif k == "with":
            found |= (not hidden) and any(ex(e) for _, e in s[1])
            found |= free_read(name, s[2], hidden or any(x == name for x, _ in s[1]))[0]
        elif k == "filt":
            if isinstance(s[1], (tuple, list)):
                found |= (not hidden) and ex(s[1][1])
            found |= free_read(name, s[2], hidden)[0]
        elif k == "macro":
            hidden = hidden or s[1] == name
        elif k == "callo":
            found |= (not hidden) and (s[1] == name or any(ex(e) for e in s[2]))
        elif k == "calla":
            found |= (not hidden) and (s[1] == name or any(ex(e) for e in s[3]))
        elif k == "callb":
            found |= (not hidden) and (s[2] == name or any(ex(e) for e in s[3]))
    return found, hidden


def nested_mention(name, body):
    """is `name` mentioned inside a nested macro / call-block body"""
    for s in body:
        k = s[0]
        if k == "macro" and (mentions(name, s[3]) or (len(s) > 4 and any(ex(e) for e in s[4].values()))):
            return True
        if k == "callb" and mentions(name, s[4]):
            return True
        if k == "if" and (nested_mention(name, s[2]) or nested_mention(name, s[3]) or nested_mention(name, s[4])):
            return True
        if k == "for" and (nested_mention(name, s[4]) or nested_mention(name, s[5])):
            return True
        if k in ("setb", "with", "filt") and nested_mention(name, s[2]):
            return True
    return False


def special_use(name, params, body):
    """does a macro use its special variable `name` (caller / kwargs / varargs)?  True: it must accept the
    corresponding arguments; False (never mentioned, or an ordinary parameter): it rejects them; None: the rules do
    not decide."""
    if name in params:
        return False        # an ordinary parameter of that name
    if free_read(name, body)[0]:
        return True
    if not mentions(name, body):
        return False
    if not binds_anywhere(name, body) and not nested_mention(name, body):
        return True
    return None             # mentioned, but every read is rebound or belongs to a nested macro: either answer is harmless


class _Unspecified(Exception):
    pass


class Ref:
    def __init__(self, data, priv=lambda x: x.startswith("_")):
        self.d = data
        self.priv = priv
        self.depth = 0
        self.steps = 0
        self.dead = set()       # ids of scopes that were left (the dicts are kept alive in self.kept)
        self.kept = []
        self.escaped = False    # a macro was called after a scope of its defining chain had been left

    # ------------------------------------------------------------ names
    def lookup(self, env, x):
        for sc in env:
            if x in sc:
                return sc[x]
        if x in self.d:
            return self.d[x]
        if x == "namespace":
            return NSCTOR
        return U()

    # ------------------------------------------------------------ expressions
    def ev(self, env, e):
        k = e[0]
        if k == "n":
            return self.lookup(env, e[1])
        if k == "i":
            return e[1]
        if k == "s":
            return e[1]
        if k == "tup":
            return tuple(self.ev(env, x) for x in e[1])
        if k == "cat":
            a, b = self.ev(env, e[1]), self.ev(env, e[2])
            return self.sized(str(a) + str(b))
        if k == "add":
            a, b = self.ev(env, e[1]), self.ev(env, e[2])
            if isinstance(a, U) or isinstance(b, U):
                raise RefUndefinedError()
            r = a + b
            if hasattr(r, "__len__") and len(r) > LIMIT:
                raise _Budget()
            return r
        if k == "attr":
            v = self.lookup(env, e[1])
            return self.getattr(v, e[2])
        raise ValueError(e)

    def getattr(self, v, a):
        if isinstance(v, U):
            raise RefUndefinedError()
        if isinstance(v, RNS):
            return v.attrs.get(a, U())
        if isinstance(v, RLoop):
            return v.attr(a)
        if isinstance(v, RMacro) or v is NSCTOR:
            return U()
        # the documented rule for foo.bar: attribute, then item, else undefined
        try:
            return getattr(v, a)
        except AttributeError:
            pass
        try:
            return v[a]
        except (TypeError, LookupError, AttributeError):
            return U()

    # ------------------------------------------------------------ statements
    def apply_filter(self, f, text, inner):
        """block filters: upper / lower / default(e) / replace('', e); the arguments stand in the tag, outside
        the body: they are evaluated in the ENCLOSING scope (what the body assigns does not leak into them)"""
        if f == "u":
            return text.upper()
        if f == "l":
            return text.lower()
        v = self.ev(inner, f[1])
        if f[0] == "rep":
            v = str(v)
            if len(v) * (len(text) + 1) > LIMIT:
                raise _Budget()
            return self.sized(text.replace("", v))      # python's own str.replace: the value between all characters
        return text      # default(value, arg): the text is defined

    def call(self, f, args, caller, kws=()):
        if isinstance(f, RMacro):
            sc = {}
            n = len(f.params)
            for i, p in enumerate(f.params[:len(args)]):
                sc[p] = args[i]
            extra, kw_extra = tuple(args[n:]), {}
            for k, v in kws:
                if k in f.params:
                    if k in sc:
                        if f.sp["kwargs"] is not False:
                            raise _Unspecified()    # a macro collecting keyword arguments: where the duplicate goes is not a scoping matter
                        raise TypeError("multiple values")
                    sc[k] = v
                else:
                    kw_extra[k] = v
            if caller is not None and f.sp["caller"] is False and f.sp["kwargs"] is not False:
                raise _Unspecified()        # a caller handed to a macro that only collects keyword arguments
            for name, given in (("varargs", bool(extra)), ("kwargs", bool(kw_extra)), ("caller", caller is not None)):
                use = f.sp[name]
                if given and use is None:
                    raise _Unspecified()
                if given and use is False:
                    raise TypeError(name)
            if f.sp["varargs"]:
                sc["varargs"] = extra
            if f.sp["kwargs"]:
                sc["kwargs"] = kw_extra
            if f.sp["caller"]:
                sc["caller"] = caller if caller is not None else U()
            # parameters are the macro's own names from the start: a default is evaluated at call time, in the
            # macro's scope, left to right; a parameter that is not bound yet (its own name, a later one) reads as
            # undefined there, never as the variable of the same name outside
            unbound = [p for p in f.params if p not in sc]
            for p in unbound:
                sc[p] = U()
            for p in unbound:
                if p in f.defaults:
                    sc[p] = self.ev([sc] + f.env, f.defaults[p])
            self.depth += 1
            if self.depth > 120:
                raise RecursionError()
            if any(id(x) in self.dead for x in f.env):
                self.escaped = True
            try:
                return self.scoped(sc, f.env, f.body)
            finally:
                self.depth -= 1
        if f is NSCTOR:
            if args:
                raise TypeError("namespace")
            return RNS(list(kws))
        if isinstance(f, U):
            raise RefUndefinedError()
        if isinstance(f, RLoop):
            raise TypeError("loop is not recursive")
        raise TypeError("not callable")

    def evargs(self, env, es):
        args, kws = [], []
        for e in es:
            if e[0] == "kw":
                kws.append((e[1], self.ev(env, e[2])))
            else:
                args.append(self.ev(env, e))
        return args, kws

    def assign(self, env, target, v):
        if isinstance(target, str):
            env[0][target] = v
            return
        vals = list(iter(v)) if not isinstance(v, U) else []
        if len(vals) != len(target):
            raise ValueError("unpack")
        for x, w in zip(target, vals):
            env[0][x] = w

    def leave(self, sc):
        self.dead.add(id(sc))
        self.kept.append(sc)

    def scoped(self, sc, env, body):
        try:
            return self.block([sc] + env, body)
        finally:
            self.leave(sc)

    def block(self, env, body):
        out = []
        for s in body:
            try:
                out.append(self.stmt(env, s))
            except (_Break, _Continue) as c:
                # the text written so far in this iteration stays written
                raise type(c)("".join(out) + c.args[0])
        return self.sized("".join(out))

    @staticmethod
    def sized(text):
        # programs whose text explodes (a loop doubling a string) are skipped before the engine sees them
        if len(text) > LIMIT:
            raise _Budget()
        return text

    def run_loop(self, env, s, iterable, rec_depth=0):
        target, test, body, els = s[1], s[3], s[4], s[5]
        recursive = len(s) > 6 and s[6]
        it = iter(()) if isinstance(iterable, U) else iter(iterable)

        def source():
            # the filter decides which items belong to the loop
            for item in it:
                if test is not None:
                    sc = {}
                    self.assign([sc], target, item)
                    keep = bool(self.ev([sc] + env, test))
                    self.leave(sc)
                    if not keep:
                        continue
                yield item

        out = []
        lp = RLoop(source(), rec=(s, env) if recursive else None)
        ran = False
        while True:
            more, item = lp.pull()
            if not more:
                break
            lp.i += 1
            sc = {}
            self.assign([sc], target, item)
            sc["loop"] = lp
            ran = True
            try:
                out.append(self.scoped(sc, env, body))
            except _Continue as c:
                out.append(c.args[0])
                continue
            except _Break as b:
                out.append(b.args[0])
                break
        if not ran and els:
            out.append(self.scoped({}, env, els))
        return "".join(out)

    def stmt(self, env, s):
        k = s[0]
        self.steps += 1
        if self.steps > 60000:
            raise _Budget()
        if k == "out":
            return "".join(str(self.ev(env, e)) for e in s[1])
        if k == "if":
            if bool(self.ev(env, s[1])):
                return self.block(env, s[2])
            for ei in s[3]:
                if bool(self.ev(env, ei[1])):
                    return self.block(env, ei[2])
            return self.block(env, s[4])
        if k == "for":
            return self.run_loop(env, s, self.ev(env, s[2]))
        if k == "loopcall":
            lp = self.lookup(env, "loop")
            arg = self.ev(env, s[1])
            if isinstance(lp, U):
                raise RefUndefinedError()
            if not isinstance(lp, RLoop):
                raise TypeError("not callable")
            if lp.rec is None:
                raise TypeError("loop is not recursive")
            self.depth += 1
            if self.depth > 120:
                raise RecursionError()
            try:
                fs, fenv = lp.rec
                return self.run_loop(fenv, fs, arg)
            finally:
                self.depth -= 1
        if k in ("break", "continue"):
            raise (_Break if k == "break" else _Continue)("")
        if k == "set":
            self.assign(env, s[1], self.ev(env, s[2]))
            return ""
        if k == "seta":
            c = self.lookup(env, s[1])
            if not isinstance(c, RNS):
                raise RefRuntimeError()
            c.attrs[s[2]] = self.ev(env, s[3])
            return ""
        if k == "nsnew":
            c = self.lookup(env, "namespace")
            kv = [(a, self.ev(env, e)) for a, e in s[2]]
            if c is NSCTOR:
                # an item with attribute None is the positional argument: namespace(source, a=..) COPIES the
                # mapping / pairs it is given (python's dict(source, **kw)); the source object stays untouched
                attrs = {}
                for a, v in kv:
                    if a is None:
                        if isinstance(v, U):
                            raise RefUndefinedError()      # dict() asks its argument for the attribute `keys`
                        if isinstance(v, (RNS, RMacro, RLoop)) or v is NSCTOR:
                            raise TypeError("not iterable")
                        attrs.update(dict(v))
                for a, v in kv:
                    if a is not None:
                        attrs[a] = v
                env[0][s[1]] = RNS(attrs)
                return ""
            if isinstance(c, U):
                raise RefUndefinedError()
            raise TypeError("not callable")
        if k == "setb":
            inner = [{}] + env
            try:
                text = self.block(inner, s[2])
                if len(s) > 3 and s[3] is not None:
                    text = self.apply_filter(s[3], text, env)
            finally:
                self.leave(inner[0])
            env[0][s[1]] = text
            return ""
        if k == "with":
            vals = [self.ev(env, e) for _, e in s[1]]
            sc = {}
            for (x, _), v in zip(s[1], vals):
                sc[x] = v
            return self.scoped(sc, env, s[2])
        if k == "filt":
            inner = [{}] + env
            try:
                return self.apply_filter(s[1], self.block(inner, s[2]), env)
            finally:
                self.leave(inner[0])
        if k == "macro":
            env[0][s[1]] = RMacro("macro", s[1], s[2], s[3], env, s[4] if len(s) > 4 else None)
            return ""
        if k == "callo":
            f = self.lookup(env, s[1])
            args, kws = self.evargs(env, s[2])
            return str(self.call(f, args, None, kws))
        if k == "calla":
            f = self.getattr(self.lookup(env, s[1]), s[2])
            args, kws = self.evargs(env, s[3])
            return str(self.call(f, args, None, kws))
        if k == "callb":
            cl = RMacro("caller", None, s[1], s[4], env, s[5] if len(s) > 5 else None)
            f = self.lookup(env, s[2])
            args, kws = self.evargs(env, s[3])
            return str(self.call(f, args, cl, kws))
        raise ValueError(s)

    def render(self, p):
        top = {}
        try:
            text = self.block([top], p)
        except (_Break, _Continue):
            return ("err", "loopcontrol-outside-loop")
        except (_Budget, _Unspecified):
            return ("skip",)
        except RefUndefinedError:
            return ("err", "UndefinedError")
        except RefRuntimeError:
            return ("err", "TemplateRuntimeError")
        except RecursionError:
            return ("err", "Fuel")
        except Exception as e:  # noqa
            return ("err", type(e).__name__)
        ex = tuple(sorted((k, canon2(v)) for k, v in top.items() if not self.priv(k)))
        return ("ok", text, ex)


_addr = re.compile(r" at 0x[0-9a-f]+", re.I)


def canon2(v):
    """exported value -> comparable text (exact type kept: a Markup / str subclass is not a str)"""
    if type(v) is str:
        return "'" + v + "'"
    return _addr.sub("", repr(v))


def norm_obs(o):
    if o[0] == "ok":
        return ("ok", _addr.sub("", o[1]), tuple((k, _addr.sub("", v)) for k, v in o[2]))
    return o


def real_render2(env, src, mk):
    """like scope_gen.real_render; `mk()` builds fresh render arguments (generators are single-use)"""
    try:
        t = env.from_string(src)
    except RecursionError:
        return ("compile", "RecursionError")
    except Exception as e:  # noqa
        return ("compile", type(e).__name__ + ": " + str(e)[:80])
    try:
        text = t.render(**mk())
    except Exception as e:  # noqa
        n = type(e).__name__
        return ("err", "Fuel" if n == "RecursionError" else n)
    try:
        mod = t.make_module(mk())
        ex = tuple(sorted((k, canon2(v)) for k, v in mod.__dict__.items() if not k.startswith("_")))
    except Exception as e:  # noqa
        return ("err", "module:" + type(e).__name__)
    return ("ok", text, ex)


# ------------------------------------------------------------------ printers for the extended syntax
def e2_src(e):
    if e[0] == "kw":
        return e[1] + "=" + e2_src(e[2])
    if e[0] == "tup":
        return "(" + ", ".join(e2_src(x) for x in e[1]) + ("," if len(e[1]) == 1 else "") + ")"
    if e[0] in ("cat", "add"):
        return f"({e2_src(e[1])} {'~' if e[0] == 'cat' else '+'} {e2_src(e[2])})"
    return G.e_src(e)


def f_src(f):
    if f == "u":
        return "upper"
    if f == "l":
        return "lower"
    if f[0] == "rep":
        return "replace('', " + e2_src(f[1]) + ")"
    return "default(" + e2_src(f[1]) + ")"


def tg_src(t):
    return t if isinstance(t, str) else ", ".join(t)


def p2_src(p):
    return "".join(s2_src(s) for s in p)


def s2_src(s):
    k = s[0]
    if k == "out":
        return "".join("{{ " + e2_src(e) + " }}" for e in s[1])
    if k == "if":
        r = "{% if " + e2_src(s[1]) + " %}" + p2_src(s[2])
        for ei in s[3]:
            r += "{% elif " + e2_src(ei[1]) + " %}" + p2_src(ei[2])
        if s[4]:
            r += "{% else %}" + p2_src(s[4])
        return r + "{% endif %}"
    if k == "for":
        r = "{% for " + tg_src(s[1]) + " in " + e2_src(s[2])
        if s[3] is not None:
            r += " if " + e2_src(s[3])
        if len(s) > 6 and s[6]:
            r += " recursive"
        r += " %}" + p2_src(s[4])
        if s[5]:
            r += "{% else %}" + p2_src(s[5])
        return r + "{% endfor %}"
    if k == "loopcall":
        return "{{ loop(" + e2_src(s[1]) + ") }}"
    if k == "break":
        return "{% break %}"
    if k == "continue":
        return "{% continue %}"
    if k == "set":
        return "{% set " + tg_src(s[1]) + " = " + e2_src(s[2]) + " %}"
    if k == "setb":
        f = ""
        if len(s) > 3 and s[3] is not None:
            f = " | " + f_src(s[3])
        return "{% set " + s[1] + f + " %}" + p2_src(s[2]) + "{% endset %}"
    if k == "seta":
        return "{% set " + s[1] + "." + s[2] + " = " + e2_src(s[3]) + " %}"
    if k == "nsnew":
        return "{% set " + s[1] + " = namespace(" + ", ".join(e2_src(e) if a is None else f"{a}={e2_src(e)}" for a, e in s[2]) + ") %}"
    if k == "with":
        return "{% with " + ", ".join(f"{x} = {e2_src(e)}" for x, e in s[1]) + " %}" + p2_src(s[2]) + "{% endwith %}"
    if k == "filt":
        return "{% filter " + f_src(s[1]) + " %}" + p2_src(s[2]) + "{% endfilter %}"
    if k == "macro":
        dfl = s[4] if len(s) > 4 else {}
        return ("{% macro " + s[1] + "(" + ", ".join(x + ("=" + e2_src(dfl[x]) if x in dfl else "") for x in s[2]) + ") %}"
                + p2_src(s[3]) + "{% endmacro %}")
    if k == "callo":
        return "{{ " + s[1] + "(" + ", ".join(e2_src(e) for e in s[2]) + ") }}"
    if k == "calla":
        return "{{ " + s[1] + "." + s[2] + "(" + ", ".join(e2_src(e) for e in s[3]) + ") }}"
    if k == "callb":
        dfl = s[5] if len(s) > 5 else {}
        hd = "{% call" + ("(" + ", ".join(x + ("=" + e2_src(dfl[x]) if x in dfl else "") for x in s[1]) + ")" if s[1] else "") + " "
        return hd + s[2] + "(" + ", ".join(e2_src(e) for e in s[3]) + ") %}" + p2_src(s[4]) + "{% endcall %}"
    raise ValueError(s)


# ------------------------------------------------------------------ value kinds
class SubStr(str):
    """a str subclass whose text form differs from its content"""
    def __str__(self):
        return "<" + str.__str__(self) + ">"


class GetItemOnly:
    def __init__(self, items):
        self.items = items

    def __getitem__(self, i):
        return self.items[i]

    def __repr__(self):
        return "GIO" + repr(self.items)


class IterOnly:
    def __init__(self, items):
        self.items = items

    def __iter__(self):
        return iter(list(self.items))

    def __repr__(self):
        return "IO" + repr(self.items)


class OneShot:
    """a single-use iterator with a stable text form (the text of a real generator carries its address)"""
    def __init__(self, items):
        self.it = iter(list(items))

    def __iter__(self):
        return self

    def __next__(self):
        return next(self.it)

    def __repr__(self):
        return "<oneshot>"


def stable(dspec):
    """the same render arguments with real generators / list iterators replaced by OneShot"""
    return {k: ("oneshot", v[1]) if v[0] in ("gen", "iter") else v for k, v in dspec.items()}


class AttrRaises:
    def __getattr__(self, name):
        if name.startswith("_") or name.startswith("jinja_") or name in ("unsafe_callable", "alters_data"):
            raise AttributeError(name)      # python / engine protocol probes see a plain object
        raise ValueError("attribute protocol raises")

    def __repr__(self):
        return "AR"


def make_value(spec):
    """fresh value from a description (generators must be fresh for every render)"""
    k = spec[0]
    if k == "plain":
        return spec[1]
    if k == "markup":
        from markupsafe import Markup
        return Markup(spec[1])
    if k == "substr":
        return SubStr(spec[1])
    if k == "tuple":
        return tuple(spec[1])
    if k == "dict":
        return dict(spec[1])
    if k == "gen":
        return (x for x in spec[1])
    if k == "iter":
        return iter(list(spec[1]))
    if k == "oneshot":
        return OneShot(spec[1])
    if k == "gio":
        return GetItemOnly(list(spec[1]))
    if k == "io":
        return IterOnly(list(spec[1]))
    if k == "ar":
        return AttrRaises()
    raise ValueError(spec)


def make_data(dspec):
    return {x: make_value(s) for x, s in dspec.items()}


# ------------------------------------------------------------------ extended generator
class EGen(G.SGen):
    """SGen plus: tuple targets (for / set), recursive loops with loop(...), break / continue, filtered
    block sets, loop attributes, and data of many Python kinds."""

    def expr(self, d=2, in_loop=False):
        r = self.r
        if in_loop and r.random() < 0.08:
            return ("attr", "loop", r.choice(["index0", "first", "last", "length", "revindex", "index"]))
        return super().expr(d, in_loop)

    def stmt(self, budget, depth, in_loop, macros):
        r = self.r
        k = r.random()
        if in_loop and k < 0.07:
            return ((r.choice(["break", "continue"]),), 1)
        if in_loop and k < 0.12:
            # guarded loop control
            return ("if", self.expr(1, in_loop), [(r.choice(["break", "continue"]),)], [], []), 2
        if k < 0.17:
            xs = r.sample(self.pool, 2)
            e = ("tup", [self.expr(1, in_loop), self.expr(1, in_loop)]) if r.random() < 0.85 else ("n", self.name())
            return ("set", xs, e), 1
        if macros and "n" in self.pool and 0.93 < k < 0.965:
            # a macro object stored in a namespace attribute ...
            return ("seta", "n", r.choice(["v", "w"]), ("n", r.choice(macros)[0])), 1
        if "n" in self.pool and self.ns_made and k >= 0.965:
            # ... and called through it (possibly after the scope that defined the macro has ended)
            return ("calla", "n", r.choice(["v", "w"]), [self.expr(1, in_loop) for _ in range(r.randint(0, 1))]), 1
        if depth > 0 and budget > 1 and k < 0.24:
            # tuple target / recursive loop
            b = budget - 1
            rec = r.random() < 0.5
            tg = r.sample(self.pool, 2) if r.random() < 0.4 else self.name()
            body, b = self.block(b, depth - 1, True, list(macros))
            if rec:
                body.insert(r.randint(0, len(body)), ("if", self.expr(1, True), [("loopcall", self.expr(1, True))], [], [])
                            if r.random() < 0.7 else ("loopcall", self.expr(1, True)))
            els = []
            if b > 0 and r.random() < 0.3:
                els, b = self.block(b, depth - 1, in_loop and r.random() < 0.1, list(macros))
            test = self.expr(1, in_loop and r.random() < 0.6) if r.random() < 0.2 else None
            return ("for", tg, self.iterable(in_loop), test, body, strip_controls(els), rec), budget - b
        if depth > 0 and budget > 1 and k < 0.32:
            b = budget - 1
            body, b = self.block(b, depth - 1, in_loop and r.random() < 0.2, list(macros))
            f = r.choice(["u", "l", ("default", self.expr(1, in_loop)), ("rep", self.expr(1, in_loop))])
            if r.random() < 0.5:
                return ("filt", f, strip_controls(body)), budget - b
            return ("setb", self.name(), strip_controls(body), f), budget - b
        if 0.40 <= k < 0.45:
            # x = x shapes: the value of a binder reads the very name it binds
            x = self.name()
            say = ("out", [("n", x)])
            return r.choice([("with", [(x, ("n", x))], [say]), ("set", x, ("n", x)), ("for", x, ("n", x), None, [say], []),
                             ("setb", x, [say]), ("with", [(x, ("cat", ("n", x), ("s", "w")))], [say, ("set", x, ("i", 0))])]), 2
        s, used = super().stmt(budget, depth, in_loop, macros)
        if s[0] in ("callo", "callb") and r.random() < 0.3:
            # extra positional / keyword arguments (they reach varargs / kwargs, or are refused)
            i = 2 if s[0] == "callo" else 3
            extra = [self.expr(1, in_loop) for _ in range(r.randint(0, 1))]
            kws = [("kw", r.choice(self.pool + ["zz"]), self.expr(1, in_loop)) for _ in range(r.randint(0 if extra else 1, 2))]
            kws = [kw for j, kw in enumerate(kws) if kw[1] not in [q[1] for q in kws[:j]]]
            s = s[:i] + (list(s[i]) + extra + kws,) + s[i + 1:]
        if s[0] == "for":
            s = s[:5] + (strip_controls(s[5]),) + s[6:]     # the else part is not inside this loop
        # loop controls must not end up inside a macro / call block / filter / set block of the loop
        if s[0] in ("macro", "callb", "filt", "setb"):
            s = strip_controls_stmt(s)
        if s[0] == "nsnew" and r.random() < 0.35:
            # namespace(source, ...) built from a context value (a dict, pairs, anything) and mutated later
            s = ("nsnew", s[1], [(None, ("n", self.name()))] + list(s[2]))
        if s[0] in ("macro", "callb") and r.random() < 0.4:
            # defaults for a suffix of the parameters: they read the parameter's own name, earlier / later
            # parameters, outer names
            ps = s[2] if s[0] == "macro" else s[1]
            if ps:
                k0 = r.randint(0, len(ps) - 1)
                dfl = {}
                for x in ps[k0:]:
                    j = r.random()
                    e = ("n", x) if j < 0.3 else ("n", r.choice(ps)) if j < 0.5 else self.expr(1)
                    dfl[x] = e if r.random() < 0.7 else ("cat", e, ("s", "!"))
                s = (s + (dfl,)) if len(s) == (4 if s[0] == "macro" else 5) else s
        if s[0] == "filt" and r.random() < 0.5:
            s = ("filt", ("rep", self.expr(1, in_loop)), s[2])
        return s, used

    def program(self):
        p = super().program()
        r = self.r
        if r.random() < 0.6:
            # a name read in the HEADER of a scoped statement (the part the enclosing scope evaluates): one such
            # statement of a random kind at a random top-level position
            x, y = r.sample(self.pool, 2)
            say = lambda e: ("out", [e])      # noqa
            hdr = r.choice([
                ("filt", ("rep", ("n", x)), [say(("s", "q"))]),
                ("setb", y, [say(("s", "q"))], ("rep", ("n", x))),
                ("with", [(y, ("n", x))], [say(("n", y))]),
                ("for", y, ("n", x), None, [say(("n", y))], [say(("s", "none"))]),
                ("for", y, ("s", "pq"), ("n", x), [say(("n", y))], []),
                ("if", ("n", x), [say(("s", "t"))], [], [say(("s", "f"))]),
                ("nsnew", y, [("v", ("n", x))]),
                ("callo", x, []),
            ])
            p.insert(r.randint(0, len(p)), hdr)
            if hdr[0] in ("setb", "nsnew"):
                p.append(say(("n", y)) if hdr[0] == "setb" else say(("attr", y, "v")))
        if "n" in self.pool and r.random() < 0.35:
            p = self.export_macros(p)
        p = self.specialise(p)
        # late assignments, at the end of the top-level scope, of names used earlier (every position a name can
        # be read in is followed by a later store of that name in the same scope)
        for x in self.pool:
            if self.r.random() < 0.3 and mentions(x, p):
                p.append(("set", x, self.expr(1)) if self.r.random() < 0.7 else ("setb", x, [("out", [self.expr(1)])]))
        return p

    SPECIALS = ["kwargs", "varargs", "caller"]

    def specialise(self, p):
        """one pool name becomes kwargs / varargs / caller everywhere (targets, parameters, reads): the special
        variables of macros used like ordinary identifiers"""
        if self.r.random() >= 0.3:
            return p
        x = self.r.choice(self.pool)
        sp = self.r.choice(self.SPECIALS)
        if sp == "caller" and is_param(x, p):
            sp = self.r.choice(self.SPECIALS[:2])     # an explicit `caller` parameter needs a default (compile error)
        self.pool = [sp if n == x else n for n in self.pool]
        return rename2(p, {x: sp})

    def export_macros(self, p):
        """macros defined in nested scopes are stored in attributes of a top-level namespace and called through
        it later — inside the defining scope, in a sibling scope, after the scope has ended"""
        r = self.r
        calls = []

        def walk(body, nested):
            out = []
            for s in body:
                k = s[0]
                if k == "if":
                    s = ("if", s[1], walk(s[2], nested), [("if", e[1], walk(e[2], nested), [], []) for e in s[3]], walk(s[4], nested))
                elif k == "for":
                    s = s[:4] + (walk(s[4], True), walk(s[5], True)) + tuple(s[6:])
                elif k in ("with", "filt"):
                    s = (k, s[1], walk(s[2], True))
                elif k == "setb":
                    s = (k, s[1], walk(s[2], True)) + tuple(s[3:])
                elif k == "macro":
                    s = ("macro", s[1], s[2], walk(s[3], True))
                elif k == "callb":
                    s = s[:4] + (walk(s[4], True),)
                out.append(s)
                if k == "macro" and nested and r.random() < 0.6:
                    a = r.choice(["v", "w"])
                    out.append(("seta", "n", a, ("n", s[1])))
                    call = ("calla", "n", a, [self.expr(1) for _ in range(r.randint(0, len(s[2])))])
                    calls.append(call)
                    if r.random() < 0.3:
                        out.append(call)
            return out

        q = walk(p, False)
        if not calls:
            return p
        q.insert(0, ("nsnew", "n", []))
        for c in calls:
            q.insert(r.randint(1, len(q)), c) if r.random() < 0.5 else q.append(c)
        return q

    def dspec(self, avoid=()):
        r = self.r
        d = {}
        for x in self.pool:
            k = r.random()
            if k < 0.2 or x in avoid:
                continue
            if k < 0.35:
                d[x] = ("plain", r.choice([0, 1, 5, -2, True, False, 1.5, 2.0]))
            elif k < 0.45:
                d[x] = ("plain", r.choice(["s", "tu", "", "Hi"]))
            elif k < 0.55:
                d[x] = r.choice([("markup", "mk"), ("substr", "sb")])
            elif k < 0.7:
                d[x] = ("plain", [r.randint(0, 5) for _ in range(r.randint(0, 3))])
            elif k < 0.78:
                d[x] = ("tuple", [r.choice([1, "p", (1, 2), [3, 4]]) for _ in range(r.randint(0, 3))])
            elif k < 0.84:
                d[x] = ("plain", [[1, 2], ("a", "b"), [5, "q"]][: r.randint(1, 3)])
            elif k < 0.88:
                d[x] = ("dict", [("v", r.randint(0, 3)), ("w", "dw")][: r.randint(1, 2)])
            elif k < 0.92:
                d[x] = (r.choice(["gen", "iter", "oneshot"]), [r.randint(0, 3) for _ in range(r.randint(0, 3))])
            elif k < 0.97:
                d[x] = (r.choice(["gio", "io"]), [r.randint(0, 3) for _ in range(r.randint(0, 3))])
            else:
                d[x] = ("ar",)
        return d


def unsafe_names(p):
    """names whose read can hit the recorded finding C03-rbw-inner-scope (a frame initialises the name with
    `missing` because it assigns it without having read it, and an inner scope reads it before the assignment):
    computed from the text alone, conservatively —
      (a) assigned (not as a parameter / loop target / with target) anywhere inside a nested scope, or
      (b) assigned at the top level, not read at the top level before that (a top-level read makes the frame
          resolve the name from the context), and read inside a nested scope at or before the assigning
          statement.
    The generator leaves these names out of the render arguments (the streams over the Coq AST explore that
    boundary with the exact guard)."""
    inner_st, unsafe = set(), set()
    root_loaded, inner_loaded, root_stored = set(), set(), set()

    def ex(e, acc):
        k = e[0]
        if k == "n":
            acc.add(e[1])
        elif k in ("cat", "add"):
            ex(e[1], acc), ex(e[2], acc)
        elif k == "attr":
            acc.add(e[1])
        elif k == "tup":
            for x in e[1]:
                ex(x, acc)
        elif k == "kw":
            ex(e[2], acc)

    def tg(t):
        return [t] if isinstance(t, str) else list(t)

    def store(x, root):
        if not root:
            inner_st.add(x)
        elif x not in root_stored:
            root_stored.add(x)
            if x not in root_loaded and x in inner_loaded:
                unsafe.add(x)

    def walk(body, root, branch=False):
        # root: statements of the top-level frame; branch: inside an if at the top level (reads there do not
        # count as top-level reads: branches are analysed on copies of the symbol table)
        ld = (set() if branch else root_loaded) if root else inner_loaded
        for s in body:
            k = s[0]
            if k == "out":
                for e in s[1]:
                    ex(e, ld)
            elif k == "if":
                ex(s[1], ld)
                walk(s[2], root, root), walk(s[3], root, root), walk(s[4], root, root)
            elif k == "for":
                ex(s[2], ld)
                if s[3] is not None:
                    ex(s[3], inner_loaded)
                walk(s[4], False), walk(s[5], False)
            elif k == "loopcall":
                ex(s[1], ld)
            elif k == "set":
                ex(s[2], ld)
                for x in tg(s[1]):
                    store(x, root)
            elif k == "seta":
                ld.add(s[1]), ex(s[3], ld)
            elif k == "nsnew":
                for _, e in s[2]:
                    ex(e, ld)
                store(s[1], root)
            elif k == "setb":
                if len(s) > 3 and isinstance(s[3], (tuple, list)):
                    ex(s[3][1], ld)      # read by the enclosing frame before the target is stored (/repo 1b7cd78)
                walk(s[2], False)
                store(s[1], root)
            elif k == "with":
                for _, e in s[1]:
                    ex(e, inner_loaded)
                walk(s[2], False)
            elif k == "filt":
                if isinstance(s[1], (tuple, list)):
                    ex(s[1][1], ld)      # the enclosing frame records this read (FrameSymbolVisitor.visit_FilterBlock)
                walk(s[2], False)
            elif k == "macro":
                for e in (s[4].values() if len(s) > 4 else ()):
                    ex(e, inner_loaded)
                walk(s[3], False)
                store(s[1], root)
            elif k == "callo":
                ld.add(s[1])
                for e in s[2]:
                    ex(e, ld)
            elif k == "callb":
                ld.add(s[2])
                for e in s[3]:
                    ex(e, ld)
                for e in (s[5].values() if len(s) > 5 else ()):
                    ex(e, inner_loaded)
                walk(s[4], False)
            elif k == "calla":
                ld.add(s[1])
                for e in s[3]:
                    ex(e, ld)

    walk(p, True)
    return inner_st | unsafe


def strip_controls(p):
    return [strip_controls_stmt(s) for s in p if s[0] not in ("break", "continue")]


def strip_controls_stmt(s):
    k = s[0]
    if k == "if":
        return ("if", s[1], strip_controls(s[2]), [strip_controls_stmt(e) for e in s[3]], strip_controls(s[4]))
    if k == "for":
        return s           # a nested loop may use its own controls
    if k == "setb":
        return (s[0], s[1], strip_controls(s[2])) + tuple(s[3:])
    if k in ("with", "filt"):
        return (s[0], s[1], strip_controls(s[2]))
    if k == "macro":
        return ("macro", s[1], s[2], strip_controls(s[3]))
    if k == "callb":
        return ("callb", s[1], s[2], s[3], strip_controls(s[4]))
    return s


def rename2(p, m):
    """consistent renaming of variables (extended syntax); loop / caller / namespace stay"""
    f = lambda x: m.get(x, x)      # noqa

    def ex(e):
        k = e[0]
        if k == "n":
            return ("n", f(e[1]))
        if k in ("cat", "add"):
            return (k, ex(e[1]), ex(e[2]))
        if k == "attr":
            return ("attr", f(e[1]), e[2])
        if k == "tup":
            return ("tup", [ex(x) for x in e[1]])
        if k == "kw":
            return ("kw", e[1], ex(e[2]))      # keyword names are not variables: kept
        return e

    def tg(t):
        return f(t) if isinstance(t, str) else [f(x) for x in t]

    def st(s):
        k = s[0]
        if k == "out":
            return ("out", [ex(e) for e in s[1]])
        if k == "if":
            return ("if", ex(s[1]), rename2(s[2], m), [st(e) for e in s[3]], rename2(s[4], m))
        if k == "for":
            return ("for", tg(s[1]), ex(s[2]), None if s[3] is None else ex(s[3]), rename2(s[4], m), rename2(s[5], m)) + tuple(s[6:])
        if k == "loopcall":
            return ("loopcall", ex(s[1]))
        if k == "set":
            return ("set", tg(s[1]), ex(s[2]))
        if k == "seta":
            return ("seta", f(s[1]), s[2], ex(s[3]))
        if k == "nsnew":
            return ("nsnew", f(s[1]), [(a, ex(e)) for a, e in s[2]])
        if k == "setb":
            flt = s[3] if len(s) > 3 else None
            if isinstance(flt, (tuple, list)):
                flt = (flt[0], ex(flt[1]))
            return ("setb", f(s[1]), rename2(s[2], m), flt)
        if k == "with":
            return ("with", [(f(x), ex(e)) for x, e in s[1]], rename2(s[2], m))
        if k == "filt":
            return ("filt", (s[1][0], ex(s[1][1])) if isinstance(s[1], (tuple, list)) else s[1], rename2(s[2], m))
        if k == "macro":
            return ("macro", f(s[1]), [f(x) for x in s[2]], rename2(s[3], m)) + (({f(x): ex(e) for x, e in s[4].items()},) if len(s) > 4 else ())
        if k == "callo":
            return ("callo", f(s[1]), [ex(e) for e in s[2]])
        if k == "calla":
            return ("calla", f(s[1]), s[2], [ex(e) for e in s[3]])
        if k == "callb":
            return ("callb", [f(x) for x in s[1]], f(s[2]), [ex(e) for e in s[3]], rename2(s[4], m)) + (({f(x): ex(e) for x, e in s[5].items()},) if len(s) > 5 else ())
        return s

    return [st(s) for s in p]


def special_sweep():
    """the special variables of a macro (kwargs / varargs / caller) used like ordinary identifiers: every
    (earlier statement that binds the name somewhere, position that reads it, way of calling) once.
    Returns [(program, dspec)]."""
    out = []
    say = lambda e: ("out", [e])      # noqa
    for S in ("kwargs", "varargs", "caller"):
        v = ("n", S)
        decoys = [
            [],
            [("setb", "t", [("set", S, ("i", 1))])],
            [("filt", "u", [("set", S, ("i", 1))])],
            [("for", "i", ("s", "p"), None, [("set", S, ("i", 1))], [])],
            [("with", [(S, ("i", 1))], [say(v)])],
            [("if", ("n", "c"), [("set", S, ("i", 1))], [], [])],
            [("if", ("n", "c"), [("set", S, ("i", 1))], [], [("set", S, ("i", 2))])],
            [("macro", "q", [S] if S != "caller" else ["z"], [say(v)])],
            [("set", S, ("i", 1))],
            [("for", S, ("s", "p"), None, [say(v)], [])],
            [("setb", S, [say(("s", "b"))])],
        ]
        uses = [
            [say(v)],
            [("with", [(S, v)], [say(v)])],
            [("with", [("w", v)], [say(("n", "w"))])],
            [("set", S, v), say(v)],
            [("for", S, v, None, [say(v)], [say(("s", "none"))])],
            [("filt", ("rep", v), [say(("s", "q"))])],
            [("setb", "t", [say(v)]), say(("n", "t"))],
            [("setb", S, [say(v)]), say(v)],
            [("if", v, [say(("s", "T"))], [], [say(("s", "F"))])],
            [("for", "i", ("s", "pq"), v, [say(("n", "i"))], [])],
            [("for", "i", ("s", "pq"), None, [("for", "j", ("s", "r"), v, [say(("n", "j"))], [])], [])],
            [],
        ]
        calls = {"kwargs": [("callo", "m", [("i", 1), ("kw", "zz", ("i", 2))])],
                 "varargs": [("callo", "m", [("i", 1), ("i", 2), ("s", "e")])],
                 "caller": [("callb", [], "m", [("i", 1)], [say(("s", "B"))])]}[S] + [("callo", "m", [("i", 1)])]
        for d in decoys:
            for u in uses:
                for c in calls:
                    prog = [("macro", "m", ["a"], d + u + [say(("n", "a"))]), c]
                    for cv in ((True, False) if d and d[0][0] == "if" else (True,)):
                        out.append((prog, {"c": ("plain", cv)}))
    # parameter defaults that read the parameter's own name, an earlier / later parameter, an outer name
    body = [say(("s", "[")), say(("n", "x")), say(("s", "|")), say(("n", "y")), say(("s", "|")), say(("n", "z")), say(("s", "]"))]
    for dy in (("n", "y"), ("n", "x"), ("n", "z"), ("n", "o"), ("cat", ("n", "y"), ("s", "!")), ("add", ("n", "x"), ("i", 1))):
        for dz in (("n", "z"), ("n", "y"), ("i", 7)):
            dfl = {"y": dy, "z": dz}
            for args in ([], [("i", 1)], [("i", 1), ("i", 2)], [("i", 1), ("kw", "z", ("i", 3))], [("kw", "y", ("s", "k"))]):
                for data in ({}, {"y": ("plain", "Y"), "o": ("plain", "O"), "z": ("plain", 0)}):
                    out.append(([("macro", "m", ["x", "y", "z"], body, dfl), ("callo", "m", args)], data))
            for cargs in ([], [("i", 5)]):
                out.append(([("macro", "m", [], [("callo", "caller", cargs)]),
                             ("callb", ["y", "z"], "m", [], [say(("n", "y")), say(("s", "/")), say(("n", "z"))], dfl)], {"y": ("plain", "Y")}))
    return out
