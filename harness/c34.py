"""C34 — native rendering returns native values as documented.

proof:  Properties/C34.v (render_refines for every valid entry point; native_single;
        native_joined; native_empty; render_async needs async; constant grouping unobservable) —
        literal_eval and str() are universally quantified
tie  :  T5 translator: gen/native_translate.py turns the current source of native_concat into a term of
        Lib/PyNative; Gen_native.v proves it equal to Model.Native.native_concat for a generator argument
        (consumed by islice, hence the chain) and for a list argument, literal_eval / str() quantified; the
        hooks of NativeCodeGenerator and render / render_async are compared as exact statement shapes;
        K  (A) the pieces the real root render function yields (sync generator / async generator)
        are fed to the extracted native_render; its answer — the object itself, None, or
        "literal_eval-or-text of <text>" evaluated with CPython's ast — must be what
        NativeTemplate.render / render_async return in sync and async-enabled native
        environments (identity for objects, type + repr for values);
        (B) templates built from node lists (data / constant / variable outputs): the pieces are
        predicted from the nodes (constants as their str()), so NativeCodeGenerator's output
        hooks and constant grouping are tied through C34_grouping_unobservable.
oracle: extracted spec_native on the same pieces with CPython's literal_eval: a value when the
        text evaluates as a literal, the text in every other case.
"""
import ast
import asyncio
import warnings

from . import lib

RULE = ("(A) generated templates (single expression, several outputs, surrounding text and whitespace, if / for "
        "producing 0..n outputs, filters, macros, missing variables) x random Python values (ints, floats, bools, None, "
        "literal-looking and other strings, lists, dicts, tuples, sets, bytes, complex, objects whose str() is or is "
        "not a literal) x {sync env render, async env render, async env render_async, sync env render_async}; "
        "(B) node-list templates with every arrangement of up to 4 nodes from {text, literal-looking text, constant, "
        "string constant, variable}; plus a fixed list of texts that are not literals for non-syntactic reasons "
        "(unhashable key, deep nesting); (P) a single value passed through a construct that prints nothing else (call block, "
        "nested macros, set, with, loop, recursive loop, if, include, extends / super / self.block, autoescape, scoped block); every render that returned a mutable literal value is followed by an "
        "in-place change of that value and two more renders (same template; another template producing the same text) "
        "that must give a fresh, equal value. distinct = (template, values, entry point); non-trivial = more than one "
        "output node, or a single non-literal object.")


class Foo:
    def __init__(self, v):
        self.v = v

    def __str__(self):
        return f"Foo({self.v})"


class SubStr(str):
    """a str subclass (a string for native_concat)"""


class LitStr:
    """an object that is not a string but whose str() is a literal"""
    def __init__(self, s):
        self.s = s

    def __str__(self):
        return self.s


def py_eval_or_text(text):
    """the oracle's reading of 'the Python literal value of the text when it parses as a literal
    expression, and the text otherwise' (leading blanks are not stripped, as the engine documents)"""
    try:
        with warnings.catch_warnings():
            warnings.simplefilter("ignore")
            return ast.literal_eval(ast.parse(text, mode="eval"))
    except BaseException as e:  # noqa
        if isinstance(e, (KeyboardInterrupt, SystemExit)):
            raise
        return text


def same(a, b):
    if type(a) is str and isinstance(b, str):
        # "the text otherwise": a single string node that is not a literal comes back as it is, which may be an
        # instance of a str subclass (Markup, user subclass) carrying the same characters
        return str.__eq__(a, b) is True
    if type(a) is not type(b):
        return False
    if type(a) is int:
        return a == b
    try:
        return repr(a) == repr(b)
    except Exception:  # noqa
        return a is b


def mutate(v, depth=0):
    """the caller owns what render returned: change it in place (and the first mutable value nested in it)"""
    done = False
    if isinstance(v, list):
        for x in v:
            if depth < 3 and mutate(x, depth + 1):
                break
        v.append(987654)
        done = True
    elif isinstance(v, dict):
        for x in list(v.values()):
            if depth < 3 and mutate(x, depth + 1):
                break
        v["__mutated__"] = 1
        done = True
    elif isinstance(v, set):
        v.add(987654)
        done = True
    elif isinstance(v, tuple):
        for x in v:
            if depth < 3 and mutate(x, depth + 1):
                done = True
                break
    return done


def enc_pieces(pieces):
    ids, out, objs = {}, [], {}
    for p in pieces:
        if isinstance(p, str):
            out.append("s" + ".".join(str(ord(c)) for c in p))
        else:
            k = id(p)
            if k not in ids:
                ids[k] = len(ids) + 1
                objs[ids[k]] = p
            try:
                text = str(p)
            except Exception:  # noqa  (a lone StrictUndefined is never printed by native_concat)
                text = "<unprintable>"
            out.append(f"o{ids[k]}:" + ".".join(str(ord(c)) for c in text))
    return out, objs


def interpret(res, objs):
    """model / spec answer -> ('val', python value) | ('obj', object) | ('rterr',)"""
    if res == "none":
        return ("val", None)
    if res == "rterr":
        return ("rterr",)
    kind, _, rest = res.partition(" ")
    if kind == "obj":
        return ("obj", objs[int(rest)])
    text = "".join(chr(int(x)) for x in rest.split(".")) if rest else ""
    return ("val", py_eval_or_text(text))


def valid_entry_py(is_async, entry):
    return entry == "R" or bool(is_async)


def agrees(expected, got):
    if expected[0] == "rterr":
        return got[0] == "exc" and got[1] == "RuntimeError"
    if got[0] != "ok":
        return False
    if expected[0] == "obj":
        # the very object, or (objects the template creates per render: undefined, list / dict /
        # tuple displays) an equal one of the same type; default reprs carry the address, so a
        # different user object never passes
        return got[1] is expected[1] or same(expected[1], got[1])
    return same(expected[1], got[1])


def show(x):
    if x[0] in ("ok", "val", "obj"):
        return f"{type(x[1]).__name__}:{x[1]!r}"[:120]
    return ":".join(map(str, x))[:120]


def real_call(fn):
    try:
        with warnings.catch_warnings():
            warnings.simplefilter("ignore")
            return ("ok", fn())
    except Exception as e:  # noqa
        return ("exc", type(e).__name__, str(e)[:80])


VALUES = [
    lambda r: r.randint(-5, 120), lambda r: r.choice([0.5, -1.0, 1e300, float("inf")]), lambda r: r.choice([True, False]),
    lambda r: None,
    lambda r: r.choice(["1", " 1", "1 ", "[1, 2]", "None", "True", "foo", "a b", "'q'", "", "{", "(1,)", "1,", "0x1f", "1e3",
                        "{[1]: 2}", "{1: [", "-", "--1", "b'x'", "...", "1_0", "é", "\n1", "\t1", "# c",
                        # every spelling literal_eval accepts: string prefixes in both cases, leading comment / blank /
                        # continuation lines, signs, complex, sets, Ellipsis, nesting
                        "r'a'", "u'a'", "R\"x\"", "U'x'", "B'x'", "rb'x'", "Rb'x'", "bR'x'", "# c\n1", "\\\n1", "#\n[1]", "+1", "-1", ".5",
                        "-.5e3", "1+2j", "-1-2j", "{1, 2}", "{1: {2: (3,)}}", "\n\n(1,)", "'a' 'b'", "\"\"\"x\"\"\"", "0o17",
                        "0b11", "1_000", "None ", "True\n", "~1", "1if 1else 2", "f'a'", "rf'a'", "br'x'"]),
    lambda r: [r.randint(0, 9) for _ in range(r.randint(0, 3))],
    lambda r: {r.choice("abc"): r.randint(0, 9) for _ in range(r.randint(0, 2))},
    lambda r: (r.randint(0, 9), "x"), lambda r: {1, 2}, lambda r: b"by", lambda r: 2j,
    lambda r: Foo(r.randint(0, 9)), lambda r: LitStr(r.choice(["42", "[1]", "x y", "{[1]: 2}", ""])),
    lambda r: __import__("markupsafe").Markup(r.choice(["1", "<b>", "[1, 2]", ""])), lambda r: SubStr(r.choice(["42", "x", "(1,)"])),
    lambda r: r.choice([1, 1.0, True, 0, 0.0, False]), lambda r: range(r.randint(0, 3)), lambda r: frozenset([1]),
]
TEMPLATES_A = [
    "{{ x }}", "{{ x }}{{ y }}", " {{ x }}", "{{ x }} ", "[{{ x }}, {{ y }}]", "{{ x }}: {{ y }}}", "{{ '{' }}{{ x }}: 1}",
    "{% if c %}{{ x }}{% endif %}", "{% if c %}{{ x }}{% else %}{{ y }}{{ z }}{% endif %}",
    "{% for i in xs %}{{ i }}{% endfor %}", "[{% for i in xs %}{{ i }},{% endfor %}]", "{% for i in xs %}{{ x }}{% endfor %}",
    "{{ x|default(y) }}", "{{ nope }}", "{{ nope }}{{ x }}", "{{ x if c else y }}", "{{ [x, y] }}", "{{ {'k': x} }}",
    "{% macro m(a) %}{{ a }}{% endmacro %}{{ m(x) }}", "{% set q = x %}{{ q }}", "{{ x }}{# c #}", "{{- x -}}",
    "{% raw %}{{ x }}{% endraw %}", "", "  ", "{{ x }}{{ '' }}", "{{ '' }}{{ x }}", "{{ '' }}", "{{ '' ~ '' }}{{ x }}{{ '' }}",
    "{% extends 'p' %}{% block b %}{{ super() }}{% endblock %}", "{% extends 'p' %}{% block b %}{{ super() }}{{ y }}{% endblock %}",
    "{% if false %}{% block c %}{{ x }}{% endblock %}{% endif %}{{ self.c() }}", "{% extends 'p2' %}{% block b %}{{ x }}{% endblock %}",
    "{% macro m() %}{{ x }}{% endmacro %}{{ m() }}", "{% include 'inc' %}", "{% import 'lib' as l %}{{ l.v }}", "{{ x ~ y }}", "{{ x }}\n", "-{{ x }}", "{{ (x, y) }}", "{{ x.v }}",
]
FIXED_TEXTS = ["r'a'", "U'x'", "rb'x'", "Rb'x'", "# c\n1", "\\\n1", "{1, 2}", "...", "-1", "+1", ".5", "1+2j", "{[1]: 2}", "{ {} }", "{ {1: 2}: 3 }", "{[]}", "-" * 3000 + "1", "not " * 2000 + "1", "1" + "+1j" * 2500,
               "[" * 60 + "]" * 60, "1\x00", "9" * 4400, "'" + "a" * 10, "1 if 1 else 2", "f'{1}'", "__import__('os')"]
import collections
import enum


class Color(enum.IntEnum):
    RED = 1


Pt = collections.namedtuple("Pt", "x y")


class SubList(list):
    pass


class SubDict(dict):
    pass


# constant-only expressions whose value is NOT a plain literal value: instances of subclasses of int / tuple / list /
# dict / str produced by a filter on a literal, containers holding Markup, integers beyond the int-str limit.
# (template expression, the Python value it denotes)
XFILTERS = {"as_enum": lambda v: Color(v), "as_nt": lambda v: Pt(*v), "as_od": lambda v: collections.OrderedDict(v),
            "as_sublist": lambda v: SubList(v), "as_subdict": lambda v: SubDict(v), "as_frozen": lambda v: frozenset(v)}


def xnodes():
    from markupsafe import Markup
    return {"enum": ("1|as_enum", Color(1)), "nt": ("[1, 2]|as_nt", Pt(1, 2)), "od": ("{'a': 1}|as_od", collections.OrderedDict({"a": 1})),
            "sublist": ("[1, 2]|as_sublist", SubList([1, 2])), "subdict": ("{'a': 1}|as_subdict", SubDict({"a": 1})),
            "frozen": ("[1]|as_frozen", frozenset([1])), "markuplist": ("['a'|safe]", [Markup("a")]),
            "markuptuple": ("('<b>'|safe, 1)", (Markup("<b>"), 1)), "sorted": ("[3, 1]|sort", [1, 3]),
            "bigint": ("10 ** 5000", 10 ** 5000), "inf": ("1e308 * 10", float("inf")), "range": ("range(3)", range(3))}


# a single value x passed through a construct that does not print anything else: the template has the one
# output node x (stream P: pieces predicted, [x]), so the value itself must come back (or the value of its text)
PASS_THROUGH = [
    "{% macro m() %}{{ caller() }}{% endmacro %}{% call m() %}{{ x }}{% endcall %}",
    "{% macro m(v) %}{{ caller(v) }}{% endmacro %}{% call(w) m(x) %}{{ w }}{% endcall %}",
    "{% macro m() %}{{ x }}{% endmacro %}{{ m() }}", "{% macro m(v) %}{{ v }}{% endmacro %}{{ m(x) }}",
    "{% macro m() %}{% macro n() %}{{ x }}{% endmacro %}{{ n() }}{% endmacro %}{{ m() }}",
    "{% set q = x %}{{ q }}", "{% with q = x %}{{ q }}{% endwith %}", "{% for i in [x] %}{{ i }}{% endfor %}",
    "{% if true %}{{ x }}{% endif %}", "{{ x if true else 0 }}", "{% include 'inc' %}", "{% extends 'p' %}",
    "{% extends 'p' %}{% block b %}{{ super() }}{% endblock %}", "{% if false %}{% block c %}{{ x }}{% endblock %}{% endif %}{{ self.c() }}",
    "{% autoescape false %}{{ x }}{% endautoescape %}", "{% block d scoped %}{{ x }}{% endblock %}",
    "{% for i in [1] recursive %}{{ x }}{% endfor %}",
]
NODES = ["T:abc", "T:1", "T:[", "T:]", "T:, ", "T: ", "C:1", "C:2.5", "C:[1, 2]", "C:none", "C:true", "S:a", "S:1", "S:", "V",
         "X:enum", "X:nt", "X:od", "X:sublist", "X:subdict", "X:frozen", "X:markuplist", "X:markuptuple", "X:sorted", "X:bigint",
         "X:inf", "X:range"]
LOADER = {"p": "{% block b %}{{ x }}{% endblock %}", "p2": "{{ self.b() }}{% if false %}{% block b %}{% endblock %}{% endif %}",
          "inc": "{{ x }}", "lib": "{% set v = 7 %}"}


def node_template(nodes, vals):
    """(source, predicted pieces before grouping) for a list of output nodes"""
    src, pieces, vi = "", [], 0
    for nd in nodes:
        k, _, body = nd.partition(":")
        if k == "T":
            src += body
            pieces.append(body)
        elif k == "C":
            src += "{{ " + body + " }}"
            pieces.append(str({"none": None, "true": True}.get(body, None) if body in ("none", "true") else ast.literal_eval(body)))
        elif k == "S":
            src += "{{ '" + body + "' }}"
            pieces.append(body)
        elif k == "X":
            expr, value = xnodes()[body]
            src += "{{ " + expr + " }}"
            pieces.append(value)
        else:
            src += "{{ v%d }}" % vi
            pieces.append(vals[vi])
            vi += 1
    return src, pieces


def run(ctx):
    jinja2 = lib.use_repo_jinja()
    from jinja2.nativetypes import NativeEnvironment
    ctx.extra["rule"] = RULE
    ctx.assumptions += [
        "literal_eval (ast.literal_eval over ast.parse(text, mode='eval')) and str() are Section variables of the theorems; the tie instantiates them with CPython's",
        "a template yields the same output nodes from the sync generator and the async generator of its root render function (C09's subject; observed per case here)",
        "for constants with a safe repr, evaluating str(c) as a literal gives back c, or c is a string (law behind emitting constants as text)",
    ]
    ctx.proof("C34")
    # T5: native_concat's current source = the model function (generator and list arguments), and the exact
    # statement shapes of the NativeCodeGenerator hooks and of render / render_async
    import os
    import sys
    sys.path.insert(0, os.path.join(lib.ROOT, "gen"))
    import native_translate
    try:
        vtext = native_translate.emit(lib.SRC)
        ok, out = ctx.coq_obligation("Gen_native", vtext, n_obligations=3)
        if ok:
            ctx.trusted.append("Gen_native (native_concat source = model; member shapes): " + " ".join(out.split()))
    except native_translate.Untranslatable as e:
        ctx.broken.append(f"translator gen/native_translate.py: nativetypes left the translatable vocabulary: {e}")
    from jinja2.nativetypes import NativeTemplate
    from jinja2.sandbox import SandboxedEnvironment

    class SandboxedNativeEnvironment(SandboxedEnvironment, NativeEnvironment):
        """the combination docs/nativetypes.rst describes"""

    def mk(cls, is_async, **kw):
        env = cls(enable_async=is_async, loader=jinja2.DictLoader(LOADER), **kw)
        env.filters.update(XFILTERS)
        return env

    axis_envs = {
        "plain": {a: mk(NativeEnvironment, a) for a in (False, True)},
        "autoescape": {a: mk(NativeEnvironment, a, autoescape=True) for a in (False, True)},
        "sandboxed": {a: mk(SandboxedNativeEnvironment, a) for a in (False, True)},
        "unoptimized": {a: mk(NativeEnvironment, a, optimized=False) for a in (False, True)},
        "overlay": {a: mk(NativeEnvironment, a).overlay(trim_blocks=False) for a in (False, True)},
        # a missing variable is a StrictUndefined object: alone it is returned as it is (any use of it raises);
        # next to other output its str() raises during the render
        "strict": {a: mk(NativeEnvironment, a, undefined=jinja2.StrictUndefined) for a in (False, True)},
    }
    envs = axis_envs["plain"]
    AXES = ["plain", "plain", "autoescape", "sandboxed", "unoptimized", "overlay", "constructor", "strict"]

    cases = []   # (label, source, vars, predicted pieces or None)
    for _ in range(ctx.size(1500, 20000)):
        src = ctx.rng.choice(TEMPLATES_A)
        r = ctx.rng
        vars_ = {"x": r.choice(VALUES)(r), "y": r.choice(VALUES)(r), "z": r.choice(VALUES)(r), "c": r.random() < 0.6,
                 "xs": [r.choice(VALUES)(r) for _ in range(r.randint(0, 3))]}
        cases.append(("A", src, vars_, None))
    for txt in FIXED_TEXTS:
        cases.append(("A-fixed", "{{ x }}", {"x": txt}, None))
        cases.append(("A-fixed", txt.replace("{", "{{ '{' }}") if "{" in txt else txt, {}, None))
        cases.append(("A-fixed", "{{ x }}{{ y }}", {"x": txt[:1], "y": txt[1:]}, None))
    for _ in range(ctx.size(20, 200)):
        for src in PASS_THROUGH:
            v = ctx.rng.choice(VALUES)(ctx.rng)
            cases.append(("P", src, {"x": v}, [v]))
    import itertools
    maxn = ctx.size(3, 4)
    for n in range(0, maxn + 1):
        combos = list(itertools.product(NODES, repeat=n))
        if len(combos) > ctx.size(1500, 12000):
            combos = ctx.rng.sample(combos, ctx.size(1500, 12000))
        for nodes in combos:
            vals = [ctx.rng.choice(VALUES)(ctx.rng) for _ in nodes]
            src, pieces = node_template(nodes, vals)
            cases.append(("B", src, {f"v{i}": v for i, v in enumerate(vals)}, pieces))

    # ---- observe pieces, build model lines
    jobs = []
    axis_of = {}
    for label, src, vars_, predicted in cases:
        axis = ctx.rng.choice(AXES)
        if axis == "constructor" and (("'" in src and any(n in src for n in LOADER)) or "|as_" in src):
            axis = "plain"
        ctx.count("axis_" + axis)
        try:
            if axis == "constructor":          # Template-style construction on a spontaneous native environment
                ts, ta = NativeTemplate(src), NativeTemplate(src, enable_async=True)
            else:
                ts = axis_envs[axis][False].from_string(src)
                ta = axis_envs[axis][True].from_string(src)
        except Exception as e:  # noqa
            # every generated template is valid: a failure to compile is judged, not skipped
            ctx.count("template_rejected")
            if ctx.dist["template_rejected"] <= 3:       # one input class: do not crowd out other findings
                ctx.reject({"stream": label, "template": src, "axis": axis}, f"the template does not compile: {type(e).__name__}: {str(e)[:80]}",
                           "native: a valid template does not compile: " + type(e).__name__)
            continue
        if predicted is None:
            try:
                pieces = list(ts.root_render_func(ts.new_context(dict(vars_))))

                async def collect(t=ta, v=vars_):
                    return [n async for n in t.root_render_func(t.new_context(dict(v)))]
                apieces = asyncio.run(collect())
                if len(pieces) > 1:
                    for p_ in pieces:          # joining calls str() on every node: a node that cannot be printed
                        str(p_)                # (StrictUndefined) makes the render raise, not return
            except Exception as e:  # noqa
                ctx.count("render_raises")
                continue
            # the async root render function must yield the same output nodes as the sync one (the statement
            # covers async-enabled environments with the same documented value)
            if enc_pieces(pieces)[0] != enc_pieces(apieces)[0]:
                ctx.reject({"stream": label, "template": src, "vars": repr(vars_)[:300]},
                           f"output nodes differ: sync {[type(p).__name__ for p in pieces]} {enc_pieces(pieces)[0][:6]}, "
                           f"async {[type(p).__name__ for p in apieces]} {enc_pieces(apieces)[0][:6]}",
                           "native: async-enabled environment yields other output nodes than the sync one")
        else:
            pieces = apieces = predicted
            if len(pieces) > 1:
                try:
                    for p_ in pieces:
                        str(p_)
                except Exception:  # noqa  (an integer beyond CPython's int-str limit cannot be joined: a raising render)
                    ctx.count("render_raises")
                    continue
        axis_of[len(jobs)] = axis
        jobs.append((label, src, vars_, ts, ta, pieces, apieces))
    lines, meta = [], []
    for j, (label, src, vars_, ts, ta, pieces, apieces) in enumerate(jobs):
        for is_async, entry, ps in ((0, "R", pieces), (1, "R", apieces), (1, "A", apieces), (0, "A", pieces)):
            enc, objs = enc_pieces(ps)
            lines.append(f"{is_async} {entry} " + " ".join(enc))
            meta.append((j, is_async, entry, objs))
    out = ctx.driver("native", lines)
    for (j, is_async, entry, objs), ln in zip(meta, out):
        label, src, vars_, ts, ta, pieces, apieces = jobs[j]
        m, rest = ln[2:].split(" S ", 1)
        s, g = rest.split(" G ", 1)
        t = ta if is_async else ts
        if entry == "R":
            got = real_call(lambda: t.render(**vars_))
        else:
            got = real_call(lambda: asyncio.run(t.render_async(**vars_)))
        em, es, eg = interpret(m, objs), interpret(s, objs), interpret(g, objs)
        case = {"stream": label, "template": src, "vars": repr(vars_)[:300], "is_async": bool(is_async),
                "entry": "render" if entry == "R" else "render_async"}
        ps = apieces if is_async else pieces
        nontriv = len(ps) > 1 or (len(ps) == 1 and not isinstance(ps[0], str))
        ctx.case(sample=dict(case, result=show(got)) if nontriv and len(ctx.samples) < 6 else None,
                 key=(src, case["vars"], is_async, entry) if nontriv else None)
        ctx.count(f"{label}_{'async' if is_async else 'sync'}_{case['entry']}")
        if not ps and valid_entry_py(is_async, entry) and got == ("ok", None):
            # no output node at all: statement and docstring read literally promise the (empty) text, the code
            # returns None (declared return type).  Re-observed on every run as a known finding.
            ctx.reject(dict(case, note="no output nodes"), "a template without output returns None, the text otherwise would be ''",
                       "native: a template without output returns None instead of the empty text")
        if not agrees(es, got):
            kind = got[1] if got[0] == "exc" else "wrong value"
            sig = f"native {case['entry']} ({'async' if is_async else 'sync'} env): {kind}"
            if label == "P":
                sig = f"native: a single value through construct #{PASS_THROUGH.index(src)} does not come back"
                # constructs whose result the shared runtime wraps in Markup under autoescaping: macros and call
                # blocks (0-4), super() / self.block() (12, 13), recursive loops (16); the Markup text is then a
                # string node and may be read back as a literal
                if axis_of[j] == "autoescape" and PASS_THROUGH.index(src) in (0, 1, 2, 3, 4, 12, 13, 16):
                    sig = "native autoescape: a value passed through a macro, call block or recursive loop comes back as Markup text"
            ctx.model_mismatch("K native_render", dict(case, axis=axis_of[j]), show(em), show(got),
                               f"documented result {show(es)}, engine gives {show(got)}", sig)
        elif not agrees(em, got) or not agrees(eg, got):
            ctx.model_mismatch("K native_render", case, show(em), show(got), None)
        else:
            ctx.validated()
            # ---- repeatability: the value of a literal text belongs to the caller; after it was changed in
            #      place a second render (of this template, and of another template with the same text) must
            #      again give the value of the text, as a different object
            if m.startswith("eval") and got[0] == "ok" and mutate(got[1]):
                ctx.count("rerender_after_mutation")
                text = "".join(chr(int(x)) for x in m.partition(" ")[2].split(".")) if m.partition(" ")[2] else ""
                again = real_call((lambda: t.render(**vars_)) if entry == "R" else (lambda: asyncio.run(t.render_async(**vars_))))
                other = real_call(lambda: ts.environment.from_string("{{ the_text }}").render(the_text=text))
                for label2, r2 in (("same template rendered again", again), ("another template with the same text", other)):
                    ctx.case(key=("again", src, case["vars"], is_async, entry, label2))
                    fresh = interpret(s, objs)
                    if not agrees(fresh, r2) or (r2[0] == "ok" and r2[1] is got[1]):
                        ctx.reject(dict(case, step=label2, text=text),
                                   f"after the caller changed the returned {type(got[1]).__name__} in place, {label2} gives "
                                   f"{show(r2)}, the text denotes {show(fresh)}"
                                   + (" (the very same object)" if r2[0] == "ok" and r2[1] is got[1] else ""),
                                   "native render is not repeatable after the caller mutates a returned literal value")
                    else:
                        ctx.validated()


def replay(ctx, data):
    import random
    print("replay: C34 cases carry Python objects by repr only; re-running the whole check with the recorded seed and tier")
    ctx.seed = data.get("seed", ctx.seed)
    ctx.rng = random.Random(ctx.seed)
    if data.get("tier") in ("quick", "thorough"):
        ctx.tier = data["tier"]
    return run(ctx)
