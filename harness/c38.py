"""C38 — exceptions from data propagate unchanged and leave the engine usable.

proof:  Properties/C38.v (foreign_exception_propagates for every stack depth, whole-render form
        over a handler table, engine_reusable over the Frames heap model)
T2   :  gen/exn_handlers.py re-reads every try/except of the render path from $VERIF_REPO and
        emits build/C38/Gen_handlers.v; obligations: table_ok signals handlers = true, the
        documented conversions are still present, handle_exception re-raises the same object.
K    :  fault injection on the real engine.  Data objects count their call / iteration /
        attribute / item / str / len events; the k-th event raises.  At that moment the harness
        reads the *dynamic* stack of enclosing try bodies off the Python frames (using the T2
        line ranges, also for the generated template code) and the extracted model
        (Exn.propagate) predicts same-object / other / swallowed; compared with what the
        engine really did, for foreign and for signal classes.
O    :  for the two foreign classes (derived directly from Exception and from BaseException)
        the raised object must be the injected one; afterwards a clean re-render of the same
        template and of a canary template must give the clean outputs.
"""
import asyncio
import os
import sys
import warnings

from . import lib

sys.path.insert(0, os.path.join(lib.ROOT, "gen"))
import exn_handlers as T2  # noqa: E402

RULE = ("templates are random compositions of event-rich snippets (lookups, calls, loops with loop.* queries, filters "
        "with attribute arguments, tests, macros / call blocks, include / import / extends) over probe objects; every "
        "template is rendered clean to count its N data events, then once per k in 1..N and per exception class with "
        "the k-th event raising, in one of 17 configurations (Environment / Sandboxed / ImmutableSandboxed / Native / StrictUndefined x sync / async x entry "
        "point, async also with coroutine callables and async iterables); a case = (template, configuration, k, "
        "class); distinct non-trivial = the injection fired inside at least two try bodies of the regenerated table / "
        "generated code (i.e. one besides the entry point's), keyed by (template, configuration, k, class)")


# --------------------------------------------------------------------------- exception classes
class PrivE(Exception):
    pass


class PrivB(BaseException):
    pass


class PAttr(AttributeError):
    pass


class PKeyE(KeyError):
    pass


class PIndex(IndexError):
    pass


class PType(TypeError):
    pass


class PValue(ValueError):
    pass


class PStop(StopIteration):
    pass


class PLookup2(PKeyE):      # two levels below KeyError
    pass


class PRuntime(RuntimeError):
    pass


class PArith(ZeroDivisionError):
    pass


FOREIGN = [(PrivE, "u1.Exception"), (PrivB, "u2.BaseException"), (PRuntime, "u9.RuntimeError"),
           (PArith, "u10.ZeroDivisionError")]
SIGNALS = [(PAttr, "u3.AttributeError"), (PKeyE, "u4.KeyError"), (PIndex, "u5.IndexError"), (PType, "u6.TypeError"),
           (PValue, "u7.ValueError"), (PStop, "u8.StopIteration"), (PLookup2, "u11.u4.KeyError")]


NEWSTYLE = [False]      # the i18n extension's gettext style, alternating between template sets


PROTOCOL = {("next", PStop), ("anext", PStop), ("item", PIndex), ("len", PType), ("iter", PType)}


# --------------------------------------------------------------------------- probes
class World:
    """event counter of one render; raises the prepared exception at the target-th event"""

    def __init__(self, target=None, exc=None, capture=None):
        self.n = 0
        self.target = target
        self.exc = exc
        self.fired = None
        self.capture = capture

    def ev(self, kind):
        self.n += 1
        if self.n == self.target:
            self.fired = (kind, self.capture(sys._getframe(1)) if self.capture else None)
            raise self.exc


class PRec:
    """attributes, items, str"""

    def __init__(self, w, attrs=None, items=None, text="R"):
        self._w = w
        self._attrs = attrs or {}
        self._items = items or {}
        self._text = text

    def __getattr__(self, name):
        if name.startswith("_"):
            raise AttributeError(name)
        self._w.ev("attr")
        try:
            return self._attrs[name]
        except KeyError:
            raise AttributeError(name) from None

    def __getitem__(self, key):
        self._w.ev("item")
        try:
            return self._items[key]
        except (KeyError, TypeError):
            raise (IndexError(key) if isinstance(key, int) else KeyError(key)) from None

    def __str__(self):
        self._w.ev("str")
        return self._text


class PIter:
    def __init__(self, w, seq):
        self._w = w
        self._it = iter(seq)

    def __iter__(self):
        return self

    def __next__(self):
        self._w.ev("next")
        return next(self._it)


class PObj(PRec):
    """everything: attributes, items, str, call, iteration, len"""

    def __init__(self, w, attrs=None, items=None, text="O", ret="ret", seq=()):
        super().__init__(w, attrs, items, text)
        self._ret = ret
        self._seq = list(seq)

    def __call__(self, *a, **k):
        self._w.ev("call")
        return self._ret

    def __iter__(self):
        self._w.ev("iter")
        return PIter(self._w, self._seq)

    def __len__(self):
        self._w.ev("len")
        return len(self._seq)


class PFun:
    def __init__(self, w, ret="fr"):
        self._w = w
        self._ret = ret

    def __call__(self, *a, **k):
        self._w.ev("call")
        return self._ret


class PAFun:
    """a coroutine function as data"""

    def __init__(self, w, ret="fr"):
        self._w = w
        self._ret = ret

    async def __call__(self, *a, **k):
        self._w.ev("acall")
        return self._ret


class PSeq:
    """iterable with a length, no item access"""

    def __init__(self, w, seq):
        self._w = w
        self._seq = list(seq)

    def __iter__(self):
        self._w.ev("iter")
        return PIter(self._w, self._seq)

    def __len__(self):
        self._w.ev("len")
        return len(self._seq)


class PIterOnly:
    def __init__(self, w, seq):
        self._w = w
        self._seq = list(seq)

    def __iter__(self):
        self._w.ev("iter")
        return PIter(self._w, self._seq)


class PAIter:
    """an async iterable as data"""

    def __init__(self, w, seq):
        self._w = w
        self._seq = list(seq)

    def __aiter__(self):
        self._w.ev("aiter")
        return PANext(self._w, self._seq)


class PANext:
    def __init__(self, w, seq):
        self._w = w
        self._it = iter(seq)

    def __aiter__(self):
        return self

    async def __anext__(self):
        self._w.ev("anext")
        try:
            return next(self._it)
        except StopIteration:
            raise StopAsyncIteration from None


class PStr:
    def __init__(self, w, text="t<s>"):
        self._w = w
        self._text = text

    def __str__(self):
        self._w.ev("str")
        return self._text


class PRich:
    """the other protocols data takes part in: truth, equality, hashing, ordering, containment, numeric conversion,
    __html__ / __format__ string conversions, old-style __getitem__-only iteration"""

    def __init__(self, w, n=3, text="<r>"):
        self._w = w
        self._n = n
        self._text = text

    def __bool__(self):
        self._w.ev("bool")
        return True

    def __eq__(self, other):
        self._w.ev("eq")
        return isinstance(other, PRich) and other._n == self._n or other == self._n

    def __hash__(self):
        self._w.ev("hash")
        return hash(self._n)

    def __lt__(self, other):
        self._w.ev("lt")
        return self._n < (other._n if isinstance(other, PRich) else other)

    def __contains__(self, item):
        self._w.ev("contains")
        return item == self._n

    def __int__(self):
        self._w.ev("int")
        return self._n

    def __float__(self):
        self._w.ev("float")
        return float(self._n)

    def __html__(self):
        self._w.ev("html")
        return "<i>" + self._text + "</i>"

    def __format__(self, spec):
        self._w.ev("format")
        return format(self._text, spec)

    def __str__(self):
        self._w.ev("str")
        return self._text


class Hostile:
    """a value that cannot be compared, hashed or tested for truth (numpy-array style / a broken __eq__): the engine has
    no business doing any of that to a local it only carries around"""

    def __eq__(self, other):
        raise RuntimeError("hostile __eq__")

    def __ne__(self, other):
        raise RuntimeError("hostile __ne__")

    def __bool__(self):
        raise RuntimeError("hostile __bool__")

    def __hash__(self):
        raise RuntimeError("hostile __hash__")

    def __str__(self):
        return "H"


class PGetItemSeq:
    """iterable only through the old __getitem__ protocol (IndexError ends it)"""

    def __init__(self, w, seq):
        self._w = w
        self._seq = list(seq)

    def __getitem__(self, i):
        self._w.ev("item")
        return self._seq[i]


class PKey(str):
    """a str subclass used as a subscript; its str() conversion is a data event"""
    _w = None

    def __str__(self):
        self._w.ev("str")
        return str.__str__(self)


def make_data(w, async_data):
    recs = [PRec(w, {"a": "x", "n": 2}, {"k": "xk"}, "r1"), PRec(w, {"a": "y", "n": 1}, {"k": "yk"}, "r2"),
            PRec(w, {"a": "", "n": 2}, {}, "r3")]
    k = PKey("zz")
    k._w = w
    d = {
        "o": PObj(w, {"a": "va", "n": 3, "b": PRec(w, {"c": "vc"}, {}, "ob"), "m": PFun(w, "mr")},
                  {"k": "ik", 0: "i0"}, "O", "oret", [1, 2]),
        "r": PRec(w, {"a": "ra", "n": 1}, {"k": "rk"}, "R"),
        "f": PAFun(w, "fr") if async_data else PFun(w, "fr"),
        "xs": PAIter(w, recs) if async_data else PSeq(w, recs),
        "it": PAIter(w, [3, 1, 2]) if async_data else PIterOnly(w, [3, 1, 2]),
        "s": PStr(w, "t<s>"),
        "k": k,
        "hostile": Hostile(), "q": PRich(w, 3), "q2": PRich(w, 1, "<r2>"), "gi": PGetItemSeq(w, [5, 6]),
    }
    g = PRec(w, {"a": "ga"}, {}, "G")
    return d, g


# --------------------------------------------------------------------------- templates
SNIPS = [
    "{{ o.a }}", "{{ o.b.c }}", "{{ o['k'] }}", "{{ o[0] }}", "{{ o.missing }}", "{{ o['missing'] }}",
    "{{ r.a ~ r['k'] }}", "{{ r.zz|default('D') }}", "{{ r['a'] }}", "{{ r.k }}", "{{ o[5] is undefined }}",
    "{{ f() }}", "{{ f(1, x=2) }}", "{{ o.m(2) }}", "{{ o(1) }}",
    "{{ s }}", "{{ s|string|upper }}", "{{ s ~ '!' }}", "{{ '%s'|format(s) }}", "{{ s|escape }}", "{{ s|e|length }}",
    "{{ r }}", "{{ [r, s]|join('+') }}", "{{ s|int(7) }}", "{{ s|trim }}", "{{ s|replace('t', 'T') }}",
    "{{ xs|join(',', attribute='a') }}", "{{ xs|length }}", "{{ xs|map(attribute='a')|join('/') }}",
    "{{ xs|selectattr('a')|list|length }}", "{{ xs|rejectattr('a')|list|length }}", "{{ xs|sum(attribute='n') }}",
    "{{ xs|sort(attribute='n')|map(attribute='a')|join }}", "{{ xs|groupby('n')|length }}",
    "{{ xs|unique(attribute='n')|list|length }}", "{{ xs|max(attribute='n') is defined }}", "{{ (xs|first).a }}",
    "{{ (xs|last).a }}", "{{ xs|batch(2)|list|length }}", "{{ xs|list|length }}", "{{ xs|map('string')|join }}",
    "{{ xs|map(attribute='zz', default='d')|join }}", "{{ xs|selectattr('n', 'eq', 2)|map(attribute='a')|join }}",
    "{{ it|sum }}", "{{ it|sort|join }}", "{{ it|reverse|join }}", "{{ it|first }}", "{{ it|list|last }}", "{{ it|min }}",
    "{{ it|join('-') }}", "{{ it|select('odd')|list }}", "{{ it|map('string')|list|length }}",
    "{{ it|slice(2)|list|length }}", "{{ it|reject('odd')|join }}", "{{ it|random is defined }}",
    "{{ o is sequence }}", "{{ r is sequence }}", "{{ xs is iterable }}", "{{ r is iterable }}", "{{ f is callable }}",
    "{{ r is mapping }}", "{{ o|attr('a') }}", "{{ r|attr('zz') is undefined }}", "{{ o[k] is undefined }}", "{{ r[k] }}",
    "{{ o|length }}", "{{ 1 in o }}", "{{ o.n + 1 }}", "{{ r.n|int }}", "{{ o|list }}", "{{ o|first }}", "{{ o|reverse|list }}",
    "{{ g.a }}", "{{ o|default('d') }}", "{{ o.b|string }}",
    # a value with hostile __eq__ / __bool__ / __hash__ held in the locals of the frame that fails
    "{{ hostile is defined }}{{ f() }}{{ o.a }}", "{% with hv = hostile %}{{ r.a }}{{ f() }}{% endwith %}",
    # truth, equality, hashing, ordering, containment, numeric and markup / format conversions, __getitem__-only iteration
    "{% if q %}T{% endif %}{{ q and 1 }}{{ not q }}", "{{ q == 3 }}{{ q != q2 }}{{ q in [q2, q] }}", "{{ 3 in q }}{{ 4 in q }}",
    "{{ [q, q2]|sort|length }}{{ [q2, q]|max is defined }}", "{{ [q, q2, q]|unique|list|length }}", "{{ {q: 1}|length }}{{ [q, q2]|groupby('zz')|length }}",
    "{{ q|int }}{{ q|float }}{{ q|int(9) + 1 }}", "{{ q }}{{ q|escape }}{{ q|e|length }}", "{{ '%s'|format(q) }}{{ '{}'.format(q) }}{{ q|string }}",
    "{{ q ~ q2 }}{{ [q, q2]|join('-') }}{{ q|upper }}", "{% for x in gi %}{{ x }}{% endfor %}{{ gi|list }}{{ gi[0] }}{{ gi|first }}",
    "{{ q|default('d') }}{{ q is sameas q }}{{ q is none }}{{ q|tojson is defined if false else '' }}",
    # extensions: do, loop controls, i18n (string conversion inside the translation's % formatting)
    "{% do f() %}{% do o.m(1) %}", "{% for x in xs %}{% if loop.index == 2 %}{% break %}{% endif %}{{ x.a }}{% endfor %}",
    "{% for x in it if x %}{% if x == 1 %}{% continue %}{% endif %}{{ x }}{{ f() }}{% endfor %}",
    "{% trans v=s %}v={{ v }}{% endtrans %}{% trans n=o.n %}{{ n }} one{% pluralize %}{{ n }} many{% endtrans %}", "{{ _(s|string) }}{{ gettext('x') ~ s }}",
    # the loop object printed / measured while the iterable has no len(): the rest is consumed inside __repr__ / __len__
    "{% for x in it %}{{ loop }}{{ x }}{% endfor %}", "{% for x in it if x %}{{ loop|length }}{{ loop }}{% endfor %}",
    "{% for x in xs %}{{ loop }}{{ loop.length }}{% endfor %}", "{% for x in o %}{{ loop|string|length }}{% endfor %}",
    # loops whose iterable expression is itself a data event (attribute / item / call), with and without a loop filter,
    # extended and recursive
    "{% for x in o.b.c if x %}{{ x }}{% endfor %}", "{% for x in f() if x != 'z' %}{{ x }}{{ loop.index }}{% endfor %}",
    "{% for x in o['k'] %}{{ x }}{% else %}E{% endfor %}", "{% for x in o.m(1) if x recursive %}{{ x }}{% endfor %}",
    "{% for x in (xs|list) if x.a %}{{ x.n }}{% endfor %}", "{% for x in r.a if f() %}{{ x }}{{ loop.last }}{% endfor %}",
    "{% for x in xs %}{{ x.a }}{{ loop.index }}{{ loop.length }}{% endfor %}",
    "{% for x in it %}{{ x }}{{ loop.last }}{% endfor %}",
    "{% for x in xs if x.a %}[{{ x.n }}]{% endfor %}",
    "{% for x in o %}{{ x }}{% else %}E{% endfor %}",
    "{% for x in it %}{{ loop.previtem }}{{ loop.nextitem }}{{ loop.changed(x) }}{% endfor %}",
    "{% for x in xs %}{{ loop.cycle('a', 'b') }}{{ loop.revindex }}{{ x['k'] }}{% endfor %}",
    "{% for x in xs recursive %}{{ x.a if loop.depth == 1 else x }}{% if loop.first and loop.depth == 1 %}{{ loop(it) }}{% endif %}{% endfor %}",
    "{% if o.a %}A{% endif %}", "{% if o %}T{% else %}F{% endif %}", "{% if f() == 'fr' %}Y{% endif %}",
    "{% set v = f() %}{{ v }}", "{% set v %}{{ o.a }}{% endset %}{{ v }}", "{% with v = o.b %}{{ v.c }}{% endwith %}",
    "{% set ns = namespace(c=0) %}{% for x in xs %}{% set ns.c = ns.c + x.n %}{% endfor %}{{ ns.c }}",
    "{% macro m(p, q=o.a) %}{{ p }}{{ q }}{{ caller() if caller else '' }}{% endmacro %}{{ m(r.a) }}"
    "{% call m(f()) %}{{ s }}{% endcall %}",
    "{% filter upper %}{{ o.a }}{{ s }}{% endfilter %}",
    "{% include 'inc.html' %}", "{% include ['nope.html', 'inc.html'] ignore missing %}",
    "{% import 'lib.html' as L %}{{ L.lm(r) }}{{ L.v }}", "{% from 'lib.html' import lm with context %}{{ lm(o) }}",
    "{% import 'lib.html' as L2 with context %}{{ L2.lm(r) }}",
]
AUX = {
    "inc.html": "{{ o.a }}{{ f() }}[{% for x in xs %}{{ x.a }}{% endfor %}]",
    "lib.html": "{% macro lm(p) %}{{ p.a }}{{ g.a }}{% endmacro %}{% set v = g.a %}",
    "base.html": "B{{ r.a }}{% block b %}{{ f() }}{% endblock %}{% block c %}{{ s }}{% endblock %}E",
    "canary.html": "{% import 'lib.html' as L %}{% macro q(z) %}<{{ z }}>{% endmacro %}{{ q(r.a) }}{{ L.lm(r) }}{{ L.v }}"
                   "{% for x in xs %}{{ loop.index }}{{ x.a }}{% endfor %}{% include 'inc.html' %}{{ s|upper }}{{ g.a }}",
}
WRAPS = [
    "%s", "%s", "%s",
    "{%% if r.a %%}%s{%% endif %%}",
    "{%% for z in it %%}%s{%% endfor %%}",
    "{%% macro w() %%}%s{%% endmacro %%}{{ w() }}",
    "{%% filter lower %%}%s{%% endfilter %%}",
    "{%% set blk %%}%s{%% endset %%}{{ blk }}",
    "{%% with o = o %%}%s{%% endwith %%}",
]

# regression inputs run first on every check (the first is the input of the defect repaired by /repo 6652bea)
FIXED = [
    "{{ r[k] }}|{{ o[k] is undefined }}|{{ o is sequence }}",
    "{% import 'lib.html' as L %}{{ L.lm(r) }}{{ L.v }}|{{ f() }}|{% for x in xs if x.a %}[{{ x.n }}]{% endfor %}",
    # every kind of call on data objects that also answer attribute lookups (the sandbox probes them before calling)
    "{{ hostile }}{% set hh = hostile %}{{ f() }}{{ o.a }}{% for x in xs %}{{ hostile is defined }}{{ x.a }}{% endfor %}{% macro hm(p) %}{{ f() }}{{ p }}{% endmacro %}{{ hm(hostile) }}",
    "{% trans v=s, w=q %}v={{ v }} w={{ w }}{% endtrans %}|{{ gettext('a %(x)s', x=s) if false else _('p') }}|{% trans n=o.n %}{{ n }} one{% pluralize %}{{ n }} many{% endtrans %}",
    "{% trans v=s %}v={{ v }}{% endtrans %}|{{ ngettext('%(num)d a', '%(num)d b', 2) }}|{% trans %}plain {{ s }}{% endtrans %}",
    "{{ o(1) }}|{{ o.m(2) }}|{{ f() }}|{% for x in o.b.c if x %}{{ x }}{% endfor %}|{% for x in it %}{{ loop }}{% endfor %}",
]

CONFIGS = [
    # (name, sandboxed, async env, async data, entry point)
    ("env-sync-render", False, False, False, "render"),
    ("env-sync-generate", False, False, False, "generate"),
    ("env-sync-module", False, False, False, "module"),
    ("sbx-sync-render", True, False, False, "render"),
    ("env-async-render", False, True, False, "render"),
    ("env-async-render_async", False, True, False, "render_async"),
    ("env-async-generate_async-adata", False, True, True, "generate_async"),
    ("sbx-async-render_async-adata", True, True, True, "render_async"),
    ("env-async-generate", False, True, False, "generate"),
    ("sbx-sync-generate", True, False, False, "generate"),
    ("imm-sync-render", "immutable", False, False, "render"),
    ("native-sync-render", "native", False, False, "render"),
    ("native-async-render_async", "native", True, False, "render_async"),
    ("sbx-async-generate_async", True, True, False, "generate_async"),
    ("imm-async-render_async-adata", "immutable", True, True, "render_async"),
    ("env-sync-stream", False, False, False, "stream"),
    ("env-sync-strict-render", "strict", False, False, "render"),
]


def gen_template(rng):
    if rng.random() < 0.2:
        body = "".join(rng.choice(SNIPS) for _ in range(rng.randint(1, 2)))
        return "{% extends 'base.html' %}{% block b %}" + body + ("{{ super() }}" if rng.random() < 0.5 else "") + "{% endblock %}"
    parts = []
    for _ in range(rng.randint(2, 4)):
        parts.append(rng.choice(WRAPS) % rng.choice(SNIPS))
    return "|".join(parts)


# --------------------------------------------------------------------------- engine driving
class Engine:
    def __init__(self, jinja2, sandboxed, is_async, templates):
        from jinja2.nativetypes import NativeEnvironment
        from jinja2.sandbox import ImmutableSandboxedEnvironment, SandboxedEnvironment
        cls = {True: SandboxedEnvironment, False: jinja2.Environment, "immutable": ImmutableSandboxedEnvironment,
               "native": NativeEnvironment, "strict": jinja2.Environment}[sandboxed]
        kw = {"undefined": jinja2.StrictUndefined} if sandboxed == "strict" else {}
        self.env = cls(loader=jinja2.FunctionLoader(lambda n: (templates[n], n, lambda: True) if n in templates else None),
                       enable_async=is_async, autoescape=(sandboxed != "native"),
                       extensions=["jinja2.ext.do", "jinja2.ext.loopcontrols", "jinja2.ext.i18n"], **kw)
        self.env.install_null_translations(newstyle=NEWSTYLE[0])
        self.is_async = is_async
        self.templates = templates
        self.gen_src = {}

    def generated_tries(self, name):
        """try records + implicit handlers of the generated code of template `name`"""
        if name not in self.gen_src:
            src = self.env.compile(self.templates[name], name, name, raw=True)
            self.gen_src[name] = (T2.scan_source(src, "template"), implicit_sites(src))
        return self.gen_src[name]


def implicit_sites(src):
    """lines on which a CPython builtin swallows a signal on behalf of the caller:
    hasattr(...), getattr(a, b, default) -> AttributeError; next(it, default) -> StopIteration"""
    import ast
    out = {}
    for n in ast.walk(ast.parse(src)):
        if isinstance(n, ast.Call) and isinstance(n.func, ast.Name):
            cls = None
            if n.func.id == "hasattr" or (n.func.id == "getattr" and len(n.args) == 3):
                cls = "AttributeError"
            elif n.func.id == "next" and len(n.args) == 2:
                cls = "StopIteration"
            if cls:
                for ln in range(n.lineno, (n.end_lineno or n.lineno) + 1):
                    out.setdefault(ln, set()).add(cls)
    return out


class StackReader:
    """dynamic stack of enclosing try bodies, read off the frames at the moment of the fault"""

    def __init__(self, recs, src_dir):
        self.src_dir = os.path.realpath(src_dir)
        self.by_mod = {}
        for r in recs:
            self.by_mod.setdefault(r["module"], []).append(r)
        self.implicit = {}
        for m in T2.MODULES:
            self.implicit[m] = implicit_sites(open(os.path.join(self.src_dir, m + ".py")).read())
        self.engine = None

    def capture(self, frame):
        stack = []      # list of (label, [clauses]) innermost first; clause = (classes, kind, text)
        f = frame
        while f is not None:
            code = f.f_code
            fn = os.path.realpath(code.co_filename) if os.path.isabs(code.co_filename) else code.co_filename
            recs, impl, label = None, None, None
            if fn.startswith(self.src_dir + os.sep):
                mod = os.path.basename(fn)[:-3]
                recs = self.by_mod.get(mod, [])
                impl = self.implicit.get(mod, {})
                qual = mod + "." + code.co_qualname.replace("<locals>.", "")
                recs = [r for r in recs if r["fn"] == qual]
                label = qual
            elif self.engine is not None and fn in self.engine.templates:
                recs, impl = self.engine.generated_tries(fn)
                label = "template:" + code.co_name
            if recs is not None:
                ln = f.f_lineno
                if impl and ln in impl:
                    stack.append((label + " <builtin>", [(sorted(impl[ln]), "V", "builtin")]))
                enclosing = [r for r in recs if r["body_lo"] <= ln <= r["body_hi"]]
                enclosing.sort(key=lambda r: -r["body_lo"])
                for r in enclosing:
                    stack.append((label, [(h["classes"], h["kind"], h["text"]) for h in r["handlers"]]))
            # PEP 479: StopIteration cannot leave a generator / coroutine frame
            fl = code.co_flags
            if fl & 0x200:
                stack.append(("<asyncgen frame>", [(["StopIteration", "StopAsyncIteration"], "O:RuntimeError", "PEP479")]))
            elif fl & (0x20 | 0x80 | 0x100):
                stack.append(("<generator frame>", [(["StopIteration"], "O:RuntimeError", "PEP479")]))
            f = f.f_back
        return stack


def stack_line(cls_code, stack):
    tries = []
    for _label, clauses in stack:
        tries.append(" / ".join(",".join(cs) + ">" + k for cs, k, _t in clauses) or "-")
    return cls_code + " | " + " ; ".join(tries)


def first_decider(exc_cls, stack):
    """(label, text, kind) of the first clause that ends the travel of the injected object (python mirror, used
    only to name the place in signatures)"""
    import builtins
    import jinja2.exceptions as je
    for label, clauses in stack:
        for cs, k, text in clauses:
            real = []
            for c in cs:
                real.append(getattr(builtins, c, None) or getattr(je, c, None) or getattr(asyncio, c, type(None)))
            if issubclass(exc_cls, tuple(real)):
                if k == "R":
                    break
                return label, text, k
    return None


def render_once(engine, name, cfg, world, async_data, loop):
    """-> ('ok', output) | ('exc', exception object)"""
    data, g = make_data(world, async_data)
    engine.env.globals["g"] = g
    entry = cfg[4]
    try:
        t = engine.env.get_template(name)
        with warnings.catch_warnings():
            warnings.simplefilter("ignore")
            if entry == "render":
                out = str(t.render(**data))
            elif entry == "generate":
                out = "".join(map(str, t.generate(**data)))
            elif entry == "module":
                out = str(t.make_module(data))
            elif entry == "stream":
                st = t.stream(**data)
                st.enable_buffering(3)
                out = "".join(st)
            elif entry == "render_async":
                out = str(loop.run_until_complete(t.render_async(**data)))
            elif entry == "generate_async":
                async def collect():
                    return "".join([str(x) async for x in t.generate_async(**data)])
                out = loop.run_until_complete(collect())
            else:
                raise AssertionError(entry)
        return "ok", out
    except BaseException as e:  # noqa: the point of the exercise
        if isinstance(e, (KeyboardInterrupt, SystemExit)):
            raise
        return "exc", e


def run(ctx):
    jinja2 = lib.use_repo_jinja()
    ctx.extra["rule"] = RULE
    ctx.assumptions += [
        "CPython's try/except semantics: first matching clause of the innermost enclosing try decides (modelled by Exn.propagate)",
        "PEP 479 (StopIteration leaving a generator / coroutine frame becomes RuntimeError) and hasattr / 3-argument "
        "getattr / 2-argument next are added to the dynamic stack as builtin clauses",
        "engine_reusable rests on the write-footprint obligation regenerated under C29; here it is probed by clean re-renders",
        "nativetypes.py, loaders.py and bccache.py handlers are outside this table (C34, C28, C27)",
    ]
    ctx.proof("C38")

    # ---------------- T2: regenerated handler table + obligations
    src_dir = os.path.join(lib.SRC, "jinja2")
    table_broken = False
    try:
        recs, skipped = T2.scan_repo(lib.SRC)
        he_env, he_dbg = T2.check_handle_exception(src_dir)
        ctx.extra["not_on_render_path"] = [f"{a}: {b}" for a, b in skipped]
        v = ("From Coq Require Import List NArith Bool String.\nImport ListNotations.\nFrom JV Require Import Model.Exn.\n"
             + T2.coq_table(recs)
             + f"Definition he_env := {'true' if he_env else 'false'}.\nDefinition he_dbg := {'true' if he_dbg else 'false'}.\n"
             + OBLIGATIONS)
        ok, out = ctx.coq_obligation("Gen_handlers", v, n_obligations=4)
        table_broken = not ok
        ctx.extra["handler_rows"] = len(recs)
    except T2.TranslatorError as e:
        ctx.obligations += 4
        ctx.broken.append("T2 translator: " + str(e))
        table_broken = True
        # fall back to an empty table: the dynamic stacks then contain builtin clauses only and the fault injection
        # below still searches for a failing input
        recs = []
    # ---------------- T5: the current source of Context.call and of the entry points' except blocks, as terms of
    # Lib/PyAsyExn, equals the model functions for every input
    import exn_translate
    try:
        ok5, out5 = ctx.coq_obligation("Gen_exncall", exn_translate.emit_b(lib.SRC), n_obligations=3)
        if ok5:
            ctx.trusted.append("Gen_exncall (source = model equations): " + " ".join(out5.split()))
    except exn_translate.Untranslatable as e:
        ctx.obligations += 3
        ctx.broken.append(f"translator gen/exn_translate.py: source left the translatable vocabulary: {e}")
        table_broken = True
    krt_context_call(ctx, jinja2)
    bad_rows = failing_rows(recs)
    ctx.extra["rows_failing_obligation"] = [f"{r['fn']}:{r['lineno']} except {h['text']} -> {h['kind']}" for r, h in bad_rows]

    # ---------------- K / O: fault injection
    reader = StackReader(recs, src_dir)
    loop = asyncio.new_event_loop()
    n_templates = ctx.size(70, 800)
    pending = []          # (case, cls_code, stack, real, fired_kind, exc_cls)
    try:
        for ti in range(n_templates):
            src = gen_template(ctx.rng) if ti >= len(FIXED) else FIXED[ti]
            NEWSTYLE[0] = (ti % 2 == 1)
            templates = dict(AUX)
            templates["main.html"] = src
            cfgs = ctx.rng.sample(CONFIGS, 2)
            if ti < len(FIXED):
                cfgs = list(CONFIGS)            # the regression inputs run in every configuration
            elif ti < len(CONFIGS):
                cfgs = [CONFIGS[ti], CONFIGS[(ti + 9) % len(CONFIGS)]]
            for cfg in cfgs:
                inject_all(ctx, jinja2, reader, loop, templates, cfg, pending, table_broken)
    finally:
        loop.close()

    # model predictions for all recorded faults in one driver call
    lines = [stack_line(p[1], p[2]) for p in pending]
    preds = ctx.driver("exn", lines) if lines else []
    for (case, cls_code, stack, real, kind, exc_cls), pred in zip(pending, preds):
        p, foreign = pred.split(" foreign=")
        is_foreign = foreign == "1"
        model_same = p == "same"
        real_same = real == "same"
        dec = first_decider(exc_cls, stack) if is_foreign and not real_same else None
        if dec and dec[0] in EXEMPT and not model_same:
            # documented catch-all (the capability test `is sequence` reports false on any error): agreed with the model
            ctx.count("documented_catch_all")
            ctx.validated()
            continue
        if is_foreign and not real_same:
            where = f"{dec[0]} except {dec[1]} [{dec[2]}]" if dec else "unexplained"
            sig = f"foreign exception lost: {where} on {kind} event"
            ctx.reject(dict(case, real=real, model=p), "a foreign exception raised by data did not come out of the render "
                       f"as the same object ({real}); decided at {where}", sig)
            continue
        if (kind == "attr" and exc_cls in (PType, PKeyE, PIndex, PLookup2, PValue) and not real_same and stack
                and stack[0][0] == "environment.Environment.getattr"):
            # documented: Environment.getattr falls back to the item lookup only on AttributeError; TypeError / LookupError are
            # absorbed for the ITEM lookup.  A property whose own code raises KeyError / TypeError must not render as undefined.
            ctx.reject(dict(case, real=real, model=p), "a " + exc_cls.__mro__[1].__name__ + " raised by the attribute access itself was absorbed by "
                       "Environment.getattr (only AttributeError selects the item fallback)", "non-AttributeError from getattr absorbed by Environment.getattr")
            continue
        if exc_cls is PStop and kind not in ("call", "acall", "next", "anext") and not real_same and real.startswith("other:RuntimeError"):
            # the property lists StopIteration as a signal only "from a callable"; from an attribute / item / str event it
            # should come out unchanged, but it cannot leave the generator the template is compiled to (PEP 479)
            ctx.reject(dict(case, real=real, model=p), "StopIteration raised by a data " + kind + " event surfaces as RuntimeError "
                       "('generator raised StopIteration'), not as the raised object", "StopIteration from a non-call data event (PEP 479)")
        if (kind, exc_cls) in PROTOCOL and model_same and not real_same:
            # the class is the CPython protocol's own signal for this kind of event (StopIteration ends an iteration,
            # IndexError ends the old sequence-iteration protocol used by reversed() / iter(), TypeError from __len__
            # is ignored by list()'s length hint): the C-level consumer, which leaves no frame, may absorb it
            ctx.count("protocol_signal_absorbed_by_builtin")
            continue
        if model_same != real_same:
            ctx.model_mismatch("K propagate vs engine", dict(case, real=real, model=p, stack=[s[0] for s in stack]), p, real, None)
        else:
            ctx.validated()
    if ctx.mismatches:
        ctx.extra["mismatch_samples"] = [m[1] for m in ctx.mismatches[:8]]


def krt_context_call(ctx, jinja2):
    """K-rt for Context.call: the argument injection and the StopIteration conversion of the model function
    B.ctx_call_m (Lib/PyAsyExn.v), observed on the real method for every marker / __call__ / kwargs combination"""
    from jinja2.runtime import Context, Undefined
    from jinja2.nodes import EvalContext
    from jinja2.utils import pass_context, pass_environment, pass_eval_context
    env = jinja2.Environment()
    decos = {"none": lambda f: f, "context": pass_context, "eval_context": pass_eval_context, "environment": pass_environment}
    want = {"none": None, "context": Context, "eval_context": EvalContext, "environment": jinja2.Environment}
    for dname, deco in decos.items():
        for via_call in (False, True):
            for loopv in (None, {}, {"lv": 1}):
                for blockv in (None, {"bv": 2}):
                    for raises in (None, StopIteration, PStop, PrivE):
                        seen = {}

                        def body(*a, **k):
                            seen["args"], seen["kw"] = a, k
                            if raises is not None:
                                seen["exc"] = raises("x")
                                raise seen["exc"]
                            return "R"

                        if via_call:
                            class Obj:
                                __call__ = deco(lambda self, *a, **k: body(*a, **k))
                            target = Obj()
                        else:
                            target = deco(lambda *a, **k: body(*a, **k))
                        c = env.from_string("").new_context({"top": 0})
                        kw = {"x": 1}
                        if loopv is not None:
                            kw["_loop_vars"] = loopv
                        if blockv is not None:
                            kw["_block_vars"] = blockv
                        case = {"krt": "Context.call", "marker": dname, "via_call": via_call, "loop_vars": repr(loopv),
                                "block_vars": repr(blockv), "raises": getattr(raises, "__name__", None)}
                        ctx.case(key=("ctxcall", dname, via_call, repr(loopv), repr(blockv), case["raises"]))
                        try:
                            out = c.call(target, 7, **kw)
                            res = "undefined" if isinstance(out, Undefined) else out
                        except BaseException as e:  # noqa
                            res = "same" if e is seen.get("exc") else "other:" + type(e).__name__
                        problems = []
                        exp = "R" if raises is None else ("undefined" if issubclass(raises, StopIteration) else "same")
                        if res != exp:
                            problems.append(f"result {res!r}, expected {exp!r}")
                        args = list(seen.get("args", ()))
                        if via_call and dname != "none" and args:
                            pass      # bound method: self is not in *a
                        lead = args[:-1]
                        if want[dname] is None:
                            if lead:
                                problems.append("an engine object was injected for an unmarked callable")
                        elif len(lead) != 1 or not isinstance(lead[0], want[dname]):
                            problems.append(f"first argument is {type(lead[0]).__name__ if lead else None}, expected {want[dname].__name__}")
                        elif dname == "context":
                            for dct in (loopv, blockv):
                                for key in (dct or {}):
                                    if key not in lead[0].get_all():
                                        problems.append(f"derived context lacks {key}")
                        if args[-1:] != [7] or seen.get("kw") != {"x": 1}:
                            problems.append(f"data arguments changed: {args[-1:]} {seen.get('kw')}")
                        if problems:
                            ctx.reject(case, "Context.call: " + "; ".join(problems), f"Context.call {dname} injection / conversion")
                        else:
                            ctx.validated()


OBLIGATIONS = r'''
Definition has (fn : string) (c : bcls) (k : kind) : bool :=
  existsb (fun r => String.eqb (r_fn r) fn &&
                    existsb (fun h => existsb (cls_eqb (B c)) (h_catch h) &&
                                      match h_kind h, k with
                                      | Reraise, Reraise | ReturnValue, ReturnValue | ToUndefined, ToUndefined
                                      | Pass, Pass => true
                                      | RaiseOther _, RaiseOther _ => true
                                      | _, _ => false end) (r_try r)) handlers.
(* 1: every except clause on the render path names signal classes only, or re-raises what it caught *)
Lemma handlers_ok : table_ok signals handlers = true.
Proof. vm_compute. reflexivity. Qed.
(* 2: the four entry points re-raise through handle_exception, which re-raises the same object *)
Lemma entry_points_reraise :
  has "environment.Template.render" E_Exception Reraise && has "environment.Template.render_async" E_Exception Reraise &&
  has "environment.Template.generate" E_Exception Reraise && has "environment.Template.generate_async" E_Exception Reraise &&
  he_env && he_dbg = true.
Proof. vm_compute. reflexivity. Qed.
(* 3: the documented conversions are still there *)
Lemma documented_conversions :
  has "runtime.Context.call" E_StopIteration ToUndefined &&
  has "environment.Environment.getattr" E_AttributeError Pass && has "environment.Environment.getattr" E_LookupError ToUndefined &&
  has "environment.Environment.getattr" E_TypeError ToUndefined &&
  has "environment.Environment.getitem" E_LookupError ToUndefined && has "environment.Environment.getitem" E_TypeError ToUndefined &&
  has "environment.Environment.getitem" E_AttributeError ToUndefined &&
  has "tests.test_sequence" E_Exception ReturnValue && has "tests.test_iterable" E_TypeError ReturnValue &&
  has "filters.do_attr" E_AttributeError ToUndefined = true.
Proof. vm_compute. reflexivity. Qed.
(* 4: the exempt rows exist (an exemption for a function that is gone would be dead text) *)
Lemma exemptions_live : forallb (fun f => existsb (fun r => String.eqb (r_fn r) f) handlers) exempt_fns = true.
Proof. vm_compute. reflexivity. Qed.
'''

SIGNAL_NAMES = {"AttributeError", "LookupError", "KeyError", "IndexError", "TypeError", "StopIteration", "StopAsyncIteration",
                "ValueError", "UnicodeError", "OverflowError", "TemplateError", "TemplateNotFound", "TemplatesNotFound",
                "TemplateSyntaxError", "TemplateAssertionError", "TemplateRuntimeError", "UndefinedError", "SecurityError",
                "FilterArgumentError"}
EXEMPT = {"tests.test_sequence", "environment.Environment._filter_test_common", "debug.fake_traceback",
          "sandbox.SandboxedEnvironment.call"}


def failing_rows(recs):
    """python mirror of table_ok, only to report *which* rows fail (the verdict is Coq's)"""
    out = []
    for r in recs:
        if r["fn"] in EXEMPT:
            continue
        for h in r["handlers"]:
            if h["kind"] != "R" and not set(h["classes"]) <= SIGNAL_NAMES:
                out.append((r, h))
    return out


def inject_all(ctx, jinja2, reader, loop, templates, cfg, pending, thorough_classes):
    name, sandboxed, is_async, async_data, entry = cfg
    engine = Engine(jinja2, sandboxed, is_async, templates)
    reader.engine = engine
    # templates that import: Template._module is filled by the first render, so the module-level events only exist
    # in a render on a fresh environment - every faulted render of such a template starts from a fresh environment
    fresh = "import" in templates["main.html"]
    w0 = World()
    kind, clean = render_once(engine, "main.html", cfg, w0, async_data, loop)
    n_events = w0.n
    wc = World()
    ckind, canary_clean = render_once(engine, "canary.html", cfg, wc, async_data, loop)
    ctx.count("clean_" + kind)
    if kind != "ok":
        # a template that fails without any injected fault (e.g. |length of an async iterable): the events before the
        # failure are still injected into, the reference outcome is the clean failure's class
        clean = "EXC:" + type(clean).__name__
    if ckind != "ok":
        canary_clean = "EXC:" + type(canary_clean).__name__
    for k in range(1, n_events + 1):
        classes = list(FOREIGN[:2])
        classes.append(ctx.rng.choice(FOREIGN[2:]))
        if thorough_classes or ctx.tier == "thorough":
            classes += SIGNALS
        else:
            classes += ctx.rng.sample(SIGNALS, 2)
        for exc_cls, cls_code in classes:
            exc = exc_cls("injected")
            w = World(k, exc, reader.capture)
            if fresh:
                engine = Engine(jinja2, sandboxed, is_async, templates)
                reader.engine = engine
            rk, rv = render_once(engine, "main.html", cfg, w, async_data, loop)
            if w.fired is None:
                ctx.case()
                ctx.count("not_fired")
                continue
            ekind, stack = w.fired
            if rk == "exc" and rv is exc:
                real = "same"
            elif rk == "exc":
                real = "other:" + type(rv).__name__
            else:
                real = "completed"
            case = {"template": templates["main.html"], "config": name, "k": k, "class": cls_code, "event": ekind, "newstyle": NEWSTYLE[0]}
            in_try = sum(1 for lab, _ in stack if not lab.startswith("<")) >= 2
            ctx.case(sample=dict(case, outcome=real, stack=[s[0] for s in stack]) if in_try and ctx.evaluations % 97 == 0 else None,
                     key=(templates["main.html"], name, k, cls_code) if in_try else None)
            ctx.count("event_" + ekind)
            ctx.count("real_" + real.split(":")[0])
            pending.append((case, cls_code, stack, real, ekind, exc_cls))
            # ---- the engine stays usable after a render that raised (a swallowed signal is a successful render
            # with an undefined value in it: a module cache filled by it legitimately keeps that value)
            if rk != "exc" or rv is not exc:
                continue        # also when the render failed later on an undefined a swallowed signal left behind
            w2 = World()
            k2, again = render_once(engine, "main.html", cfg, w2, async_data, loop)
            again = again if k2 == "ok" else "EXC:" + type(again).__name__
            if again != clean:
                ctx.reject(dict(case, clean=clean, again=again), "a clean re-render after a failed render differs from the clean render",
                           f"reuse same-template after {ekind} fault in {stack[0][0] if stack else '?'}")
            if k % 3 == 0:
                w3 = World()
                k3, can = render_once(engine, "canary.html", cfg, w3, async_data, loop)
                can = can if k3 == "ok" else "EXC:" + type(can).__name__
                if can != canary_clean:
                    ctx.reject(dict(case, clean=canary_clean, again=can), "another template renders differently after a failed render",
                               f"reuse canary after {ekind} fault in {stack[0][0] if stack else '?'}")


def replay(ctx, data):
    jinja2 = lib.use_repo_jinja()
    case = data.get("case")
    if data.get("kind") != "failing-input" or case is None:
        print("replay: names a broken theorem / obligation / correspondence:", data.get("broken"))
        return run(ctx)
    if "krt" in case:
        krt_context_call(ctx, jinja2)
        return
    recs, _ = T2.scan_repo(lib.SRC)
    reader = StackReader(recs, os.path.join(lib.SRC, "jinja2"))
    cfg = [c for c in CONFIGS if c[0] == case["config"]][0]
    NEWSTYLE[0] = case.get("newstyle", False)
    templates = dict(AUX)
    templates["main.html"] = case["template"]
    engine = Engine(jinja2, cfg[1], cfg[2], templates)
    reader.engine = engine
    loop = asyncio.new_event_loop()
    exc_cls, cls_code = [c for c in FOREIGN + SIGNALS if c[1] == case["class"]][0]
    exc = exc_cls("injected")
    w = World(case["k"], exc, reader.capture)
    rk, rv = render_once(engine, "main.html", cfg, w, cfg[3], loop)
    real = "same" if (rk == "exc" and rv is exc) else ("other:" + type(rv).__name__ if rk == "exc" else "completed:" + repr(rv)[:60])
    print("event:", w.fired[0] if w.fired else None)
    print("stack:", [(s[0], [(c[2], c[1]) for c in s[1]]) for s in (w.fired[1] if w.fired else [])])
    print("engine:", real)
    if w.fired:
        pred = ctx.driver("exn", [stack_line(cls_code, w.fired[1])])[0]
        print("model :", pred)
        if pred.endswith("foreign=1") and real != "same":
            ctx.reject(case, "a foreign exception raised by data did not come out of the render as the same object")
    if "clean" in case:
        tname = "canary.html" if "canary" in (data.get("signature") or "") else "main.html"
        k2, again = render_once(engine, tname, cfg, World(), cfg[3], loop)
        again = again if k2 == "ok" else "EXC:" + type(again).__name__
        print("re-render:", again, "| clean:", case["clean"])
        if again != case["clean"]:
            ctx.reject(case, "a clean re-render after a failed render differs from the clean render")
    loop.close()
