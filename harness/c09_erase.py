"""C09 K-gen — erase the async decoration from the real generated Python (an `ast` transformer) and
normalise both modes' code for comparison.

erase:   async def -> def;  async for -> for;  await auto_await(x) -> x;  await x -> x;  auto_aiter(x) -> x;
         AsyncLoopContext -> LoopContext;  ._get_default_module_async -> ._get_default_module;
         .make_module_async -> .make_module;  .aclose() -> .close();
         `agen = X; try: for event in agen: yield event; finally: agen.close()`   -> `yield from X`
         (same for `gen = context.blocks[..][0](..)` when the loop only re-yields: the unbuffered block call)
         `for event in X._body_stream: yield event`                              -> `yield from X._body_stream`
         `t = t_N(...); try: for ... in <uses t>: BODY; finally: t.close()`        -> `for ... in <t := t_N(...)>: BODY`
                                                   (the loop-filter generator is only closed explicitly in async mode)
normalise: drop the runtime import line, rename t_<n> temporaries in order of first use, ast.dump.
"""
import ast
import re

RENAME_ATTR = {"_get_default_module_async": "_get_default_module", "make_module_async": "make_module", "aclose": "close"}


class Eraser(ast.NodeTransformer):
    def visit_AsyncFunctionDef(self, node):
        self.generic_visit(node)
        new = ast.FunctionDef(name=node.name, args=node.args, body=node.body, decorator_list=node.decorator_list,
                              returns=node.returns, type_comment=None)
        new.type_params = []
        return ast.copy_location(new, node)

    def visit_AsyncFor(self, node):
        self.generic_visit(node)
        return ast.copy_location(ast.For(target=node.target, iter=node.iter, body=node.body, orelse=node.orelse, type_comment=None), node)

    def visit_Await(self, node):
        self.generic_visit(node)
        v = node.value
        if isinstance(v, ast.Call) and isinstance(v.func, ast.Name) and v.func.id == "auto_await" and len(v.args) == 1:
            return v.args[0]
        return v

    def visit_Call(self, node):
        self.generic_visit(node)
        if isinstance(node.func, ast.Name) and node.func.id == "auto_aiter" and len(node.args) == 1:
            return node.args[0]
        return node

    def visit_Name(self, node):
        if node.id == "AsyncLoopContext":
            return ast.copy_location(ast.Name(id="LoopContext", ctx=node.ctx), node)
        return node

    def visit_Attribute(self, node):
        self.generic_visit(node)
        if node.attr in RENAME_ATTR:
            node.attr = RENAME_ATTR[node.attr]
        return node


def _is_close_of(stmt, name):
    return (isinstance(stmt, ast.Expr) and isinstance(stmt.value, ast.Call) and isinstance(stmt.value.func, ast.Attribute)
            and stmt.value.func.attr == "close" and isinstance(stmt.value.func.value, ast.Name) and stmt.value.func.value.id == name)


class _Subst(ast.NodeTransformer):
    def __init__(self, name, expr):
        self.name, self.expr = name, expr

    def visit_Name(self, node):
        if node.id == self.name and isinstance(node.ctx, ast.Load):
            return self.expr
        return node


def _is_reyield(loop):
    return (isinstance(loop, ast.For) and isinstance(loop.target, ast.Name) and loop.target.id == "event" and len(loop.body) == 1
            and isinstance(loop.body[0], ast.Expr) and isinstance(loop.body[0].value, ast.Yield)
            and isinstance(loop.body[0].value.value, ast.Name) and loop.body[0].value.value.id == "event" and not loop.orelse)


def _rewrite_block(stmts):
    out = []
    i = 0
    while i < len(stmts):
        s = stmts[i]
        nxt = stmts[i + 1] if i + 1 < len(stmts) else None
        if (isinstance(s, ast.Assign) and len(s.targets) == 1 and isinstance(s.targets[0], ast.Name) and isinstance(nxt, ast.Try)
                and not nxt.handlers and not nxt.orelse and len(nxt.finalbody) == 1 and _is_close_of(nxt.finalbody[0], s.targets[0].id)
                and len(nxt.body) == 1 and isinstance(nxt.body[0], ast.For)):
            name = s.targets[0].id
            loop = nxt.body[0]
            is_block_call = (name == "gen" and isinstance(s.value, ast.Call) and ast.unparse(s.value.func).startswith("context.blocks["))
            if (name == "agen" or is_block_call) and _is_reyield(loop):
                out.append(ast.Expr(value=ast.YieldFrom(value=s.value)))
                i += 2
                continue
            if re.fullmatch(r"t_\d+", name) and isinstance(s.value, ast.Call) and isinstance(s.value.func, ast.Name) \
                    and re.fullmatch(r"t_\d+", s.value.func.id):
                loop.iter = _Subst(name, s.value).visit(loop.iter)
                out.append(loop)
                i += 2
                continue
        if _is_reyield(s) and isinstance(s.iter, ast.Attribute) and s.iter.attr == "_body_stream":
            out.append(ast.Expr(value=ast.YieldFrom(value=s.iter)))
            i += 1
            continue
        out.append(s)
        i += 1
    return out


class Patterns(ast.NodeTransformer):
    def generic_visit(self, node):
        super().generic_visit(node)
        for fld in ("body", "orelse", "finalbody"):
            lst = getattr(node, fld, None)
            if isinstance(lst, list) and lst and isinstance(lst[0], ast.stmt):
                setattr(node, fld, _rewrite_block(lst))
        return node


def erase(src):
    tree = ast.parse(src)
    tree = Eraser().visit(tree)
    tree = Patterns().visit(tree)
    ast.fix_missing_locations(tree)
    return tree


def normalise(tree):
    """-> canonical text of a module: no import line, temporaries renamed by first use, no line numbers"""
    tree.body = [s for s in tree.body if not isinstance(s, ast.ImportFrom)]
    for st in tree.body:
        # debug_info maps template lines to code lines; the async code has more lines (try / finally): keep the
        # template lines only
        if isinstance(st, ast.Assign) and getattr(st.targets[0], "id", "") == "debug_info" and isinstance(st.value, ast.Constant):
            st.value = ast.Constant(value="&".join(p.split("=")[0] for p in str(st.value.value).split("&")))
    text = ast.unparse(tree)
    order = {}

    def ren(m):
        t = m.group(0)
        if t not in order:
            order[t] = f"T{len(order) + 1}"
        return order[t]

    text = re.sub(r"\bt_\d+\b", ren, text)
    return ast.dump(ast.parse(text))


def folds_async_filter(env, src, variants):
    """True when the template applies an @async_variant filter to constants: sync mode folds it at compile time,
    async mode cannot (Filter.as_const raises Impossible for async variants) - a constant-folding difference (C08),
    not an async-decoration difference"""
    from jinja2 import nodes
    from jinja2.nodes import EvalContext
    try:
        tree = env.parse(src)
    except Exception:  # noqa
        return False
    for f in tree.find_all(nodes.Filter):
        if f.name in variants:
            try:
                f.as_const(EvalContext(env))
                return True
            except Exception:  # noqa
                pass
    return False


def parity(sync_src, async_src):
    """None when erasing the async code gives the sync code, else a short description of the first difference"""
    a = normalise(erase(async_src))
    s = normalise(ast.parse(sync_src))
    if a == s:
        return None
    skip = ("from jinja2.runtime import", "debug_info =")
    ta = [x for x in ast.unparse(ast.parse(ast.unparse(erase(async_src)))).split("\n") if not x.startswith(skip)]
    ts = [x for x in ast.unparse(ast.parse(sync_src)).split("\n") if not x.startswith(skip)]
    for i, (x, y) in enumerate(zip(ta, ts)):
        if re.sub(r"\bt_\d+\b", "T", x) != re.sub(r"\bt_\d+\b", "T", y):
            return f"line {i}: erased async `{x.strip()[:100]}` vs sync `{y.strip()[:100]}`"
    return f"lengths differ: {len(ta)} vs {len(ts)} lines"
