"""C11 — plain text, comments and raw blocks render verbatim.

proof : Properties/C11.v (plain_verbatim, newline_pipeline, normalize_idempotent, comment_silent,
        raw_verbatim — all strings, all configurations)
tie   : K-lex  extracted tokeniter == real Lexer.tokeniter on all strings up to a length bound over
        {a, space, {, %, #, }, \\r, \\n} x keep_trailing_newline (+ random long Unicode texts), and
        model render_data == Template.render on plain / comment / raw sources
oracle: Template.render == spec_plain (one pass, written from the docs, cross-checked against the
        extracted Coq spec) for sources without a start sequence in all 3 x 2 newline_sequence /
        keep_trailing_newline combinations; comments render nothing, raw bodies render verbatim.
"""
from . import lib
from . import lex_common as L

RULE = ("K-lex: every string up to length Lk over the 8-character alphabet {a,' ','{','%','#','}',CR,LF} x "
        "keep_trailing_newline in {0,1}, model token stream compared with the real one; O-plain: every such string up "
        "to length Lo without a start sequence x 3 newline sequences x 2 keep flags rendered and compared with "
        "spec_plain, plus random long texts with Unicode / control characters; O-comment/raw: random comment and raw "
        "bodies containing delimiter look-alikes between random plain texts.  distinct = (configuration, source); "
        "non-trivial = the source contains a line break or a delimiter character.")

ALPHA = ["a", " ", "{", "%", "#", "}", "\r", "\n"]
NLS = ["\n", "\r\n", "\r"]


def spec_plain(src, nl, keep):
    """One pass over the source, from the property text (independent of the lexer)."""
    out = []
    i, n = 0, len(src)
    while i < n:
        c = src[i]
        if c == "\r" and i + 1 < n and src[i + 1] == "\n":
            j = i + 2
        elif c == "\r" or c == "\n":
            j = i + 1
        else:
            out.append(c)
            i += 1
            continue
        if not (j == n and not keep):
            out.append(nl)
        i = j
    return "".join(out)


def has_start(cfg, src):
    return any(d and d in src for d in (cfg.d[0], cfg.d[2], cfg.d[4], cfg.d[6], cfg.d[7]))


def real_render(jinja2, cfg, src):
    try:
        return "D " + L.env_for(jinja2, cfg).from_string(src).render()
    except jinja2.TemplateSyntaxError:
        return "ERR"
    except Exception as e:
        return "X:" + type(e).__name__


_used = {}


def used_overlay(jinja2, cfg):
    """an overlay (varying newline_sequence / keep_trailing_newline and the other options) of a base
    environment that has ALREADY been used: it has lexed and rendered before the overlay is taken"""
    base = _used.get("base")
    if base is None:
        base = _used["base"] = jinja2.Environment()
        base.from_string("used\n{# c #}{% raw %}x{% endraw %}\n").render()
        list(base.lex("a\r\nb"))
    ov = _used.get(cfg.key())
    if ov is None:
        ov = _used[cfg.key()] = base.overlay(**cfg.kwargs())
    return ov


def overlay_render(jinja2, cfg, src):
    try:
        return "D " + used_overlay(jinja2, cfg).from_string(src).render()
    except jinja2.TemplateSyntaxError:
        return "ERR"
    except Exception as e:
        return "X:" + type(e).__name__


def subset_overlay_render(ctx, jinja2, cfg, src):
    """overlay overriding a random non-empty subset of the option groups, from a used or unused parent"""
    names = list(L.OPTION_GROUPS)
    groups = [g for g in names if ctx.rng.random() < 0.4] or [ctx.rng.choice(names)]
    used = ctx.rng.random() < 0.7
    ck = ("subset", cfg.key(), tuple(groups), used)
    try:
        if ck not in _used:
            _used[ck] = L.overlay_subset_env(jinja2, cfg, ctx.rng, groups=groups, used=used)[0]
        ov = _used[ck]
    except Exception as e:
        return "X:" + type(e).__name__, "?"
    try:
        return "D " + ov.from_string(src).render(), "%s parent, overlay(%s)" % ("used" if used else "unused", "+".join(groups))
    except jinja2.TemplateSyntaxError:
        return "ERR", "%s parent, overlay(%s)" % ("used" if used else "unused", "+".join(groups))
    except Exception as e:
        return "X:" + type(e).__name__, "%s parent, overlay(%s)" % ("used" if used else "unused", "+".join(groups))


def check_plain(ctx, jinja2, cfg, src, model_p=None):
    """oracle on one plain source; returns failure text or None"""
    want = spec_plain(src, cfg.nl, cfg.keep)
    got, how = subset_overlay_render(ctx, jinja2, cfg, src)
    if got != "D " + want:
        return "%s renders %r != spec_plain %r" % (how, got, want)
    got = real_render(jinja2, cfg, src)
    if got != "D " + want:
        return "render %r != spec_plain %r" % (got, want)
    got = overlay_render(jinja2, cfg, src)
    if got != "D " + want:
        return "overlay of a used environment renders %r != spec_plain %r" % (got, want)
    return None


INVISIBLE = ["\ufeff", "\u200b", "\u2060", "\xad", "\ufffe", "\x00", "\u200e", "\u2028", "\x85"]


def invisible_texts():
    """every invisible / format character at the first, a middle and the last position of several texts"""
    out = []
    for ch in INVISIBLE:
        for base in ["", "a", "ab", "a\nb", "x\r\n", "\n", " a "]:
            for pos in sorted({0, len(base) // 2, len(base)}):
                out.append(base[:pos] + ch + base[pos:])
            out.append(ch + base + ch)
    return out


def rand_text(rng, n, unicode_=True):
    pool = ["a", "b", " ", "\t", "\n", "\r", "\r\n", "{", "}", "%", "#", "-", "+", "\x0b", "\x0c", "\x00", "\x1c"]
    if unicode_:
        pool += INVISIBLE + ["é", " ", " ", "\x85", " ", "中", "\U0001F600", "　"]
    return "".join(rng.choice(pool) for _ in range(n))


def run(ctx):
    jinja2 = lib.use_repo_jinja()
    ctx.extra["rule"] = RULE
    ctx.assumptions += [
        "start strings contain no CR/LF (hypothesis starts_nl_free of C11_plain_verbatim; probed: all tested configurations satisfy it)",
        "Py_UNICODE_ISSPACE table of the model == re \\s == str.isspace == str.rstrip (probed over all code points on every run)",
        "rendering a template without tags outputs the concatenation of its (newline-normalised) data tokens",
    ]
    ctx.proof("C11")

    bad = L.probe_whitespace_table()
    ctx.case(sample={"probe": "whitespace table over 0x110000 code points", "disagreements": len(bad)}, key="ws-table")
    if bad:
        ctx.model_mismatch("is_space table vs running interpreter", {"code_points": bad[:20]}, "table", "interpreter", None)
    else:
        ctx.validated()

    # ---------------- K-lex on the exhaustive stream
    Lk = ctx.size(5, 6)
    cfgs_k = [L.Cfg("default", keep=k) for k in (False, True)]
    cases = [(c, s) for c in cfgs_k for s in L.all_strings(ALPHA, Lk)]
    for _ in range(ctx.size(1500, 15000)):
        c = L.Cfg("default", keep=ctx.rng.random() < 0.5, nl=ctx.rng.choice(NLS))
        cases.append((c, rand_text(ctx.rng, ctx.rng.randint(5, 60))))
    runs = L.model_runs(ctx, cases)
    for (c, s), m in zip(cases, runs):
        r = L.real_run(jinja2, L.env_for(jinja2, c), s)
        nontriv = any(ch in s for ch in "\r\n{%#")
        ctx.case(sample={"cfg": c.describe(), "src": s, "model": m.end} if len(s) > 3 else None,
                 key=(c.key(), s) if nontriv else None)
        ctx.count("klex_ok" if r[0] == "OK" else "klex_error")
        if m.canon() != r:
            if L.outside_alphabet(m):
                ctx.count("klex_outside_ascii_tag_alphabet")
                continue
            of = None if has_start(c, s) else check_plain(ctx, jinja2, c, s)
            ctx.model_mismatch("K-lex tokeniter", {"cfg": c.describe(), "src": s}, repr(m.canon())[:300], repr(r)[:300], of,
                               signature="C11:plain:%r" % s if of else None)
        else:
            ctx.validated()

    # ---------------- O-plain: render == spec_plain, and model render_data / Coq spec agree
    Lo = ctx.size(4, 5)
    ocases = []
    for nl in NLS:
        for keep in (False, True):
            c = L.Cfg("default", nl=nl, keep=keep)
            for s in L.all_strings(ALPHA, Lo):
                if not has_start(c, s):
                    ocases.append((c, s))
    for s in invisible_texts():
        for nl in NLS:
            for keep in (False, True):
                c = L.Cfg(ctx.rng.choice(["default", "default", "angle", "line"]), nl=nl, keep=keep)
                if not has_start(c, s):
                    ocases.append((c, s))
    for name in ("angle", "dollar", "line"):
        for _ in range(ctx.size(300, 3000)):
            c = L.Cfg(name, nl=ctx.rng.choice(NLS), keep=ctx.rng.random() < 0.5)
            s = rand_text(ctx.rng, ctx.rng.randint(0, 8), unicode_=False)
            if not has_start(c, s):
                ocases.append((c, s))
    for _ in range(ctx.size(1500, 15000)):
        c = L.Cfg("default", nl=ctx.rng.choice(NLS), keep=ctx.rng.random() < 0.5)
        s = rand_text(ctx.rng, ctx.rng.randint(10, 200))
        if not has_start(c, s):
            ocases.append((c, s))
    plines = ctx.driver("lex", ["P %s %s" % (c.enc(), L.enc_str(s)) for c, s in ocases])
    rlines = ctx.driver("lex", ["R %s %s" % (c.enc(), L.enc_str(s)) for c, s in ocases])
    for (c, s), pl, rl in zip(ocases, plines, rlines):
        case = {"kind": "plain", "cfg": c.describe(), "src": s}
        nontriv = any(ch in s for ch in "\r\n")
        ctx.case(sample=case if nontriv and len(s) > 3 else None, key=("plain", c.key(), s) if nontriv else None)
        ctx.count("oplain")
        flag, _, coq_spec = pl.partition(" ")
        want = spec_plain(s, c.nl, c.keep)
        if flag != "1" or L.dec_str(coq_spec) != want:
            ctx.model_mismatch("python oracle spec_plain vs extracted Coq spec_plain", case, pl, want, None)
            continue
        w = check_plain(ctx, jinja2, c, s)
        if w:
            ctx.reject(case, w, "C11:plain:%r:%s" % (s, c.key()))
            continue
        # one more entry point / environment class per case (Template(...), sandboxed, async, autoescape,
        # unoptimized, extensions, loader, Markup / str-subclass source, generate, module)
        route = ctx.rng.choice(L.ROUTES)
        got = L.safe_route(jinja2, route, c, s)
        ctx.count("route_" + route)
        if got != "D " + want:
            ctx.reject(dict(case, route=route), "%s renders %r != spec_plain %r" % (route, got, want), "C11:route:%s:%r:%s" % (route, s, c.key()))
            continue
        if rl != "D " + L.enc_str(want):
            ctx.model_mismatch("K-render render_data vs Template.render", case, rl, want, None)
            continue
        ctx.validated()

    # ---------------- O-comment / O-raw
    ccases = []
    for _ in range(ctx.size(4000, 40000)):
        cc = gen_comment_raw(ctx.rng)
        if cc is not None:
            ccases.append(cc)
    rlines = ctx.driver("lex", ["R %s %s" % (c.enc(), L.enc_str(src)) for c, src, *_ in ccases])
    for (c, src, kind, pre, mid, post), rl in zip(ccases, rlines):
        case = {"kind": kind, "cfg": c.describe(), "src": src, "pre": pre, "mid": mid, "post": post}
        ctx.case(sample=case if len(src) > 12 else None, key=(kind, c.key(), src))
        ctx.count("o" + kind)
        w = check_comment_raw(jinja2, c, src, kind, pre, mid, post)
        if w:
            ctx.reject(case, w, "C11:%s:%r:%s" % (kind, src, c.key()))
            continue
        route = ctx.rng.choice(L.ROUTES)
        got = L.safe_route(jinja2, route, c, src)
        if got != "D " + expected_comment_raw(c, pre, mid, post):
            ctx.reject(dict(case, route=route), "%s: %s renders %r, expected %r" % (kind, route, got, expected_comment_raw(c, pre, mid, post)),
                       "C11:route:%s:%r:%s" % (route, src, c.key()))
            continue
        want = expected_comment_raw(c, pre, mid, post)
        if rl != "D " + L.enc_str(want):
            ctx.model_mismatch("K-render render_data vs Template.render (%s)" % kind, case, rl, want, None)
            continue
        ctx.validated()
    run_raw_whitespace(ctx, jinja2)
    run_autoescape_blocks(ctx, jinja2)
    run_loader_overlays(ctx, jinja2)
    # line comments directly after a tag that ends in '-' (+ blanks): re-observes the recorded finding
    lenv = jinja2.Environment(line_statement_prefix="#", line_comment_prefix="##")
    for src in ("{% if true -%}   ## c\nfoo{% endif %}", "{# a -#}   ## c\nfoo", "{{ 1 -}} \t## c\nfoo", "{% raw %}r{% endraw -%}  ## c"):
        try:
            got = "D " + lenv.from_string(src).render()
        except Exception as e:
            got = "X:" + type(e).__name__
        case = {"kind": "line-comment-after-minus", "src": src}
        ctx.case(sample=case, key=("lcminus", src))
        ctx.count("line_comment_after_minus_probe")
        if "## c" in got or not got.startswith("D "):
            ctx.reject(case, "the line comment is rendered as text: %r" % got, KNOWN_LC_MINUS)
        else:
            ctx.validated()
    # configuration axis "bytecode cache shared between environments": re-observes the recorded finding
    for src, kw2 in (("a\nb\n", dict(newline_sequence="\r\n", keep_trailing_newline=True)), ("x\r\ny\n", dict(newline_sequence="\r")),
                     ("p\n", dict(keep_trailing_newline=True))):
        got, want = L.probe_shared_bytecode_cache(jinja2, {}, kw2, src)
        case = {"kind": "shared-bytecode-cache", "src": src, "second_environment": kw2}
        ctx.case(sample=case, key=("bcc", src))
        ctx.count("shared_bytecode_cache_probe")
        if got != want:
            ctx.reject(case, "second environment on the shared bytecode cache renders %r, without the cache %r" % (got, want), KNOWN_BCC)
        else:
            ctx.validated()


def run_raw_whitespace(ctx, jinja2):
    """raw blocks whose body is whitespace only (and ordinary bodies), at the start of the source, after a
    text on the same line and after a line break, under all four trim_blocks / lstrip_blocks settings and
    3 x 2 newline_sequence / keep flags: the body is output verbatim apart from the effects of its own tags
    (extracted spec_trim of the one-raw-block skeleton, newline-substituted)"""
    from . import c12
    pres = ["", "a", "a\n", "  ", "a\n  ", "\n"]
    bodies = [" ", "   ", "\t", " \t ", "", "  \n  ", "\n", "b", " b "]
    posts = ["", "c", "\nc", "  ", "\n"]
    cases = []
    for pre in pres:
        for body in bodies:
            for post in posts:
                for mods in ("nnnn", "nmnn", "nnmn", "nnpn", "nnnp", "nnnm", "mnnn", "pnnn"):
                    k = c12.skel([pre, "r:%s:%s" % (mods, L.enc_str(body)), post])
                    for t_ in (False, True):
                        for l_ in (False, True):
                            cases.append((L.Cfg("default", t_, l_, nl=ctx.rng.choice(NLS), keep=False), k))
    if ctx.tier != "thorough":
        cases = [cs for i, cs in enumerate(cases) if i % 2 == 0 or cs[0].lstrip]
    klines = ctx.driver("lex", ["K %s %s" % (c.enc(), k) for c, k in cases])
    for (c, k), kl in zip(cases, klines):
        src, spec_v, _ = (L.dec_str(x) for x in kl.split(" "))
        want = spec_v.replace("\n", c.nl)
        case = {"kind": "raw-whitespace", "cfg": c.describe(), "src": src, "skeleton": k}
        ctx.case(sample=case if len(src) > 25 else None, key=("rawws", c.key(), k))
        ctx.count("oraw_whitespace")
        got = real_render(jinja2, c, src)
        if got != "D " + want:
            ctx.reject(case, "raw block: render %r, expected %r" % (got, want), "C11:rawws:%s:%s" % (k, c.key()))
        else:
            ctx.validated()


KNOWN_LC_MINUS = "C11:line-comment-after-minus-tag-rendered-as-text"
KNOWN_BCC = "C11:shared-bytecode-cache-ignores-newline-options"
KNOWN_FINALIZE = "C11:finalize-x-runtime-autoescape-template-data"


def run_loader_overlays(ctx, jinja2):
    """templates fetched BY NAME through a loader: the parent environment loads (and caches) the template first,
    then an overlay overriding a subset of the options (newline_sequence / keep_trailing_newline / ...) fetches
    the same name; cache sizes default / 50 / unlimited; also a second overlay of the same parent"""
    for j in range(ctx.size(400, 4000)):
        c = L.Cfg(ctx.rng.choice(["default", "default", "angle", "line"]), nl=ctx.rng.choice(NLS), keep=ctx.rng.random() < 0.5)
        src = rand_text(ctx.rng, ctx.rng.randint(1, 12))
        if has_start(c, src) or has_start(L.Cfg("dollar"), src):
            continue
        names = list(L.OPTION_GROUPS)
        groups = ctx.rng.choice([["newline"], ["keep"], ["newline", "keep"], [g for g in names if ctx.rng.random() < 0.5] or ["newline"]])
        kw = c.kwargs()
        parent_kw = dict(kw)
        over = {}
        for g in groups:
            for k_ in L.OPTION_GROUPS[g]:
                over[k_] = kw[k_]
            if g == "syntax":
                for k_, v in zip(L.OPTION_GROUPS["syntax"], L.DELIMS["dollar"]):
                    parent_kw[k_] = v
            elif g == "newline":
                parent_kw["newline_sequence"] = "\r" if kw["newline_sequence"] != "\r" else "\n"
            else:
                parent_kw[L.OPTION_GROUPS[g][0]] = not kw[L.OPTION_GROUPS[g][0]]
        cache_size = ctx.rng.choice([400, 50, -1])
        loader = jinja2.DictLoader({"t": src, "u": src + "x"})
        parent = jinja2.Environment(loader=loader, cache_size=cache_size, **parent_kw)
        pc = L.Cfg("default", nl=parent_kw["newline_sequence"], keep=parent_kw["keep_trailing_newline"])
        case = {"kind": "loader-overlay", "cfg": c.describe(), "src": src, "overridden": groups, "cache_size": cache_size, "parent": parent_kw}
        ctx.case(sample=case if j < 2 else None, key=("loaderov", c.key(), src, tuple(groups)))
        ctx.count("loader_overlay")
        try:
            before = parent.get_template("t").render()                      # the parent loads the template first
            ov = parent.overlay(**over)
            got = ov.get_template("t").render()
            got2 = parent.overlay(**over).get_template("u").render()
            after = parent.get_template("t").render()
        except Exception as e:
            ctx.reject(case, "loader route raised %s: %s" % (type(e).__name__, e), "C11:loaderov-error:%r" % src)
            continue
        want = spec_plain(src, c.nl, c.keep)
        want_parent = spec_plain(src, pc.nl, pc.keep)
        if got != want or got2 != spec_plain(src + "x", c.nl, c.keep):
            ctx.reject(case, "overlay(%s).get_template after the parent loaded the name renders %r, spec_plain %r" % ("+".join(groups), got, want),
                       "C11:loaderov:%r:%s:%s" % (src, c.key(), "+".join(groups)))
        elif before != want_parent or after != want_parent:
            ctx.reject(case, "the parent renders %r before and %r after the overlay, spec_plain %r" % (before, after, want_parent),
                       "C11:loaderparent:%r:%s" % (src, c.key()))
        else:
            ctx.validated()


def run_autoescape_blocks(ctx, jinja2):
    """plain text, raw blocks and comments inside {% autoescape <flag> %} blocks: the flag a runtime variable
    (true / false), a constant, or an expression; the environment with autoescape off / on / a selector; with
    and without a finalize hook (constant-returning, identity-like, context-aware); content with < > & " '.
    Template data is never escaped and never finalized: the output is the text itself (newline rules as
    everywhere), for either value of the flag."""
    def fin_ctx(ctx_, v):
        return "F"
    fin_ctx = jinja2.pass_context(fin_ctx)
    env_opts = [("plain", {}), ("autoescape_on", {"autoescape": True}), ("selector", {"autoescape": jinja2.select_autoescape(default_for_string=True)}),
                ("finalize_const", {"finalize": lambda v: "X"}), ("finalize_none", {"finalize": lambda v: "" if v is None else v}),
                ("finalize_ctx", {"finalize": fin_ctx}), ("finalize_const+autoescape", {"finalize": lambda v: "X", "autoescape": True})]
    flags = [("f", True), ("f", False), ("not f", True), ("f and g", True), ("true", None), ("false", None), ("f|default(true)", False)]
    pool = ["a", " ", "\n", "<", ">", "&", '"', "'", "<b>", "&amp;", "\r\n", "}", "%", "x y"]
    envs = {}
    for j in range(ctx.size(2500, 25000)):
        oname, okw = ctx.rng.choice(env_opts)
        nl, keep = ctx.rng.choice(NLS), ctx.rng.random() < 0.5
        ek = (oname, nl, keep)
        if ek not in envs:
            envs[ek] = jinja2.Environment(newline_sequence=nl, keep_trailing_newline=keep, **okw)
        env = envs[ek]
        flag, fval = ctx.rng.choice(flags)
        txt = lambda n: "".join(ctx.rng.choice(pool) for _ in range(ctx.rng.randint(0, n)))
        pre, t1, body, t2, post = txt(3), txt(4), txt(5), txt(3), txt(3)
        if any(d in s for s in (pre, t1, body, t2, post) for d in ("{{", "{%", "{#")):
            continue
        inner = t1 + "{% raw %}" + body + "{% endraw %}" + t2 + ctx.rng.choice(["", "{# c < #}"])
        nested = ctx.rng.random() < 0.2
        if nested:
            inner = "{% autoescape g %}" + inner + "{% endautoescape %}"
        src = pre + "{% autoescape " + flag + " %}" + inner + "{% endautoescape %}" + post
        want = spec_plain(pre, nl, True) + spec_plain(t1, nl, True) + spec_plain(body, nl, True) + spec_plain(t2, nl, True) + spec_plain(post, nl, keep)
        case = {"kind": "autoescape-block", "env": oname, "newline_sequence": nl, "keep_trailing_newline": keep, "flag": flag, "f": fval, "src": src, "want": want}
        ctx.case(sample=case if j < 3 else None, key=("aeblock", oname, flag, fval, src))
        ctx.count("autoescape_block_" + oname)
        try:
            got = "D " + env.from_string(src).render(f=fval, g=bool(ctx.rng.getrandbits(1)))
        except Exception as e:
            got = "X:" + type(e).__name__ + ":" + str(e)[:60]
        if got != "D " + want:
            runtime_flag = flag not in ("true", "false") or nested
            sig = KNOWN_FINALIZE if (oname.startswith("finalize") and runtime_flag) else "C11:aeblock:%s:%s:%r" % (oname, flag, src)
            ctx.reject(case, "text / raw block inside {%% autoescape %s %%} (%s): render %r, expected %r" % (flag, oname, got, want), sig)
        else:
            ctx.validated()


def expected_comment_raw(c, pre, mid, post):
    # the closing tag is followed by `post`: only a line break ending `post` is a trailing one
    # (pre, body and post are separated by tags: a CR ending one part and a LF starting the next stay two breaks)
    return spec_plain(pre, c.nl, True) + spec_plain(mid, c.nl, True) + spec_plain(post, c.nl, c.keep)


def check_comment_raw(jinja2, c, src, kind, pre, mid, post):
    want = expected_comment_raw(c, pre, mid, post)
    got = real_render(jinja2, c, src)
    if got != "D " + want:
        return "%s: render %r, expected %r" % (kind, got, want)
    return None


def first_start(cfg, s):
    """(index, longest start string at that index) of the leftmost start sequence in s"""
    best = None
    for d in (cfg.d[0], cfg.d[2], cfg.d[4]):
        i = s.find(d)
        if i >= 0 and (best is None or i < best[0] or (i == best[0] and len(d) > len(best[1]))):
            best = (i, d)
    return best


def gen_comment_raw(rng):
    """pre + comment/raw block + post, where the block is the first and only tag of the source
    (judged on the text, not by the lexer), whitespace control off"""
    import re
    name = rng.choice(["default", "default", "angle", "dollar"])
    c = L.Cfg(name, nl=rng.choice(NLS), keep=rng.random() < 0.5)
    bs, be, vs, ve, cs, ce, _, _ = c.d
    pre = rand_text(rng, rng.randint(0, 6), unicode_=False)
    post = rand_text(rng, rng.randint(0, 6), unicode_=False)
    look = ["a", " ", "\n", "\r\n", bs, vs, cs, be, ve, ce[:1], "end", "raw", "endraw", bs + " end", "-", "+", "{", "}"]
    body = "".join(rng.choice(look) for _ in range(rng.randint(0, 6)))
    if rng.random() < 0.5:
        kind, opener, closer, mid = "comment", cs, ce, ""
        if (body + ce).find(ce) != len(body) or body[-1:] in ("-", "+") or (body + ce)[:1] in ("-", "+"):
            return None
    else:
        kind, opener, closer, mid = "raw", bs + " raw " + be, bs + " endraw " + be, body
        endraw = re.compile(re.escape(bs) + r"[-+]?\s*endraw\s*[-+]?" + re.escape(be))
        m = endraw.search(body + closer)
        if m is None or m.start() != len(body):
            return None
    fs = first_start(c, pre + opener)
    if fs is None or fs[0] != len(pre) or not opener.startswith(fs[1]) or (kind == "comment" and fs[1] != cs):
        return None
    if first_start(c, post) is not None:
        return None
    return (c, pre + opener + body + closer + post, kind, pre, mid, post)


def replay(ctx, data):
    jinja2 = lib.use_repo_jinja()
    case = data.get("case")
    if data.get("kind") != "failing-input" or case is None:
        print("replay: this file names a broken theorem/correspondence, not an input:", data.get("broken"))
        return run(ctx)
    if case.get("kind") == "line-comment-after-minus":
        lenv = jinja2.Environment(line_statement_prefix="#", line_comment_prefix="##")
        got = lenv.from_string(case["src"]).render()
        print(repr(case["src"]), "->", repr(got))
        if "## c" in got:
            ctx.reject(case, "the line comment is rendered as text: %r" % got, data.get("signature"))
        return
    if case.get("kind") == "loader-overlay":
        c = L.Cfg.from_desc(case["cfg"])
        kw = c.kwargs()
        over = {k_: kw[k_] for g in case["overridden"] for k_ in L.OPTION_GROUPS[g]}
        parent = jinja2.Environment(loader=jinja2.DictLoader({"t": case["src"]}), cache_size=case["cache_size"], **case["parent"])
        parent.get_template("t").render()
        got = parent.overlay(**over).get_template("t").render()
        fresh = jinja2.Environment(loader=jinja2.DictLoader({"t": case["src"]}), **kw).get_template("t").render()
        print("source:", repr(case["src"]), "overlay of a parent that loaded it:", repr(got), "fresh:", repr(fresh))
        if got != fresh:
            ctx.reject(case, "overlay renders %r, a fresh environment %r" % (got, fresh), data.get("signature"))
        return
    if case.get("kind") == "autoescape-block":
        okw = {"plain": {}, "autoescape_on": {"autoescape": True}, "selector": {"autoescape": jinja2.select_autoescape(default_for_string=True)},
               "finalize_const": {"finalize": lambda v: "X"}, "finalize_none": {"finalize": lambda v: "" if v is None else v},
               "finalize_ctx": {"finalize": jinja2.pass_context(lambda c_, v: "F")},
               "finalize_const+autoescape": {"finalize": lambda v: "X", "autoescape": True}}[case["env"]]
        env = jinja2.Environment(newline_sequence=case["newline_sequence"], keep_trailing_newline=case["keep_trailing_newline"], **okw)
        outs = []
        for g in (True, False):
            try:
                outs.append("D " + env.from_string(case["src"]).render(f=case["f"], g=g))
            except Exception as e:
                outs.append("X:" + type(e).__name__)
        print("source:", repr(case["src"]), "env:", case["env"], "f =", case["f"], "\nrenders:", outs, "\nexpected:", repr(case["want"]))
        if any(o != "D " + case["want"] for o in outs):
            ctx.reject(case, "render %r, expected %r" % (outs, case["want"]), data.get("signature"))
        return
    c = L.Cfg.from_desc(case["cfg"])
    src = case["src"]
    print("source:", repr(src), "cfg:", case["cfg"])
    print("real tokens :", L.real_run(jinja2, L.env_for(jinja2, c), src))
    print("model tokens:", L.model_runs(ctx, [(c, src)])[0].canon())
    print("render      :", real_render(jinja2, c, src))
    print("overlay of a used environment:", overlay_render(jinja2, c, src))
    if case.get("route"):
        got = L.safe_route(jinja2, case["route"], c, src)
        print("route", case["route"], "->", got)
        ref = real_render(jinja2, c, src)
        if got != ref:
            ctx.reject(case, "%s renders %r, Environment renders %r" % (case["route"], got, ref), data.get("signature"))
            return
    if case.get("kind", "plain") == "plain" and not has_start(c, src):
        w = check_plain(ctx, jinja2, c, src)
        if not w:
            # every single-group and the newline+keep overlay, from a used parent
            for groups in [[g] for g in L.OPTION_GROUPS] + [["newline", "keep"]]:
                ov = L.overlay_subset_env(jinja2, c, ctx.rng, groups=groups, used=True)[0]
                try:
                    got = "D " + ov.from_string(src).render()
                except Exception as e:
                    got = "X:" + type(e).__name__
                if got != "D " + spec_plain(src, c.nl, c.keep):
                    w = "used parent, overlay(%s) renders %r != spec_plain %r" % ("+".join(groups), got, spec_plain(src, c.nl, c.keep))
                    break
        print("spec_plain  :", repr(spec_plain(src, c.nl, c.keep)))
        if w:
            ctx.reject(case, w, data.get("signature"))
    elif case.get("kind") == "raw-whitespace":
        kl = ctx.driver("lex", ["K %s %s" % (c.enc(), case["skeleton"])])[0]
        want = L.dec_str(kl.split(" ")[1]).replace("\n", c.nl)
        got = real_render(jinja2, c, src)
        print("expected    :", repr(want))
        if got != "D " + want:
            ctx.reject(case, "raw block: render %r, expected %r" % (got, want), data.get("signature"))
    elif "pre" in case:
        w = check_comment_raw(jinja2, c, src, case["kind"], case["pre"], case["mid"], case["post"])
        print("expected    :", repr(expected_comment_raw(c, case["pre"], case["mid"], case["post"])))
        if w:
            ctx.reject(case, w, data.get("signature"))
