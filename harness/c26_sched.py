"""Deterministic line-level scheduler for the real jinja2.utils.LRUCache (C26, concurrent half).

Worker threads run operation lists on one shared cache.  sys.settrace in each worker reports
every source line executed inside the LRUCache methods; at each such line (and at lock
acquisition) the scheduler decides which thread runs next, so a schedule is a list of thread
choices and can be replayed exactly.  The cache's `_wlock` is replaced from outside by a
scheduler-aware lock with the same `with` protocol.  Stateless DFS explores every schedule up
to a preemption bound.  Each explored execution is judged for linearizability against the
reference LRU map; the linearization found is re-validated by the extracted Coq spec.
"""
import sys
import threading
from collections import OrderedDict

TARGET_METHODS = ["__getitem__", "__setitem__", "__delitem__", "get", "setdefault", "clear", "__contains__"]


class Deadlock(Exception):
    pass


class SchedLock:
    def __init__(self, sched):
        self.sched = sched
        self.owner = None

    def __enter__(self):
        self.sched.lock_acquire(self)
        return self

    def __exit__(self, *a):
        self.sched.lock_release(self)
        return False

    acquire = __enter__

    def release(self):
        self.sched.lock_release(self)


class Sched:
    def __init__(self, n, prefix, codes):
        self.n = n
        self.prefix = prefix
        self.codes = codes
        self.sems = [threading.Semaphore(0) for _ in range(n)]
        self.status = ["ready"] * n          # ready | blocked | done
        self.current = None
        self.decisions = []                  # (runnable tuple, chosen, current_was_runnable)
        self.clock = 0
        self.local = threading.local()
        self.main_sem = threading.Semaphore(0)
        self.error = None
        self.lock_order = []
        self.inside = [0] * n                # >0 while inside a locked region (for non-triviality)
        self.preempt_inside = 0

    # -- decision
    def _choose(self, me):
        runnable = tuple(i for i in range(self.n) if self.status[i] == "ready")
        if not runnable:
            if all(s == "done" for s in self.status):
                return None
            raise Deadlock()
        i = len(self.decisions)
        cur_ok = me is not None and self.status[me] == "ready"
        if i < len(self.prefix) and self.prefix[i] in runnable:
            ch = self.prefix[i]
        elif cur_ok:
            ch = me
        else:
            ch = runnable[0]
        self.decisions.append((runnable, ch, cur_ok))
        if cur_ok and ch != me and self.inside[me]:
            self.preempt_inside += 1
        return ch

    def _switch(self, me):
        """decide who runs next; block `me` until it is chosen again (if it is not done)"""
        try:
            ch = self._choose(me)
        except Deadlock:
            self.error = "deadlock"
            self.main_sem.release()
            # leave everybody blocked; main thread will abandon the daemon threads
            threading.Event().wait()
        if ch is None:
            self.main_sem.release()
            return
        self.clock += 1
        if ch != me:
            self.current = ch
            self.sems[ch].release()
            if self.status[me] != "done":
                self.sems[me].acquire()

    def yield_point(self):
        me = self.local.tid
        self._switch(me)

    # -- lock protocol
    def lock_acquire(self, lk):
        me = self.local.tid
        self._switch(me)                      # a decision point before taking the lock
        while lk.owner is not None:
            self.status[me] = "blocked"
            self._switch(me)
        lk.owner = me
        self.inside[me] += 1
        self.lock_order.append(me)

    def lock_release(self, lk):
        me = self.local.tid
        lk.owner = None
        self.inside[me] -= 1
        for i in range(self.n):
            if self.status[i] == "blocked":
                self.status[i] = "ready"

    # -- tracing
    def tracer(self, frame, event, arg):
        if frame.f_code in self.codes:
            return self.local_tracer
        return None

    def local_tracer(self, frame, event, arg):
        if event == "line":
            self.yield_point()
        return self.local_tracer


def apply_op(c, o):
    p = o.split(":")
    t = p[0]
    try:
        if t == "g":
            return "v%d" % c[int(p[1])]
        if t == "S":
            c[int(p[1])] = int(p[2]); return "N"
        if t == "D":
            del c[int(p[1])]; return "N"
        if t == "G":
            return "v%d" % c.get(int(p[1]), int(p[2]))
        if t == "T":
            return "v%d" % c.setdefault(int(p[1]), int(p[2]))
        if t == "C":
            return "bT" if int(p[1]) in c else "bF"
        if t == "X":
            c.clear(); return "N"
    except KeyError:
        return "eK"
    except Exception as e:  # any other exception violates "no call raises"
        return "e!" + type(e).__name__
    raise AssertionError(o)


def execute(LRUCache, cap, prefill, threads_ops, prefix):
    codes = {getattr(LRUCache, m).__code__ for m in TARGET_METHODS}
    n = len(threads_ops)
    sched = Sched(n, prefix, codes)
    cache = LRUCache(cap)
    for o in prefill:
        apply_op(cache, o)
    cache._wlock = SchedLock(sched)
    events = [[] for _ in range(n)]           # per thread: (start, end, op, result)

    def worker(tid):
        sched.local.tid = tid
        sched.sems[tid].acquire()
        sys.settrace(sched.tracer)
        try:
            for o in threads_ops[tid]:
                sched.clock += 1
                st = sched.clock
                r = apply_op(cache, o)
                sched.clock += 1
                events[tid].append((st, sched.clock, o, r))
        finally:
            sys.settrace(None)
            sched.status[tid] = "done"
            sched._switch(tid)

    ths = [threading.Thread(target=worker, args=(i,), daemon=True) for i in range(n)]
    for t in ths:
        t.start()
    # initial decision
    first = sched._choose(None)
    sched.current = first
    sched.sems[first].release()
    ok = sched.main_sem.acquire(timeout=8)
    if not ok and sched.error is None:
        sched.error = "timeout"
    if sched.error is None:
        for t in ths:
            t.join(timeout=5)
    final_keys = None
    if sched.error is None:
        cache._wlock = threading.Lock()
        final_keys = list(cache.keys())
        try:
            final_items = [(k, cache._mapping[k]) for k in final_keys]
        except KeyError:
            final_items = "inconsistent"
    else:
        final_items = None
    return sched, events, final_items


# ----------------------------------------------------------------- reference LRU (search aid)
class PySpec:
    def __init__(self, cap, items=()):
        self.cap = cap
        self.d = OrderedDict(items)   # least recent first

    def copy(self):
        return PySpec(self.cap, self.d.items())

    def apply(self, o):
        p = o.split(":")
        t, d = p[0], self.d
        if t in ("g", "G"):
            k = int(p[1])
            if k in d:
                d.move_to_end(k); return "v%d" % d[k]
            return "eK" if t == "g" else "v%d" % int(p[2])
        if t == "S":
            k = int(p[1]); d.pop(k, None); d[k] = int(p[2])
            while len(d) > self.cap:
                d.popitem(last=False)
            return "N"
        if t == "T":
            k = int(p[1])
            if k in d:
                d.move_to_end(k); return "v%d" % d[k]
            d[k] = int(p[2])
            while len(d) > self.cap:
                d.popitem(last=False)
            return "v%d" % int(p[2])
        if t == "D":
            k = int(p[1])
            if k in d:
                del d[k]; return "N"
            return "eK"
        if t == "C":
            return "bT" if int(p[1]) in d else "bF"
        if t == "X":
            d.clear(); return "N"
        raise AssertionError(o)


def linearize(cap, prefill, events, final_items, drop=()):
    """search a sequential order consistent with real time whose results (and final state)
    equal the observed ones; returns the order as a list of (tid, idx) or None"""
    spec0 = PySpec(cap)
    for o in prefill:
        spec0.apply(o)
    ops = []
    for tid, evs in enumerate(events):
        for idx, (st, en, o, r) in enumerate(evs):
            if (tid, idx) in drop:
                continue
            ops.append((tid, idx, st, en, o, r))
    n = len(ops)

    def rec(done, spec, order):
        if len(order) == n:
            if final_items is not None and not drop:
                want = list(reversed(list(spec.d.items())))
                if want != final_items:
                    return None
            return list(order)
        pending = [x for x in ops if (x[0], x[1]) not in done]
        min_end = min(x[3] for x in pending)
        for x in pending:
            if x[2] > min_end:
                continue          # some pending op finished before x started
            sp = spec.copy()
            if sp.apply(x[4]) != x[5]:
                continue
            r = rec(done | {(x[0], x[1])}, sp, order + [(x[0], x[1])])
            if r is not None:
                return r
        return None

    return rec(frozenset(), spec0, [])


def classify(cap, prefill, events, final_items):
    """None if linearizable; otherwise a signature string for known-finding matching"""
    if linearize(cap, prefill, events, final_items) is not None:
        return None
    cont = [(t, i) for t, evs in enumerate(events) for i, e in enumerate(evs) if e[2].startswith("C:")]
    others_raise = any(e[3].startswith("e!") for evs in events for e in evs)
    if cont and not others_raise:
        ok = True
        for keep in cont:
            drop = tuple(c for c in cont if c != keep)
            if linearize(cap, prefill, events, None, drop=drop) is None:
                ok = False
                break
        if ok and linearize(cap, prefill, events, final_items if False else None, drop=tuple(cont)) is not None:
            return "torn-contains-reads"
    return "non-linearizable"


ALPH = [f"g:{k}" for k in (1, 2, 3)] + [f"G:{k}:0" for k in (1, 2, 3)] + [f"D:{k}" for k in (1, 2)] + \
       [f"C:{k}" for k in (1, 2, 3)] + ["X"]


def scenarios(ctx):
    r = ctx.rng
    fixed = [
        # the designed corner: an eviction in flight while another thread reads membership twice
        (2, ["S:1:1", "S:2:2"], [["S:3:30"], ["C:1", "C:3"]]),
        (2, ["S:1:1", "S:2:2"], [["S:3:30"], ["C:3", "C:1"]]),
        (2, ["S:1:1", "S:2:2"], [["S:3:30"], ["g:1"]]),
        (2, ["S:1:1", "S:2:2"], [["g:1"], ["D:1"]]),
        (2, ["S:1:1", "S:2:2"], [["g:1", "S:3:31"], ["D:1", "g:2"]]),
        (1, ["S:1:1"], [["S:2:20"], ["S:3:30"], ["g:1"]]),
        (2, ["S:1:1", "S:2:2"], [["X"], ["S:3:30"], ["G:2:0"]]),
    ]
    for f in fixed:
        yield f
    n = ctx.size(25, 300)
    for _ in range(n):
        cap = r.choice([1, 2, 2, 3])
        prefill = [f"S:{k}:{k}" for k in range(1, r.randint(0, cap) + 1)]
        nth = 2 if r.random() < 0.75 else 3
        ths = []
        v = 30
        for t in range(nth):
            ops = []
            for _ in range(r.randint(1, 2 if nth == 3 else 3)):
                if r.random() < 0.35:
                    v += 1
                    ops.append(f"S:{r.randint(1, 3)}:{v}")
                else:
                    ops.append(r.choice(ALPH))
            ths.append(ops)
        yield cap, prefill, ths


def explore(ctx, LRUCache):
    bound = ctx.size(2, 3)
    budget = ctx.size(2500, 40000)
    per_scenario = ctx.size(250, 2500)
    total = 0
    witnesses = []       # (cap, ops in linearization order, observed results)
    errors = 0
    nscen = 0
    for cap, prefill, ths in scenarios(ctx):
        if total >= budget:
            break
        nscen += 1
        stack = [[]]
        seen = set()
        count = 0
        while stack and count < per_scenario and total < budget:
            prefix = stack.pop()
            key = tuple(prefix)
            if key in seen:
                continue
            seen.add(key)
            sched, events, final_items = execute(LRUCache, cap, prefill, ths, prefix)
            count += 1
            total += 1
            case = {"cap": cap, "prefill": prefill, "threads": ths, "schedule": [d[1] for d in sched.decisions]}
            ctx.case(sample=dict(case, results=[[e[3] for e in evs] for evs in events]) if sched.preempt_inside and len(ctx.samples) < 6 else None,
                     key=("conc", cap, tuple(prefill), tuple(map(tuple, ths)), tuple(case["schedule"])) if sched.preempt_inside else None)
            ctx.count("conc_schedules")
            if sched.error:
                # a deadlock / timeout costs the full wait: report it and stop exploring (the worker
                # threads of this execution are abandoned as daemons)
                ctx.reject(case, f"concurrent execution ended in {sched.error}", None)
                errors += 1
                if errors >= 2:
                    ctx.extra["concurrent"] = {"scenarios": nscen, "schedules": total, "preemption_bound": bound,
                                               "aborted": "two executions ended in deadlock/timeout"}
                    return
                break
            sig = classify(cap, prefill, events, final_items)
            res = [[(e[2], e[3]) for e in evs] for evs in events]
            if sig is not None:
                ctx.reject(dict(case, results=res), "concurrent LRUCache history is not linearizable: " + repr(res),
                           "C26:" + sig if sig == "torn-contains-reads" else None)
            else:
                # tie to C26_locked_ops_atomic: every operation runs in exactly one critical section and
                # the results are those of the sequential run in lock-acquisition order
                per = [0] * len(ths)
                order = []
                for t in sched.lock_order:
                    order.append((t, per[t])); per[t] += 1
                if per != [len(x) for x in ths]:
                    ctx.model_mismatch("K-rt concurrent: each operation runs in exactly one critical section of _wlock",
                                       case, [len(x) for x in ths], per, None)
                    order = linearize(cap, prefill, events, final_items)
                ops_seq = list(prefill) + [events[t][i][2] for t, i in order]
                res_seq = ["N"] * len(prefill) + [events[t][i][3] for t, i in order]
                witnesses.append((cap, ops_seq, res_seq, case))
                ctx.validated()
            # children: flip one later decision, respecting the preemption bound
            decs = sched.decisions
            chosen = [d[1] for d in decs]
            # preemption count of the executed prefix
            cur = None
            pre = []
            cnt = 0
            for (runnable, ch, cur_ok) in decs:
                pre.append(cnt)
                if cur_ok and ch != cur and cur is not None:
                    cnt += 1
                cur = ch
            cur_at = [None] + chosen[:-1]
            for i in range(len(prefix), len(decs)):
                runnable, ch, cur_ok = decs[i]
                for alt in runnable:
                    if alt == ch:
                        continue
                    extra = 1 if (cur_ok and alt != cur_at[i] and cur_at[i] is not None) else 0
                    if pre[i] + extra <= bound:
                        stack.append(chosen[:i] + [alt])
    ctx.extra["concurrent"] = {"scenarios": nscen, "schedules": total, "preemption_bound": bound}
    # re-validate every linearization witness with the extracted Coq spec
    if witnesses:
        lines = [f"{cap} " + " ".join(ops) for cap, ops, _, _ in witnesses]
        out = ctx.driver("lru", lines)
        for (cap, ops, res, case), ln in zip(witnesses, out):
            s = ln[2:].split(" | S ")[1]
            if s != ";".join(res):
                ctx.model_mismatch("K-rt concurrent: results equal the extracted LRUSpec.srun on the lock-acquisition order",
                                   dict(case, acquisition_order_ops=ops), s, ";".join(res), None)


def replay(ctx, LRUCache, case):
    sched, events, final_items = execute(LRUCache, case["cap"], case["prefill"], case["threads"], case["schedule"])
    res = [[(e[2], e[3]) for e in evs] for evs in events]
    print("results:", res, "final:", final_items, "error:", sched.error)
    if sched.error:
        ctx.reject(case, f"concurrent execution ended in {sched.error}")
        return
    sig = classify(case["cap"], case["prefill"], events, final_items)
    print("verdict:", sig or "linearizable")
    if sig:
        ctx.reject(case, "not linearizable: " + repr(res), "C26:" + sig if sig == "torn-contains-reads" else None)
