"""C15 — autoescaping never lets unescaped data or string literals into the output.

proof : Properties/C15.v (MkClean per Markup primitive and per filter row of T, generic row theorem,
        autoescape_safe for ALL templates of T in static / selector / runtime-decided mode)
tie   : K-rows  every filter of the running jinja2.filters.FILTERS on every Plain/Markup combination of
        its string positions: (result Markup?, how each argument reaches it) == the model's row table;
        the observed table is regenerated into Coq and its safety decided there (vm_compute);
        K-lang  extracted EscLang.render == real render of generated T programs;
        K-sel   extracted select_autoescape == jinja2.select_autoescape.
oracle: rendered output of generated templates under static / selector / runtime-decided autoescape
        must be Clean (no raw < > " ') — template text is metacharacter-free, every data string and
        literal carries metacharacters and a unique payload marker.
"""
import os
import re
import sys

from . import lib
from . import esc_lang as L
from . import esc_rows as R
from . import esc_lang2 as L2
from .gen_templates import TGen

RULE = ("K-rows: all built-in filters x call shapes x 2^(string positions) taint combinations (exhaustive); distinct = "
        "filter#shape:taints; non-trivial = at least one plain argument with payload and the filter returned normally. "
        "K-lang: LGen programs of T under random (environment flag, block flag); non-trivial = non-empty output using a "
        "macro / call / set block / filter block / `~`. O-T: LGen programs satisfying c15_ok with payload-marked data in "
        "the three modes; O-sets: shared-generator template sets (meta data, all features incl. include / import / extends "
        "/ super) in the three modes; O-expr: a pool of expression / statement shapes with data-controlled filter "
        "arguments, operators and string methods x wrappers (plain output, set block, macro, call block, filter block) x "
        "modes; non-trivial for the O streams = the rendered output contains an escaped metacharacter (escaping was "
        "exercised).")

MARK = "<pAyLoAd7>"

MODES = ("static", "selector", "runtime")
SELECTOR_EXTS = ("html", "html.j2", "tmpl.xml", ".HTML", "page.HTML.J2", "html")


# configuration axes the property's text does not exclude (sampled per render)
AXES = ("plain", "plain", "debug_undefined", "mixed_undefined", "async", "async_render", "sandbox", "immutable_sandbox", "unoptimized", "finalize", "overlay", "bccache",
        "generate", "stream", "line_statements", "trim", "policies", "undefined")


class _S(str):
    """user str subclass with its own __str__ (no __html__)"""

    def __str__(self):
        return str.__str__(self)


class _O:
    """object that is not a string; its text is the payload"""

    def __init__(self, v):
        self.v = v

    def __str__(self):
        return self.v

    def __repr__(self):
        return "O(" + self.v + ")"

    def __len__(self):
        return len(self.v)


class _Ops:
    """a context object whose operators answer with a STRING carrying data (rich comparisons included)"""

    def __init__(self, v):
        self.v = v

    def _r(self, *a, **k):
        return self.v

    __lt__ = __le__ = __gt__ = __ge__ = __eq__ = __ne__ = _r
    __add__ = __radd__ = __sub__ = __rsub__ = __mul__ = __rmul__ = __mod__ = __rmod__ = _r
    __truediv__ = __floordiv__ = __pow__ = __neg__ = __pos__ = __getitem__ = __call__ = _r
    __hash__ = None

    def __getattr__(self, name):
        if name.startswith("__"):
            raise AttributeError(name)
        return self.v

    def __contains__(self, item):
        return True

    def __str__(self):
        return self.v


def make_fn(payload):
    """a plain callable from the context (not a macro): returns DATA, optionally around what caller() renders"""
    def fn(*args, caller=None, **kw):
        inner = caller(payload) if caller is not None and args and args[0] == "__q__" else (caller() if caller is not None else "")
        return payload + "".join(str(a) for a in args) + str(inner)
    return fn


def value_kind(rng, s):
    k = rng.random()
    if k < 0.7:
        return s
    if k < 0.85:
        return _S(s)
    return _O(s)


def make_env(jinja2, axis, loader, autoescape, build_dir=None):
    from jinja2 import sandbox
    kw = dict(loader=loader, autoescape=autoescape)
    cls = jinja2.Environment
    if axis in ("async", "async_render"):
        kw["enable_async"] = True
    elif axis == "sandbox":
        cls = sandbox.SandboxedEnvironment
    elif axis == "immutable_sandbox":
        cls = sandbox.ImmutableSandboxedEnvironment
    elif axis == "unoptimized":
        kw["optimized"] = False
    elif axis == "finalize":
        kw["finalize"] = lambda x: x
    elif axis == "line_statements":
        kw.update(line_statement_prefix="#!#", line_comment_prefix="##!")
    elif axis == "trim":
        kw.update(trim_blocks=True, lstrip_blocks=True, keep_trailing_newline=True)
    elif axis == "undefined":
        kw["undefined"] = jinja2.ChainableUndefined
    elif axis == "debug_undefined":
        kw["undefined"] = jinja2.make_logging_undefined(base=jinja2.DebugUndefined) if hash(str(loader)) % 2 else jinja2.DebugUndefined
    elif axis == "mixed_undefined":
        kw["undefined"] = type("U", (jinja2.ChainableUndefined, jinja2.DebugUndefined), {})
    elif axis == "bccache" and build_dir:
        kw["bytecode_cache"] = jinja2.FileSystemBytecodeCache(build_dir)
    if axis == "overlay":
        # LIFECYCLE: the parent has been USED (every template loaded and rendered once through the loader, with the
        # opposite autoescape setting) before the overlay is created; the overlay must compile its own templates
        base = jinja2.Environment(loader=loader, autoescape=(False if autoescape is True else True))
        try:
            for nm in loader.list_templates():
                try:
                    base.get_template(nm).render()
                except Exception:
                    pass
        except Exception:
            pass
        env = base.overlay(autoescape=autoescape)
    else:
        env = cls(**kw)
    if axis == "policies":
        env.policies["urlize.rel"] = 'pOl"><x'
        env.policies["urlize.target"] = "_b'<"
        env.policies["urlize.extra_schemes"] = ["x-y:"]
        env.policies["json.dumps_kwargs"] = {"sort_keys": False, "ensure_ascii": False}
        import json as _json
        env.policies["json.dumps_function"] = lambda o, **k: _json.dumps(o, **k)
    return env


def do_render(tmpl, axis, data):
    import random as _random
    _random.seed(11)          # the random filter must not make two renders of one template differ
    if axis == "generate":
        return "".join(tmpl.generate(**data))
    if axis == "stream":
        st = tmpl.stream(**data)
        st.enable_buffering(3)
        return "".join(st)
    if axis == "async_render":
        import asyncio
        return asyncio.run(tmpl.render_async(**data))
    return tmpl.render(**data)


def render_mode(jinja2, mode, templates, main, data, axis="plain", ctx=None):
    """render `main` of a template set with autoescaping active through the given mechanism, under
    one configuration axis; None on any exception"""
    ts = dict(templates)
    bdir = ctx.bdir if ctx is not None else None
    try:
        if mode == "static":
            env = make_env(jinja2, axis, jinja2.DictLoader(ts), True, bdir)
        elif mode == "selector":
            # the selector matches by name SUFFIX: simple, compound (several dots), upper-case and dot-prefixed extensions
            ext = SELECTOR_EXTS[hash((main, len(ts), len(str(data)))) % len(SELECTOR_EXTS)]
            suffix = ext.lstrip(".")
            ts = {re.sub(r"\.html$", "." + suffix, k): re.sub(r"\.html'", "." + suffix + "'", v) for k, v in ts.items()}
            main = re.sub(r"\.html$", "." + suffix, main)
            other = tuple(e for e in ("txt", "html", "j2", "xml") if not suffix.lower().endswith(e))
            env = make_env(jinja2, axis, jinja2.DictLoader(ts),
                           jinja2.select_autoescape(enabled_extensions=(ext, "never"), disabled_extensions=other[:1],
                                                    default_for_string=False, default=False), bdir)
        else:
            # runtime-decided: environment default off, every template wrapped in {% autoescape ae_on %}
            ts = {k: (wrap_runtime_lib(v) if k.startswith("lib") else wrap_runtime(v)) for k, v in ts.items()}
            env = make_env(jinja2, axis, jinja2.DictLoader(ts), False, bdir)
            env.globals["ae_on"] = True
        if ctx is not None:
            ctx.count("axis_" + axis)
        out = do_render(env.get_template(main), axis, data)
        if axis == "bccache":
            # second environment: the template now comes from the bytecode cache
            env2 = make_env(jinja2, axis, env.loader, env.autoescape, bdir)
            env2.globals.update(ae_on=True)
            out2 = do_render(env2.get_template(main), axis, data)
            addr = re.compile(r"0x[0-9a-fA-F]+")      # default object reprs print addresses
            if addr.sub("0x", out2) != addr.sub("0x", out):
                return out + "<BYTECODE-CACHE-DIFFERS>" + out2
        return out
    except Exception:
        return None


def wrap_runtime_lib(src):
    """imported library: the exported macros must stay at top level, so their BODIES are wrapped"""
    src = re.sub(r"(\{% macro [^%]*%\})", r"\1{% autoescape ae_on %}", src)
    return src.replace("{% endmacro %}", "{% endautoescape %}{% endmacro %}")


def wrap_runtime(src):
    """put the body of a template (and of each of its blocks when it extends) inside a
    runtime-decided autoescape block"""
    if "{% extends" in src:
        src = re.sub(r"(\{% block \w+ %\})", r"\1{% autoescape ae_on %}", src)
        return src.replace("{% endblock %}", "{% endautoescape %}{% endblock %}")
    # blocks of a base template are compiled as separate functions: wrap their bodies too
    src = re.sub(r"(\{% block \w+ %\})", r"\1{% autoescape ae_on %}", src)
    src = src.replace("{% endblock %}", "{% endautoescape %}{% endblock %}")
    return "{% autoescape ae_on %}" + src + "{% endautoescape %}"


def judge_output(out):
    if out is None:
        return None
    bad = [c for c in "<>\"'" if c in out]
    if bad:
        i = min(out.index(c) for c in bad)
        return f"raw {''.join(bad)!r} in autoescaped output near {out[max(0, i-30):i+40]!r}"
    return None


# expression shapes with data-controlled filter arguments, operators and string methods;
# a b c are plain strings with metacharacters, m is Markup-valued inside the template (set block)
EXPRS = [
    "a|replace(b, c)", "a|replace('o', b)", "m|replace('o', b)", "m|replace(b, c)", "a|e|replace(b, c)",
    "a|indent(width=b)", "m|indent(width=b)", "m|indent(width=b, first=true, blank=true)", "a|indent(2)",
    "a|center(30)", "m|center(30)", "a|truncate(9, true, b)", "m|truncate(9, true, b)", "m|truncate(12, false, b, 0)",
    "a|format(b)", "'%s|%s'|format(a, b)", "m ~ '%s'|format(b)", "(m ~ '%s')|format(b)", "(m ~ '%(k)s')|format(k=b)",
    "[a, b]|join(c)", "[a, m]|join(c)", "[a, b]|join(m)", "[m, m]|join(c)", "a|join(b)", "m|list|join(b)",
    "a|default(b)", "missing|default(b)", "''|default(b, true)", "a|trim", "a|trim(b)", "m|trim(b)",
    "a|striptags", "m|striptags", "a|title", "m|title", "a|capitalize", "m|capitalize", "a|upper", "m|upper",
    "a|wordwrap(5, true, b)", "m|wordwrap(5, true, b)", "m|wordwrap(5)", "a|urlencode", "m|urlencode",
    "a|reverse", "m|reverse", "a|first", "m|first", "m|last", "a|list|join", "m|list|join(b)",
    "[a, b]|batch(2, c)|list", "[a, b, c]|slice(2, a)|list", "a ~ b", "m ~ b", "b ~ m", "m ~ b ~ m", "a * 2", "m * 2",
    "a[1:]", "m[1:]", "m[0]", "(a|e) ~ b", "(a|e) + b", "b + (a|e)", "m + b", "b + m", "(m + b) ~ c",
    "(a|e).replace(b, c)", "m.replace('o', b)", "a.upper()", "m.upper()", "a.lower()", "m.title()", "m.strip(b)",
    "m.center(30, 'x')", "a.center(30)", "m.join([a, b])", "a.join([b, c])", "m.format(a)", "(m ~ '{}').format(b)",
    "(m ~ '{0}{k}').format(a, k=b)", "'{}'.format(a)", "m % b", "(m ~ '%s') % b", "(m ~ '%s %s') % (a, b)",
    "(m ~ '%(k)s') % {'k': b}", "'%s' % a", "m.split('o')|join(b)", "m.splitlines()|join(b)", "m.partition('o')|join(b)",
    "a|forceescape", "m|forceescape", "a|e|e", "a|string", "m|string", "a|urlize", "(a ~ ' http://x.example/?q=' ~ b)|urlize",
    "'http://x.example/'|urlize(target=a, rel=b)", "('http://x.example/' ~ a)|urlize(10, true)",
    "{'k': a}|xmlattr", "{'data-x': a, 'id': b}|xmlattr", "{'k': m}|xmlattr", "a|tojson", "{'k': a}|tojson", "[a, m]|tojson",
    "a|pprint", "[a, b]|pprint", "[a, b]", "{'k': a}", "(a, m)", "[a, b]|map('upper')|join(c)", "[a, b]|map('e')|join(c)",
    "[a, b]|select|join(c)", "[a, b]|sort|join", "[a, b]|unique|list", "[a, b]|max", "[a, m]|min", "[a, b]|random",
    "{'k': a}|dictsort", "{'k': a}|items|list", "a|filesizeformat", "a|int", "a|length", "a|wordcount", "a|float",
    "a if b else c", "m if b else a", "a is string", "a == b", "a in [b]", "a and b", "a or b", "not a",
    "cycler(a, b).next()", "joiner(a)() ~ joiner(a)()", "namespace(x=a).x", "dict(k=a)", "lipsum(1)|length > 0",
    "range(2)|join(a)", "loop_stub|default(a)", "a|attr('upper')()", "[{'k': a}]|map(attribute='k')|join(b)",
    "[{'k': a}]|groupby('k')", "[{'k': a}]|selectattr('k')|list", "[a, b]|reject('none')|join(c)", "a|batch(3)|list",
    "{'k': [a, b]}|xmlattr", "{'k': {'x': a}}|xmlattr", "{'k': (a, 1)}|xmlattr", "{'k': namespace(x=a)}|xmlattr", "{'k': [m, a]}|xmlattr",
    "{'k': cycler(a, b)}|xmlattr", "[a, [b]]|join(c)", "[[a], m]|join(c)", "[a, b]|string", "[a, m]|string|upper", "[[a]]|first",
    "([a]|list)|string|replace(b, c)", "{'k': [a]}|tojson", "[a, b]|center(40)", "[a]|indent(width=b)", "[a, b]|trim", "(a, b)|title",
    "[a, b]|truncate(9, true, c)", "[a]|wordwrap(3, true, b)", "{'k': a}|string|urlize", "[m, a]|join", "[a, m]|join", "[m, a, m]|join(c)",
    "[m, b]|join(', ')", "[b, m]|join(', ')", "[m, 1]|join('-')",
    # str.format / format_map on fragments and literals with FORMAT SPECS and conversions (sandboxed formatters too)
    "(m ~ '{0:12}|{k:s}').format(a, k=b)", "(m ~ '{0!s}|{k!r:>8}').format(a, k=b)", "(m ~ '{:>30}').format(a)", "(m ~ '{k:^20s}').format_map({'k': a})",
    "'{:>20}'.format(a)", "'{0:s}{1!r}'.format(m, a)", "(m ~ '{0[0]}{0.__class__.__name__:s}').format(a)", "(m ~ '{:5}').format(missing)",
    "(m ~ '{0:{1}}').format(a, 9)", "m.format(a, b)", "(m ~ '{}').format([a, b])", "(m ~ '{k!s:10}').format(k=fn(a))",
    # filters invoked THROUGH other filters (map / select / call_filter paths of Environment._filter_test_common)
    "[[m, a], [b]]|map('join', c)|join('|')", "[m, a]|map('replace', 'o', b)|join(c)", "[a, m]|map('indent', b)|join", "[m]|map('join', a)|list",
    "[[a, b]]|map('join', m)|first", "[a, b]|map('e')|map('replace', 'o', c)|join", "[{'k': a}]|map('xmlattr')|join", "[a]|map('urlize')|join(b)",
    "[[m, a]]|map('join')|map('string')|join(b)", "[a, m]|map('truncate', 9, true, b)|join", "[m, a]|map('center', 30)|map('trim')|join(c)",
    # operator results of data OBJECTS: rich comparisons and arithmetic dunders that return strings
    "cmpo < a", "cmpo == b", "a > cmpo", "cmpo != a", "cmpo <= 1", "cmpo >= m", "(cmpo < a) ~ b", "cmpo + a", "a + cmpo", "cmpo * 2", "cmpo % a",
    "-cmpo", "+cmpo", "cmpo[a]", "cmpo.attr", "cmpo(a)", "cmpo // 2", "cmpo ** 2", "cmpo - a", "cmpo / 2", "not cmpo", "cmpo in [a]", "a in cmpo",
    "cmpo < a < b", "cmpo|string", "[cmpo < a, cmpo == a]|join(b)", "(cmpo == a)|upper", "cmpo is lt(a)", "[a, b]|select('lt', cmpo)|list",
    # failed lookups whose KEY is hostile data (the undefined object's text may name it), plain callables from the context
    "{'x': 1}[a]", "missing[a]", "{}[a][b]", "{}[a].x", "a.nope", "a[b]", "[1][a|length]", "{}[a]|default(b)", "({}[a] ~ b)", "{}[a]|string",
    "[{}[a], m]|join(b)", "{'k': {}[a]}|xmlattr", "fn()", "fn(a)", "fn(a) ~ b", "[fn(a), m]|join(c)", "fn(m)", "fn|string|length",
    "[m, a]|join(m)", "[m, m]|join(m)", "[a, m, fn(a)]|join(m)", "[m, a]|join(fn(b))",
    # every built-in test in an output expression and inside select / reject / selectattr
    "a is string", "m is string", "m is escaped", "a is escaped", "a is eq(b)", "m is eq(a)", "a is ne(m)", "a is lt(b)", "m is le(a)", "a is gt(m)",
    "m is ge(m)", "a is sameas(a)", "a is in(m)", "m is in([a, m])", "a is lower", "m is upper", "a is defined", "missing is undefined",
    "a is none", "a is boolean", "a is integer", "a is float", "a is number", "a is iterable", "m is sequence", "a is mapping",
    "a is callable", "(a|length) is divisibleby(2)", "(a|length) is even", "(a|length) is odd", "'upper' is filter", "'odd' is test",
    "a is true", "a is false", "a is equalto(a)", "a is greaterthan(b)", "a is lessthan(b)", "a is not string",
    "[a, m, 1]|select('string')|join(c)", "[a, m]|reject('escaped')|join(c)", "[a, m]|select('escaped')|join(c)", "[a, b]|select('eq', a)|join(c)",
    "[a, b]|reject('in', [b])|join(c)", "[a, m]|select('ne', m)|join(c)", "[{'k': a}, {'k': m}]|selectattr('k', 'escaped')|map(attribute='k')|join(c)",
    "[{'k': a}]|rejectattr('k', 'none')|map(attribute='k')|join(c)", "[a, b]|select('lower')|list", "[a, m]|select('in', m)|first",
    # operators on Markup vs str: % * in comparisons, unary, slicing with data-dependent bounds
    "m % a", "m % (a, b)", "a % m", "m * 2", "2 * m", "a in m", "m in a", "m == a", "m != a", "m < a", "m >= b", "a == m", "(m ~ a) == (a ~ m)",
    "m ~ (a in m)", "m[(a|length) // 2:]", "m[::-1]", "m[::2] ~ b", "(m, a)[0]", "(m if a in b else b) ~ a", "m and a", "a and m", "m or a",
    "not m", "(m + a) * 2", "(a ~ m) % b", "m ** 1 if false else a", "[m, a]|sort|join(b)", "[m, a]|max", "[m, a]|unique|join(c)",
    # string methods on Markup values
    "m.ljust(30, 'x')", "m.rjust(30)", "m.zfill(40)", "m.expandtabs()", "m.swapcase()", "m.casefold()", "m.lstrip(b)", "m.rstrip(b)",
    "m.rsplit('o')|join(b)", "m.rpartition('o')|join(b)", "(m ~ '{k}').format_map({'k': b})", "m.removeprefix(b)", "m.removesuffix(b)",
    "m.unescape()", "m.striptags()", "m.count(a)", "m.find(a)", "m.startswith(a)", "m.capitalize()", "m.__html__()", "m.encode('utf-8')",
    "m.join(a)", "a.join(m)", "m.replace(a, b)", "m.replace('o', m)", "m.split()|first", "m.splitlines(true)|join(b)", "m.center(30, b[:1])",
    "m.__mod__(a)", "m.__add__(a)", "m.__radd__(a)", "m.__mul__(2)", "m.__getitem__(0)", "m.escape(a)",
    "a.format(m)", "a.replace('o', m)", "a.__add__(m)", "(a ~ '%s') % m", "(a ~ '{}').format(m)", "a|format(m)",
    "a|slice(2)|list", "a|e|truncate(5)", "a|e|center(20)", "a|e|indent(width=b)", "a|e|wordwrap(4)|replace(b, c)",
]

WRAPPERS = [
    "{{ %s }}",
    "{%% set r = %s %%}{{ r }}|{{ r ~ a }}",
    "{%% set r %%}{{ %s }}{%% endset %%}{{ r }}|{{ r ~ a }}",
    "{%% macro f(p) %%}[{{ p }}|{{ %s }}]{%% endmacro %%}{{ f(b) }}{{ f(m) }}",
    "{%% macro f(p) %%}[{{ p }}{{ caller(p) }}]{%% endmacro %%}{%% call(q) f(c) %%}{{ q }}{{ %s }}{%% endcall %%}",
    "{%% set r | striptags %%}{{ %s }}{%% endset %%}{{ r }}",
    "{%% set r | join(a) %%}xy{{ %s }}{%% endset %%}{{ r }}",
    "{%% set r | default(a, true) %%}{%% endset %%}{{ r }}{{ %s }}",
    "{%% set r | title | trim(b) %%}{{ %s }}{%% endset %%}{{ r }}|{{ r ~ c }}",
    "{%% set r | upper %%}{{ %s }}{%% endset %%}{{ r }}",
    "{%% call fn() %%}{{ %s }}{%% endcall %%}",
    "{%% call fn(a) %%}x{%% endcall %%}{{ %s }}",
    "{%% filter upper %%}{{ %s }}{%% endfilter %%}",
    "{%% filter striptags %%}{{ %s }}{%% endfilter %%}",
    "{%% filter replace(a, b) %%}{{ %s }}{%% endfilter %%}",
    "{%% filter title %%}x {{ %s }}{%% endfilter %%}",
    "{%% filter indent(width=b) %%}x\n{{ %s }}{%% endfilter %%}",
    "{%% filter wordwrap(3, true, c) %%}{{ %s }}{%% endfilter %%}",
    "{%% filter trim %%}{{ %s }}{%% endfilter %%}",
    "{%% filter urlencode %%}{{ %s }}{%% endfilter %%}",
    "{%% for i in [a, m] %%}{{ i }}{{ %s }}{{ loop.cycle(a, b) }}{%% endfor %%}",
    "{%% with w = %s %%}{{ w }}{{ w ~ b }}{%% endwith %%}",
    "{%% if %s %%}{{ a }}{%% else %%}{{ b }}{%% endif %%}",
    "{{ \"<lIt>'\" ~ (%s) }}{{ '\"<lIt2>' }}{{ ('<lIt3>'|string) ~ 5 }}",
]

PRELUDE = "{% set m %}{{ a }} o{% endset %}"

# (templates with EXPR placeholder, mode), signature of the finding class
REGION_SHAPES = [
    ({"mode": "off", "templates": {"main.html": "{% autoescape true %}{% block b %}{{ EXPR }}{% endblock %}{% endautoescape %}"}},
     "C15:block-inside-autoescape-region"),
    ({"mode": "off", "templates": {"main.html": "{% autoescape ae_on %}x{% for i in [1] %}{% block b %}{{ EXPR }}{% endblock %}{% endfor %}{% endautoescape %}"}},
     "C15:block-inside-autoescape-region"),
    ({"mode": "off", "templates": {"main.html": "{% autoescape true %}{% for i in [a, b] %}{% block b scoped %}{{ i }}{{ EXPR }}{% endblock %}{% endfor %}{% endautoescape %}"}},
     "C15:block-inside-autoescape-region"),
    ({"mode": "off", "templates": {"main.html": "{% autoescape ae_on %}{% with w = a %}{% block b scoped %}{{ w }}{{ EXPR }}{{ '<lIt>' }}{% endblock %}{% endwith %}{% endautoescape %}"}},
     "C15:block-inside-autoescape-region"),
    ({"mode": "off", "templates": {"main.html": "{% autoescape true %}{% for i in [a] %}{% block b scoped %}{% for j in [i, b] %}{% block c scoped %}{{ j }}{{ EXPR }}{% endblock %}{% endfor %}{% endblock %}{% endfor %}{% endautoescape %}"}},
     "C15:block-inside-autoescape-region"),
    ({"mode": "off", "templates": {"main.html": "{% if false %}{% block b %}{{ EXPR }}{{ a }}{% endblock %}{% endif %}x{% autoescape true %}[{{ self.b() }}]{% endautoescape %}"}},
     "C15:block-inside-autoescape-region"),
    ({"mode": "off", "templates": {"main.html": "{% if false %}{% block b %}{{ '<lIt>' }}{{ EXPR }}{% endblock %}{% block c %}{{ a }}{% endblock %}{% endif %}"
                                                "{% autoescape ae_on %}{% for i in [1, 2] %}{{ self.b() ~ self.c() }}{% endfor %}{% endautoescape %}"}},
     "C15:block-inside-autoescape-region"),
    ({"mode": "off", "templates": {"main.html": "{% extends 'base.html' %}{% block b %}{{ EXPR }}{% endblock %}",
                                   "base.html": "{% autoescape true %}[{% block b %}{% endblock %}]{% endautoescape %}"}},
     "C15:overriding-block-rendered-in-parent-region"),
    ({"mode": "off", "templates": {"main.html": "{% macro f(x) %}{{ x }}{{ EXPR }}{% endmacro %}{% autoescape true %}{{ f(a) }}{% endautoescape %}"}},
     "C15:macro-compiled-outside-region-called-inside"),
    ({"mode": "off", "templates": {"main.html": "{% macro f(x) %}{{ x }}{{ caller() }}{% endmacro %}{% autoescape ae_on %}{% call f(a) %}{{ EXPR }}{% endcall %}{% endautoescape %}"}},
     "C15:macro-compiled-outside-region-called-inside"),
    ({"mode": "off", "templates": {"main.html": "{% autoescape true %}[{% include 'inc.html' %}]{{ a }}{% endautoescape %}", "inc.html": "{{ EXPR }}"}},
     "C15:include-inside-autoescape-region"),
    ({"mode": "off", "templates": {"main.html": "{% autoescape ae_on %}{% for i in [a] %}{% include ['nope.html', 'inc.html'] %}{% endfor %}{% endautoescape %}",
                                   "inc.html": "{{ i }}{{ EXPR }}"}},
     "C15:include-inside-autoescape-region"),
    ({"mode": "selector", "templates": {"main.html": "{% extends 'base.txt' %}{% block b %}[{{ super() }}]{{ a }}{% endblock %}",
                                        "base.txt": "{% block b %}{{ EXPR }}{% endblock %}"}},
     "C15:super-from-unescaped-parent"),
    ({"mode": "selector", "templates": {"main.html": "{% extends 'mid.html' %}{% block b %}{{ super() }}{% endblock %}",
                                        "mid.html": "{% extends 'base.txt' %}{% block b %}<{{ super() }}>{% endblock %}",
                                        "base.txt": "{% block b %}{{ EXPR }}{% endblock %}"}},
     "C15:super-from-unescaped-parent"),
    ({"mode": "selector", "templates": {"main.html": "{% import 'm.txt' as m %}{{ m.f(a) }}{{ EXPR }}",
                                        "m.txt": "{% macro f(x) %}{{ x }}{% endmacro %}"}},
     "C15:macro-imported-from-unescaped-template"),
    ({"mode": "selector", "templates": {"main.html": "{% from 'm.txt' import f with context %}{% call f(EXPR) %}{{ a }}{% endcall %}",
                                        "m.txt": "{% macro f(x) %}{{ x }}{{ caller() }}{% endmacro %}"}},
     "C15:macro-imported-from-unescaped-template"),
]


def run(ctx):
    jinja2 = lib.use_repo_jinja()
    from jinja2.filters import FILTERS
    ctx.extra["rule"] = RULE
    ctx.assumptions += [
        "filters outside T are abstracted to taint rows (Level P): a row case says whether the result is Markup and "
        "whether each string argument reaches it through escape(); piece transforms are assumed character-class "
        "preserving (C22-C24 own the functional contracts)",
        "documented markup of urlize (<a href rel target>), xmlattr (key=\"value\") and tojson (JSON double quotes) "
        "is set aside before the Clean check of K-rows",
        "programs of T follow the generator's naming discipline (see notes/C16.md)",
        "string methods called on data follow MarkupSafe 3.0.3's Markup class (not modelled line by line; exercised "
        "by the O-expr stream)",
    ]
    ctx.proof("C15")
    ctx.proof("C15inc")

    # ---------------- K-rows
    rows = []
    env = jinja2.Environment(autoescape=True)
    tctx = env.from_string("").new_context({})
    seen_filters = set()
    for name, vi, spec, taints in R.all_cases(jinja2):
        seen_filters.add(name)
        if spec is None:
            ctx.case()
            ctx.model_mismatch("K-rows: filter missing from the model's row table", {"filter": name}, "no row",
                               "registered in jinja2.filters.FILTERS", None)
            continue
        k = R.key(name, vi, taints)
        o = R.observe(jinja2, name, spec, taints, env, tctx)
        nt = (not all(taints)) and o["error"] is None and len(taints) > 0
        ctx.case(sample={"tie": "K-rows", "case": k, "result_is_markup": o["is_mk"], "flows": o["flows"],
                         "emitted": o["emitted"][:80]} if nt and name == "indent" and len(ctx.samples) < 1 else None,
                 key=("row", k) if nt else None)
        ctx.count("k_rows")
        got = (o["is_mk"], "".join({"esc": "e", "raw": "r", "none": "n"}[f] for f in o["flows"]))
        rows.append((k, taints, o["is_mk"], o["flows"], name))
        # the property itself on this call: what the output path emits must be Clean and payload-free
        of = None
        if name not in R.EXPLICIT_OPT_OUT and o["error"] is None:
            em = R.strip_documented(name, o["emitted"])
            if "<payload" in o["emitted"].lower():
                of = f"payload reaches the output raw: {o['emitted'][:120]!r}"
            elif not R.is_clean(em):
                of = f"output of the filter result is not Clean: {o['emitted'][:120]!r}"
        exp = R.EXPECTED.get(k)
        if o["error"] is not None:
            ctx.model_mismatch("K-rows: filter call shape raises", {"case": k}, exp, o["error"], None)
        elif exp is None or tuple(exp) != got:
            ctx.model_mismatch("K-rows " + name, {"kind": "row", "filter": name, "variant": vi, "taints": list(taints)},
                               exp, got, of, "C15:filter-row:" + name)
        elif of:
            ctx.reject({"kind": "row", "filter": name, "variant": vi, "taints": list(taints)}, of, "C15:filter-row:" + name)
        else:
            ctx.validated()
    # the same call shapes with NON-string carriers of the payload (list / tuple / dict / object with
    # __str__ / str subclass) in every plain string position
    for name, vi, spec, taints, carrier in R.carrier_cases(jinja2):
        k = R.key(name, vi, taints, carrier)
        o = R.observe(jinja2, name, spec, taints, env, tctx, carrier)
        ctx.case(sample={"tie": "K-rows", "case": k, "result_is_markup": o["is_mk"], "flows": o["flows"], "emitted": o["emitted"][:80]}
                 if name == "xmlattr" and carrier == "list" and len(ctx.samples) < 2 else None,
                 key=("row", k) if o["error"] is None else None)
        ctx.count("k_rows_carrier")
        exp = R.EXPECTED_CARRIERS.get(k)
        if o["error"] is not None:
            got = ("error", o["error"])
        else:
            got = (o["is_mk"], "".join({"esc": "e", "raw": "r", "none": "n"}[f] for f in o["flows"]))
            rows.append((k, taints, o["is_mk"], o["flows"], name))
        of = None
        if name not in R.EXPLICIT_OPT_OUT and o["error"] is None:
            em = R.strip_documented(name, o["emitted"])
            if "<payload" in o["emitted"].lower():
                of = f"payload carried by a {carrier} reaches the output raw: {o['emitted'][:120]!r}"
            elif not R.is_clean(em):
                of = f"output of the filter result is not Clean: {o['emitted'][:120]!r}"
        case = {"kind": "row", "filter": name, "variant": vi, "taints": list(taints), "carrier": carrier}
        if exp is None or tuple(exp) != got:
            ctx.model_mismatch("K-rows (carrier) " + name, case, exp, got, of, "C15:filter-row:" + name)
        elif of:
            ctx.reject(case, of, "C15:filter-row:" + name)
        else:
            ctx.validated()
    # every built-in TEST: the answer is a bool whatever the (plain / Markup / carrier) arguments are, so no
    # argument text can reach the output through a test (tests feed if / select / reject only by their truth value)
    from jinja2.tests import TESTS
    for name, spec, taints, carrier in R.test_cases(jinja2):
        ctx.case(key=("test", name, taints, carrier))
        ctx.count("k_tests")
        if spec is None:
            ctx.model_mismatch("K-tests: test missing from the model's table", {"test": name}, "no row", "registered in jinja2.tests.TESTS", None)
            continue
        got = R.observe_test(jinja2, name, spec, taints, carrier, env, tctx)
        if got[0] == "other":
            ctx.reject({"kind": "test", "test": name, "taints": list(taints), "carrier": carrier},
                       f"test {name} returned a non-bool value {got[1]!r}", "C15:test-row:" + name)
        else:
            ctx.validated()
    ctx.extra["tests_in_running_jinja2"] = len(TESTS)
    for name in sorted(set(R.SPECS) - set(FILTERS)):
        ctx.notes.append(f"row table has a filter the running jinja2 does not register: {name}")
    # regenerated obligation: the OBSERVED table is safe (decided in Coq), opt-out rows excluded
    obs = [(k, t, mk, fl) for k, t, mk, fl, name in rows if name not in R.EXPLICIT_OPT_OUT]
    vtext = ("From Coq Require Import List Bool.\nImport ListNotations.\n"
             "From JV Require Import Model.EscRows Proofs.EscRowsProofs.\n"
             "Definition observed_rows : list rcase :=\n" + R.coq_table(obs) + ".\n"
             "Theorem observed_rows_safe : row_safe observed_rows = true.\nProof. vm_compute. reflexivity. Qed.\n"
             "(* every observed row with a Markup result, string rows and carrier rows alike, yields Clean text *)\n"
             "Definition observed_rows_clean := JV.Proofs.EscRowsProofs.rows_table_clean observed_rows observed_rows_safe.\n"
             f"Theorem observed_rows_count : length observed_rows = {len(obs)}%nat.\nProof. reflexivity. Qed.\n")
    ok, out = ctx.coq_obligation("Gen_filter_rows", vtext, n_obligations=3)
    ctx.extra["filters_in_running_jinja2"] = len(FILTERS)
    ctx.extra["filter_row_cases"] = len(rows)

    # ---------------- T: translator tie for the output path of the code generator
    translator_tie(ctx)

    shared_bccache_probe(ctx, jinja2)

    # ---------------- K-sel: select_autoescape
    sel_cases = []
    exts = ["html", "htm", "xml", "txt", "j2", "HTML", ".html", "tar.gz", "html.j2", "tmpl.xml", "a.b.c"]
    names = ["a.html", "A.HTML", "x.txt", "noext", "b.htm", "c.xml.j2", "d.html.txt", "html", ".html", "e.tar.gz", "f.XmL", "",
             "p.html.j2", "q.TMPL.XML", "dir/r.a.b.c", "s.html.j2.txt", "t..html", "u.j2", "html.j2", ".tar.gz"]
    for _ in range(ctx.size(300, 3000)):
        en = ctx.rng.sample(exts, ctx.rng.randint(0, 3))
        di = ctx.rng.sample(exts, ctx.rng.randint(0, 2))
        dfs, dflt = ctx.rng.random() < 0.5, ctx.rng.random() < 0.5
        nm = ctx.rng.choice(names + [None])
        sel_cases.append((en, di, dfs, dflt, nm))
    lines = []
    for en, di, dfs, dflt, nm in sel_cases:
        pe = ["." + x.lstrip(".").lower() for x in en]
        pd = ["." + x.lstrip(".").lower() for x in di]
        lines.append(" ".join(["SA", str(len(pe))] + [L.enc(x) for x in pe] + [str(len(pd))] + [L.enc(x) for x in pd]
                              + ["1" if dfs else "0", "1" if dflt else "0", "none" if nm is None else L.enc(nm)]))
    for c, m in zip(sel_cases, ctx.driver("esc", lines)):
        en, di, dfs, dflt, nm = c
        try:
            real = "1" if jinja2.select_autoescape(en, di, dfs, dflt)(nm) else "0"
        except Exception as e:
            real = "X:" + type(e).__name__
        ctx.case(key=("sel", repr(c)) if nm else None)
        ctx.count("k_sel")
        if real != m:
            of = None
            if m == "1" and nm:
                # the documented selector enables this name: a template of that name must escape its data
                try:
                    envs = jinja2.Environment(loader=jinja2.DictLoader({nm: "{{ d }}"}), autoescape=jinja2.select_autoescape(en, di, dfs, dflt))
                    o = envs.get_template(nm).render(d="<b>" + MARK)
                    of = judge_output(o)
                except Exception as e:
                    of = f"rendering raised {type(e).__name__}"
            ctx.model_mismatch("K-sel select_autoescape", {"kind": "selector", "enabled": en, "disabled": di, "dfs": dfs, "default": dflt, "name": nm},
                               m, real, of, "C15:select-autoescape")
        else:
            ctx.validated()

    # ---------------- K-lang (same evaluator as C16, other seed stream)
    cases = []
    for i in range(ctx.size(600, 6000)):
        g = L.LGen(ctx.rng, neutral=False, safe_ok=ctx.rng.random() < 0.3, text=("safe", "meta", "amp"), ae="01f", depth=3)
        t = g.program(wrap_flag=ctx.rng.random() < 0.3)
        d, dl = g.data()
        cases.append((ctx.rng.random() < 0.5, ctx.rng.random() < 0.5, t, d, dl))
    outs = ctx.driver("esc", [L.render_line(*c) for c in cases])
    for c, o in zip(cases, outs):
        b0, flag, t, d, dl = c
        m = L.parse_render(o)
        src = L.pr_body(t)
        real = L.real_render(jinja2, b0, flag, t, d, dl, src)
        nt = bool(m) and bool(L.features(t) & {"eM", "sA", "sB", "sX", "eC", "eK"})
        ctx.case(key=("klang", src, repr(d), repr(dl), b0, flag) if nt else None)
        ctx.count("k_lang")
        if m != real:
            ctx.model_mismatch("K-lang EscLang.render vs Template.render",
                               {"autoescape": b0, "flag": flag, "source": src, "data": d, "lists": dl}, m, real, None)
        else:
            ctx.validated()

    # ---------------- K-sets / O-sets2 (second round): template sets of Model/EscLang2.v
    cases = []
    for _ in range(ctx.size(400, 4000)):
        st, d, dl, g = L2.gen_set(ctx.rng, neutral=False, safe_ok=ctx.rng.random() < 0.2, text=("safe", "meta", "amp"), ae_ops="01f")
        cases.append((st, ctx.rng.random() < 0.5, d, dl, g.stats))
    for (st, fl, d, dl, stats), o in zip(cases, ctx.driver("esc2", [L2.render_line(st, fl, d, dl) for st, fl, d, dl, _ in cases])):
        m = L.parse_render(o)
        real = L2.real_render(jinja2, st, fl, d, dl)
        srcs, main = L2.sources(st)
        nt = bool(m) and any(k.split(":")[0] in ("include", "import", "block", "super", "setblock_filter") for k in stats)
        ctx.case(key=("ksets", repr(sorted(srcs.items())), repr(d), repr(dl), fl) if nt else None)
        ctx.count("k_sets")
        if m != real:
            ctx.model_mismatch("K-sets EscLang2.render vs Template.render", {"templates": srcs, "main": main, "flag": fl, "data": d, "lists": dl},
                               m, real, None)
        else:
            ctx.validated()
    for _ in range(ctx.size(400, 4000)):
        st, d, dl, g = L2.gen_set(ctx.rng, neutral=False, safe_ok=False, text=("safe",), ae_ops="1f", marker=MARK, all_on=True)
        out = L2.real_render(jinja2, st, True, d, dl)
        srcs, main = L2.sources(st)
        account(ctx, "o_sets2", out, ("oS2", repr(sorted(srcs.items())), repr(d), repr(dl)),
                {"oracle": "O-sets2", "templates": srcs, "data": d})
        w = judge_output(out)
        if w:
            ctx.reject({"kind": "set", "mode": "static", "templates": srcs, "data": dict({f"n{k}": v for k, v in d.items()},
                        **{f"n{k}": v for k, v in dl.items()}, ae_flag=True)}, w, "C15:template-set-2")

    # ---------------- O-finalize: environment.finalize x (static | constant | runtime-decided autoescape) x template text.
    # Template data is documented never to go through finalize: with a finalize that brackets every value, no
    # template text may appear bracketed (bracketing changes emptiness of values, so outputs are not compared further).
    from markupsafe import Markup as _Mk

    def _fin(v):
        if hasattr(v, "__html__"):
            return _Mk("\u2039") + v + _Mk("\u203a")
        return "\u2039" + str(v) + "\u203a"
    for i in range(ctx.size(1000, 15000)):
        g = L.LGen(ctx.rng, neutral=True, safe_ok=False, text=("fin",), ae="01f", depth=ctx.rng.choice([1, 2, 2]))
        t = g.program(wrap_flag=ctx.rng.random() < 0.4)
        if L.features(t) & {"sD", "sA", "sB", "sX"}:
            continue      # a macro / call / set / filter block turns template text into a VALUE, which is finalized
        d, dl = g.data()
        src = L.pr_body(t)
        if ctx.rng.random() < 0.3:
            src = re.sub(r"(TX[abd][ ;]?)", r"{% raw %}\1{% endraw %}", src, count=2)
        data = {f"n{k}": v for k, v in d.items()}
        data.update({f"n{k}": v for k, v in dl.items()})
        b0, flag = ctx.rng.random() < 0.5, ctx.rng.random() < 0.5
        data[L.FLAG_NAME] = flag
        try:
            out_f = jinja2.Environment(autoescape=b0, finalize=_fin).from_string(src).render(data)
            out_p = jinja2.Environment(autoescape=b0).from_string(src).render(data)
        except Exception:
            ctx.case(); ctx.count("o_finalize_error")
            continue
        nt = "TX" in out_p and "\u2039" in out_f
        ctx.case(key=("ofin", src, repr(data), b0) if nt else None)
        ctx.count("o_finalize")
        w = None
        if "\u2039TX" in out_f or re.search(r"TX\w[ ;\]]?\u203a", out_f):
            w = f"template text went through environment.finalize: {out_f[:160]!r}"
        if w:
            ctx.reject({"kind": "finalize", "source": src, "data": data, "autoescape": b0}, w, "C15:finalize-template-data")
        else:
            ctx.validated()

    # ---------------- H-interleave: two OVERLAPPING renders of ONE Template object (generate() advanced k pieces, a
    # full render in between, then the first one finished) must each give what a lone render gives: the eval
    # context that {% autoescape %} regions mutate belongs to one render
    for i in range(ctx.size(200, 2500)):
        g = L.LGen(ctx.rng, neutral=False, safe_ok=False, text=("safe",), ae="01f", depth=3)
        t = g.program(wrap_flag=ctx.rng.random() < 0.3)
        if not (L.features(t) & {"ae0", "ae1", "aef"}):
            continue
        d, dl = g.data()
        src = L.pr_body(t)
        data = {f"n{k}": v for k, v in d.items()}
        data.update({f"n{k}": v for k, v in dl.items()})
        b0 = ctx.rng.random() < 0.6
        data[L.FLAG_NAME] = ctx.rng.random() < 0.5
        data2 = dict(data, **{L.FLAG_NAME: not data[L.FLAG_NAME]})
        try:
            env = jinja2.Environment(autoescape=b0)
            tm = env.from_string(src)
            ref1, ref2 = tm.render(data), tm.render(data2)
            pieces = list(tm.generate(data))
            k = ctx.rng.randint(1, max(1, len(pieces)))
            ga = tm.generate(data)
            got_a = [next(ga) for _ in range(min(k, len(pieces)))]
            got_b = tm.render(data2)
            gc = tm.generate(data2)
            got_c = [next(gc) for _ in range(min(k, len(list(tm.generate(data2)))))]
            got_a += list(ga)
            got_c += list(gc)
        except Exception:
            ctx.case(); ctx.count("h_interleave_error")
            continue
        ctx.case(key=("interleave", src, repr(data), b0, k))
        ctx.count("h_interleave")
        bad = None
        if "".join(got_a) != ref1:
            bad = f"generate() suspended after {k} pieces while another render ran gives {''.join(got_a)[:120]!r}, alone {ref1[:120]!r}"
        elif got_b != ref2:
            bad = f"render() run while a generate() of the same template was suspended gives {got_b[:120]!r}, alone {ref2[:120]!r}"
        elif "".join(got_c) != ref2:
            bad = "second interleaved generate() differs from a lone render"
        if bad:
            ctx.reject({"kind": "interleave", "source": src, "data": data, "autoescape": b0, "k": k}, bad, "C15:overlapping-renders")
        else:
            ctx.validated()

    # ---------------- O-T: programs of T inside the hypotheses, three modes
    progs = []
    for i in range(ctx.size(300, 7000)):
        g = L.LGen(ctx.rng, neutral=False, safe_ok=False, text=("safe",), ae="1f", depth=3, marker=MARK)
        t = g.program()
        d, dl = g.data()
        progs.append((t, d, dl))
    preds = ctx.driver("esc", [L.pred_line(True, t) for t, _, _ in progs])
    for (t, d, dl), p in zip(progs, preds):
        src = L.pr_body(t)
        if p.split(" ")[1] != "1":
            ctx.model_mismatch("generator/c15_ok", {"source": src}, p, "c15_ok expected", None)
            continue
        data = {f"n{k}": v for k, v in d.items()}
        data.update({f"n{k}": v for k, v in dl.items()})
        data[L.FLAG_NAME] = True
        for mode in MODES:
            out = render_mode(jinja2, mode, {"main.html": src}, "main.html", data, axis=ctx.rng.choice(AXES), ctx=ctx)
            account(ctx, "o_T_" + mode, out, ("oT", mode, src, repr(data)),
                    {"oracle": "O-T", "mode": mode, "source": src, "data": data})
            w = judge_output(out)
            if w:
                ctx.reject({"kind": "set", "mode": mode, "templates": {"main.html": src}, "data": data}, w, "C15:T-program")

    # ---------------- O-sets: shared generator, all features
    for idx in range(ctx.size(300, 5000)):
        g = TGen(ctx.rng, meta=True, depth=3)
        ts, main = g.template_set()
        data = g.data()
        for mode in MODES:
            out = render_mode(jinja2, mode, ts, main, data, axis=ctx.rng.choice(AXES), ctx=ctx)
            account(ctx, "o_sets_" + mode, out, ("oS", mode, repr(sorted(ts.items())), repr(data)),
                    {"oracle": "O-sets", "mode": mode, "templates": ts, "data": repr(data)})
            w = judge_output(out)
            if w:
                ctx.reject({"kind": "set", "mode": mode, "templates": ts, "data": data}, w, "C15:template-set")

    # ---------------- O-expr: data-controlled filter arguments, operators, string methods
    words = ["<b>", "o<i>", "\"q\"o", "'s o", "&<o>", "o </p>", "<script>o", "x\no<y>\n\n'z'", "o http://e.example/?a=<1>&b='2' o"]
    n_expr = 0
    for e in EXPRS:
        for wi, wsrc in enumerate(WRAPPERS):
            if ctx.tier == "quick" and ctx.rng.random() > 0.16 and wi != 0:
                continue
            if ("{%% filter" in wsrc or "set r |" in wsrc) and any(x in e for x in ("urlize", "xmlattr", "tojson")):
                continue      # a filter block would rewrite the documented markup itself
            src = PRELUDE + (wsrc % e)
            data = {n: value_kind(ctx.rng, ctx.rng.choice(words) + MARK) for n in "abc"}
            data["fn"] = make_fn(str(data["c"]))
            data["cmpo"] = _Ops(str(data["b"]))
            for mode in MODES:
                out = render_mode(jinja2, mode, {"main.html": src}, "main.html", data, axis=ctx.rng.choice(AXES), ctx=ctx)
                n_expr += 1
                account(ctx, "o_expr_" + mode, out, ("oE", mode, src, repr(data)),
                        {"oracle": "O-expr", "mode": mode, "source": src, "data": data})
                if out is None:
                    continue
                w = judge_expr(e, wsrc, out)
                if w:
                    ctx.reject({"kind": "expr", "mode": mode, "expr": e, "wrapper": wsrc, "templates": {"main.html": src},
                                "data": data}, w, "C15:expression:" + e)
    ctx.extra["o_expr_renders"] = n_expr

    # ---------------- O-region: enabled regions mixed with code compiled outside them (macros defined
    # outside a region and called inside, block tags inside a region, overriding blocks rendered in the
    # parent's region, macros imported from a template that is not autoescaped)
    for shape, sig in REGION_SHAPES:
        for _ in range(ctx.size(6, 40)):
            data = {n: ctx.rng.choice(words) + MARK for n in "abc"}
            e = ctx.rng.choice(["a", "a ~ b", "a|upper", "[a, b]|join(c)", "a|replace(b, c)", "a|default(b)"])
            ts = {k: v.replace("EXPR", e) for k, v in shape["templates"].items()}
            try:
                if shape["mode"] == "selector":
                    env = jinja2.Environment(loader=jinja2.DictLoader(ts), autoescape=jinja2.select_autoescape(("html",)))
                else:
                    env = jinja2.Environment(loader=jinja2.DictLoader(ts), autoescape=False)
                out = env.get_template("main.html").render(ae_on=True, **data)
            except Exception:
                out = None
            account(ctx, "o_region", out, ("oR", repr(sorted(ts.items())), repr(data)),
                    {"oracle": "O-region", "templates": ts, "data": data})
            w = judge_output(out)
            if w:
                ctx.reject({"kind": "region", "mode": shape["mode"], "templates": ts, "data": data}, w, sig)


def shared_bccache_probe(ctx, jinja2):
    """two environments with different autoescape settings sharing one bytecode cache directory: the cache key is
    name + source, so the autoescaped environment can load code compiled without escaping (C27's recorded
    finding C27-shared-cache-ignores-options, re-observed here as a C15 leak)"""
    import shutil
    import tempfile
    d = tempfile.mkdtemp(prefix="c15_bcc_", dir=ctx.bdir)
    try:
        loader = jinja2.DictLoader({"t.html": "{{ a }}|{{ a ~ b }}"})
        data = {"a": "<b>" + MARK, "b": "'x"}
        e1 = jinja2.Environment(loader=loader, autoescape=False, bytecode_cache=jinja2.FileSystemBytecodeCache(d))
        e1.get_template("t.html").render(**data)
        e2 = jinja2.Environment(loader=loader, autoescape=True, bytecode_cache=jinja2.FileSystemBytecodeCache(d))
        out = e2.get_template("t.html").render(**data)
    except Exception:
        out = None
    finally:
        shutil.rmtree(d, ignore_errors=True)
    ctx.case(key=("bccache-shared",))
    ctx.count("probe_shared_bccache")
    w = judge_output(out)
    if w:
        ctx.reject({"kind": "shared-bccache"}, w, "C15:shared-bytecode-cache-different-autoescape")
    else:
        ctx.validated()


def translator_tie(ctx):
    """regenerate the decision table of the output path from the current compiler.py / runtime.py and have
    coqc prove facts_ok over it (Properties/C15gen.v turns that into the equations of the evaluator)"""
    ctx.proof("C15gen")
    gen_dir = os.path.join(lib.ROOT, "gen")
    if gen_dir not in sys.path:
        sys.path.insert(0, gen_dir)
    import esc_translate
    try:
        vtext = esc_translate.emit(lib.SRC)
    except esc_translate.Untranslatable as e:
        ctx.obligations += 1
        ctx.obligation_names.append("Gen_esc_codegen (regenerated, not translatable)")
        ctx.broken.append(f"translator gen/esc_translate.py: the output path of the code generator left the translatable vocabulary: {e}")
        return
    ok, out = ctx.coq_obligation("Gen_esc_codegen", vtext, n_obligations=3)
    ctx.extra["codegen_table"] = [ln.strip() for ln in vtext.splitlines() if ln.strip().startswith("f_")][:14]


def judge_expr(e, wsrc, out):
    """Clean check with the documented markup of urlize / xmlattr / tojson set aside"""
    text = out
    if "urlize" in e:
        text = R.strip_documented("urlize", text)
    if "xmlattr" in e:
        text = R.strip_documented("xmlattr", text)
    if "tojson" in e:
        text = R.strip_documented("tojson", text)
    if "<payload" in out.lower():
        i = out.lower().index("<payload")
        return f"payload reaches the output raw near {out[max(0, i-40):i+30]!r}"
    return judge_output(text)


def account(ctx, kind, out, key, sample):
    if out is None:
        ctx.case()
        ctx.count(kind + "_error")
        return
    nt = "&lt;" in out or "&#3" in out or "&gt;" in out
    if nt and len(ctx.samples) < 5 and kind.endswith("runtime"):
        ctx.case(sample=dict(sample, output=out[:160]), key=key)
    else:
        ctx.case(key=key if nt else None)
    ctx.count(kind)
    ctx.validated()


def replay(ctx, data):
    jinja2 = lib.use_repo_jinja()
    case = data.get("case")
    if data.get("kind") != "failing-input" or case is None:
        print("replay: this file names a broken theorem/correspondence, not an input:", data.get("broken"))
        return run(ctx)
    if case.get("kind") == "row":
        name, vi, taints = case["filter"], case["variant"], tuple(case["taints"])
        o = R.observe(jinja2, name, R.SPECS[name][vi], taints, carrier=case.get("carrier"))
        print("observed:", o)
        em = R.strip_documented(name, o["emitted"])
        if "<payload" in o["emitted"].lower() or not R.is_clean(em):
            ctx.reject(case, "filter result reaches the output unescaped: " + o["emitted"][:120], "C15:filter-row:" + name)
    elif case.get("kind") == "region":
        try:
            if case["mode"] == "selector":
                env = jinja2.Environment(loader=jinja2.DictLoader(case["templates"]), autoescape=jinja2.select_autoescape(("html",)))
            else:
                env = jinja2.Environment(loader=jinja2.DictLoader(case["templates"]), autoescape=False)
            out = env.get_template("main.html").render(ae_on=True, **case["data"])
        except Exception as e:
            out = None
        w = judge_output(out)
        print("output:", repr(out), "\noracle:", w)
        if w:
            ctx.reject(case, w, data.get("signature"))
    elif case.get("kind") == "selector":
        nm = case["name"]
        envs = jinja2.Environment(loader=jinja2.DictLoader({nm: "{{ d }}"}),
                                  autoescape=jinja2.select_autoescape(case["enabled"], case["disabled"], case["dfs"], case["default"]))
        out = envs.get_template(nm).render(d="<b>" + MARK)
        w = judge_output(out)
        print("output:", repr(out), "\noracle:", w)
        if w:
            ctx.reject(case, w, "C15:select-autoescape")
    elif case.get("kind") in ("set", "expr"):
        out = render_mode(jinja2, case["mode"], case["templates"], "main.html", case["data"])
        w = judge_expr(case.get("expr", ""), "", out) if out is not None else None
        print("output:", repr(out), "\noracle:", w)
        if w:
            ctx.reject(case, w, data.get("signature"))
    else:
        print("replay: unknown case kind", case)
